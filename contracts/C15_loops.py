"""C15 - the main / cycle / time-node loops of the real Operator visit every node once, in order, from the restart
point (established during beginning-of-life), with halt at BOC and end-of-life always run.

Probe subclass: the real _mainOperate / _cycleLoop / _timeNodeLoop / _performTightCoupling are executed; only the
interactAll* fan-out (proved/bounded elsewhere) is replaced by a recorder.  Shapes are enumerated completely for
<= 3 cycles x 0..2 burn steps (every restart point, every halting cycle); values (power fractions, lengths) symbolic.
"""
from spec import *

Operator = repo("armi.operators.operator:Operator")


class PMap:
    pass


class Holder:
    pass


class Probe(Operator):
    def interactAllBOL(self):
        self.trace.append(("BOL", self.r.p.cycle, self.r.p.timeNode))
        # a restart establishes its starting point during beginning-of-life (as the main interface does)
        self.r.p.cycle = self.restartCycle
        self.r.p.timeNode = self.restartNode

    def interactAllBOC(self, cycle):
        self.trace.append(("BOC", cycle, self.r.p.cycle, self.r.p.timeNode))
        return cycle == self.haltCycle

    def interactAllEveryNode(self, cycle, node):
        self.trace.append(("NODE", cycle, node, self.r.p.cycle, self.r.p.timeNode))

    def interactAllEOC(self, cycle):
        self.trace.append(("EOC", cycle, self.r.p.cycle))

    def interactAllEOL(self):
        self.trace.append(("EOL",))

    def couplingIsActive(self):
        return False


def expected(nCycles, steps, c0, n0, haltCycle):
    t = [("BOL", 0, 0)]
    for c in range(c0, nCycles):
        first = n0 if c == c0 else 0
        t.append(("BOC", c, c, first))
        if c == haltCycle:
            break
        for n in range(first, steps[c] + 1):
            t.append(("NODE", c, n, c, n))
        t.append(("EOC", c, c))
    t.append(("EOL",))
    return t


@lemma(gen={"nCycles": (1, 3), "s0": (0, 2), "s1": (0, 2), "s2": (0, 2), "c0": (0, 2), "n0": (0, 2), "haltCycle": (-1, 3), "pf": (0.1, 1.0)}, timeout=30)
def run_visits_every_node_once_in_order(nCycles: int, s0: int, s1: int, s2: int, c0: int, n0: int, haltCycle: int, pf: float, length: float):
    nCycles = choose(nCycles, 1, 3)
    s0 = choose(s0, 0, 2)
    s1 = choose(s1, 0, 2)
    s2 = choose(s2, 0, 2)
    steps = [s0, s1, s2][:nCycles]
    c0 = choose(c0, 0, 2)
    assume(c0 < nCycles)
    # any cycle length (0 and negative included: the loops only pass it on to the reactor state)
    n0 = choose(n0, 0, 2)
    assume(n0 <= steps[c0])
    haltCycle = choose(haltCycle, -1, 3)
    r = new(Holder, p=new(PMap, cycle=0, timeNode=0, cycleLength=0.0, availabilityFactor=1.0, capacityFactor=0.0, stepLength=0.0),
            core=new(Holder, p=new(PMap, coupledIteration=0, power=0.0)))
    o = new(Probe, r=r, cs={"nCycles": nCycles, "power": 100.0, "powerDensity": 0.0}, trace=[],
            restartCycle=c0, restartNode=n0, haltCycle=haltCycle,
            _cycleLengths=[length] * nCycles, _availabilityFactors=[1.0] * nCycles, _burnSteps=steps,
            _powerFractions=[[pf] * max(s, 1) for s in steps], _stepLengths=[[length] * max(s, 1) for s in steps])
    o._mainOperate()
    assert o.trace == expected(nCycles, steps, c0, n0, haltCycle), "BOL; per cycle from the start cycle: BOC, nodes start..last, EOC; EOL once"
