"""C01 - a deep copy of a subtree is an equal-shaped tree that shares no node with the original and is internally re-linked.

Executed symbolically (real code): ArmiObject.__getstate__ / __setstate__, Composite.__iter__ / __len__, Grid.__getstate__ /
__setstate__, StructuredGrid.__getitem__ / items / __len__, LocationBase.__init__ / __getstate__ / __setstate__ / associate / i / j /
k / grid, Block.__deepcopy__, Component.__setstate__ / __copy__ / _getLinkedDimsAndValues / _restoreLinkedDims,
_DimensionLink.getLinkedComponent, Assembly.makeUnique / renumber / renameBlocksAccordingToAssemblyNum / makeNameFromAssemNum / getNum,
ParameterCollection.__init__ / __deepcopy__ / __getstate__ / __getitem__ / __delitem__ / __setattr__ (for the component lemmas),
all driven by copy.deepcopy / copy.copy.

The copy machinery itself is the engine's model of copy.deepcopy (trusted, A6): it follows copyreg's protocol - a blank
object, recorded in the memo BEFORE its state is copied, state = deep copy of __getstate__(), then __setstate__(state); a
class's own __deepcopy__(memo) / __copy__ is executed as the method it is; tuples, lists, dicts and instances of tuple
subclasses are rebuilt item by item with the shared memo.

Shapes are enumerated completely (choose): k = 0..3 children, with / without a grandchild level, with / without a parent
above the copied root; names, location indices and parameter values are symbolic.

Stand-ins: `PStub` (a parameter collection as a plain object with attributes) in the shape lemma; `PCC` (harness subclass
of the real ParameterCollection set up as applyParameters would), `CircleProbe` (real Circle, DIMENSION_NAMES as the
ComponentType metaclass derives them), `MatStub` (a material: only `parent` and `cached` matter), `BlockProbe` (the real Block;
nothing overridden) in the component lemmas; `BlkStub` in the assembly lemma (setName / makeName with their obvious
contracts).
"""
import copy
import pickle

import numpy as np

from spec import *

Composite = repo("armi.reactor.composites:Composite")
HexGrid = repo("armi.reactor.grids.hexagonal:HexGrid")
IndexLocation = repo("armi.reactor.grids.locations:IndexLocation")


class PStub:
    """parameter collection stand-in: plain attributes (deep-copied as a plain object)"""


def same_seq(xs, ys):
    if len(xs) != len(ys):
        return False
    for k in range(len(xs)):
        if not same(xs[k], ys[k]):
            return False
    return True


def none_of(x, objs):
    for o in objs:
        if same(x, o):
            return False
    return True


def hexgrid():
    us = HexGrid._getRawUnitSteps(1.0, False)
    return new(HexGrid, _unitSteps=np.array(us), _bounds=(None, None, None), _stepDims=((0, 1, 2),), _boundDims=((),),
               _offset=np.zeros(3), _unitStepLimits=((-3, 3), (-3, 3), (0, 1)), _symmetry="full", _isAxialOnly=False,
               armiObject=None, _locations={}, _geomType="hex", _backup=None)


def node(name, power):
    """attribute order as the real constructors assign them (ArmiObject.__init__, then Composite.__init__)"""
    return new(Composite, name=name, parent=None, cached={}, _backupCache=None, p=new(PStub, power=power, flux=[power, 1.0]), _lumpedFissionProducts=None,
               spatialGrid=None, spatialLocator=None, childrenByLocator={}, _children=[])


def mk_tree(k, grand, hasParent, idx, pw):
    """boss -> root (own hex grid) -> k children at (idx[c], 0, 0); child 0 owns a grid with two grandchildren"""
    root = node("root", pw[0])
    g = hexgrid()
    g.armiObject = root
    root.spatialGrid = g
    spare = g[9, 9, 0]  # a location the grid holds although no child sits there (an empty cell that was looked up once)
    kids, gkids = [], []
    for c in range(k):
        o = node("c%d" % c, pw[c + 1])
        o.parent = root
        o.spatialLocator = g[idx[c], 0, 0]  # REAL StructuredGrid.__getitem__: the location is created and kept by the grid
        root._children.append(o)
        kids.append(o)
    if grand and k > 0:
        sub = hexgrid()
        sub.armiObject = kids[0]
        kids[0].spatialGrid = sub
        for n in range(2):
            q = node("g%d" % n, pw[0] + n)
            q.parent = kids[0]
            q.spatialLocator = sub[n, 1, 0]
            kids[0]._children.append(q)
            gkids.append(q)
    boss = None
    if hasParent:
        boss = node("boss", 0.0)
        bg = hexgrid()
        bg.armiObject = boss
        boss.spatialGrid = bg
        boss._children.append(root)
        root.parent = boss
        root.spatialLocator = bg[2, 3, 0]
    return root, g, kids, gkids, boss


@lemma(gen={"k": (0, 3), "i0": (-3, 3), "i1": (-3, 3), "i2": (-3, 3)})
def deep_copy_is_an_equal_shaped_disjoint_relinked_tree(k: int, grand: bool, hasParent: bool, viaPickle: bool, i0: int, i1: int, i2: int, p0: float, p1: float, p2: float, p3: float, x: float):
    """copy.deepcopy(root) and pickle.loads(pickle.dumps(root)) for every shape described in the module docstring: same shape and names, no node / grid /
    location / collection shared with the original, the copied root has no parent (and a detached location), children
    point at the new parent, grids at the new owner, every location of the copy belongs to the copy's grid and the
    grid holds exactly the children's locations; the original tree is untouched."""
    k = choose(k, 0, 3)
    # every child in a cell of its own (one path); children SHARING a cell - and so a location object - are the next lemma.
    # (The spare cell (9, 9, 0) differs from every (i, 0, 0) in j: no hypothesis on i0..i2 is needed for it.)
    assume(i0 != i1 and i0 != i2 and i1 != i2)
    deep_copy_contract(k, grand, hasParent, viaPickle, [i0, i1, i2], [p0, p1, p2, p3], x, k + 1)


@lemma(gen={"k": (2, 3), "i0": (-1, 1), "i1": (-1, 1), "i2": (-1, 1)})
def deep_copy_of_children_that_share_a_cell_keeps_the_sharing(k: int, grand: bool, hasParent: bool, viaPickle: bool, i0: int, i1: int, i2: int, p0: float, p1: float, p2: float, p3: float, x: float):
    """the same contract when two or all three children sit in the SAME cell of the parent's grid (the grid hands out one
    location object per cell, so they share it - e.g. the components of a block that all sit at the block's centre): the
    copies share ONE new location of the NEW grid, which holds as many locations as the original."""
    k = choose(k, 2, 3)
    assume(i0 == i1 or (k == 3 and (i0 == i2 or i1 == i2)))
    ndistinct = 1 if (i0 == i1 and (k == 2 or i1 == i2)) else 2  # (at least one pair is equal)
    deep_copy_contract(k, grand, hasParent, viaPickle, [i0, i1, i2], [p0, p1, p2, p3], x, ndistinct + 1)


def deep_copy_contract(k, grand, hasParent, viaPickle, idx, pw, x, nloc):
    """the contract of the two lemmas above; nloc = number of locations the root's grid holds (distinct cells + the spare one)"""
    root, g, kids, gkids, boss = mk_tree(k, grand, hasParent, idx, pw)
    assert len(g._locations) == nloc, "(harness) the grid holds one location per occupied cell and the spare one"
    originals = [root] + kids + gkids + ([boss] if hasParent else [])
    cp = pickle.loads(pickle.dumps(root)) if viaPickle else copy.deepcopy(root)
    # --- the root of the copy
    assert none_of(cp, originals) and cp.name == "root" and cp.parent is None, "a new root without parent"
    assert len(cp._children) == k, "equal shape: same number of children"
    g2 = cp.spatialGrid
    assert not same(g2, g) and same(g2.armiObject, cp), "its own grid, owned by the copy"
    assert len(g2._locations) == nloc, "the copied grid holds the children's locations and the spare one"
    assert same(g2._locations[(9, 9, 0)].grid, g2) and not same(g2._locations[(9, 9, 0)], g._locations[(9, 9, 0)]), "a location no child uses belongs to the new grid as well"
    if hasParent:
        assert cp.spatialLocator.grid is None and cp.spatialLocator.i == 2 and cp.spatialLocator.j == 3, "taken out of the model: a detached location"
        assert not same(cp.spatialLocator, root.spatialLocator)
    assert not same(cp.p, root.p) and cp.p.power == pw[0] and not same(cp.p.flux, root.p.flux)
    # --- the children
    for c in range(k):
        o = cp._children[c]
        assert none_of(o, originals) and o.name == "c%d" % c, "new nodes, same order"
        for c2 in range(c):
            assert not same(o, cp._children[c2]), "each child listed once"
        assert same(o.parent, cp), "children point at the new parent"
        loc = o.spatialLocator
        assert same(loc.grid, g2) and loc.i == idx[c] and loc.j == 0 and loc.k == 0, "located at the same indices of the NEW grid"
        assert not same(loc, kids[c].spatialLocator)
        assert same(g2._locations[(idx[c], 0, 0)], loc), "the grid hands out the child's location for these indices"
        for c2 in range(c):
            assert same(loc, cp._children[c2].spatialLocator) == same(kids[c].spatialLocator, kids[c2].spatialLocator), "children share a location exactly as the originals do"
        assert not same(o.p, kids[c].p) and o.p.power == pw[c + 1]
        if c > 0 or not grand:
            assert len(o._children) == 0 and o.spatialGrid is None
    # --- the grandchildren
    if grand and k > 0:
        o = cp._children[0]
        s2 = o.spatialGrid
        assert len(o._children) == 2 and not same(s2, kids[0].spatialGrid) and same(s2.armiObject, o) and len(s2._locations) == 2
        for n in range(2):
            q = o._children[n]
            assert none_of(q, originals) and q.name == "g%d" % n and same(q.parent, o) and len(q._children) == 0
            assert same(q.spatialLocator.grid, s2) and q.spatialLocator.i == n and q.spatialLocator.j == 1
            assert same(s2._locations[(n, 1, 0)], q.spatialLocator)
        assert not same(o._children[0], o._children[1])
    # --- the original is as it was
    assert same(root.parent, boss) and same_seq(root._children, kids) and same(root.spatialGrid, g) and same(g.armiObject, root)
    assert len(g._locations) == nloc and same(g._locations[(9, 9, 0)].grid, g)
    for c in range(k):
        assert same(kids[c].parent, root) and same(kids[c].spatialLocator.grid, g) and same(g._locations[(idx[c], 0, 0)], kids[c].spatialLocator)
    if grand and k > 0:
        assert same_seq(kids[0]._children, gkids) and same(gkids[0].parent, kids[0]) and same(gkids[1].spatialLocator.grid, kids[0].spatialGrid)
        assert same(kids[0].spatialGrid.armiObject, kids[0])
    if hasParent:
        assert same_seq(boss._children, [root]) and same(root.spatialLocator.grid, boss.spatialGrid) and len(boss.spatialGrid._locations) == 1
    # --- later edits of one tree do not show in the other
    cp.p.flux[0] = x
    assert root.p.flux[0] == pw[0]
    if k > 0:
        cp._children.pop()
        assert len(root._children) == k


# ---------------------------------------------------------------------------------------------- a block of linked components
ParameterCollection = repo("armi.reactor.parameters.parameterCollections:ParameterCollection")
Parameter = repo("armi.reactor.parameters.parameterDefinitions:Parameter")
PDC = repo("armi.reactor.parameters.parameterDefinitions:ParameterDefinitionCollection")
NoDefault = repo("armi.reactor.parameters.parameterDefinitions:NoDefault")
Circle = repo("armi.reactor.components.basicShapes:Circle")
DimensionLink = repo("armi.reactor.components.component:_DimensionLink")
Block = repo("armi.reactor.blocks:Block")
pcmod = repo("armi.reactor.parameters.parameterCollections")


class PCC(ParameterCollection):
    """the parameter collection class of the circles (set up by mk_class)"""


class PCB(ParameterCollection):
    """the parameter collection class of the block (set up by mk_class)"""


class CircleProbe(Circle):
    DIMENSION_NAMES = ("od", "id", "mult", "modArea")


class BlockProbe(Block):
    """the real Block, nothing overridden (a subclass only so that new() can allocate it)"""


class MatStub:
    """the material of a component: `parent` (the component it belongs to) and a cache"""


class Marker:
    """an opaque object of which only the identity matters (cross-section macros, lumped fission products)"""


CNAMES = ("serialNum", "od", "id", "mult", "modArea", "temperatureInC", "numberDensities")
BNAMES = ("serialNum", "height", "power")


def mk_class(cls, names):
    """what ParameterCollection.applyParameters establishes for a class with these definitions (REAL Parameter / PDC code)"""
    pdc = PDC()
    defs = []
    for nm in names:
        pd = Parameter(nm, "", "a parameter of the stand-in class", None, True, NoDefault, NoDefault, set())
        pd.collectionType = cls
        pdc.add(pd)
        setattr(cls, nm, pd)
        defs.append(pd)
    pdc.lock()
    cls.pDefs = pdc
    cls._allFields = sorted(["_backup", "_hist", "assigned"] + [pd.fieldName for pd in defs])
    cls._slots = set(cls._allFields) | set(names) | {"readOnly"}
    return defs


def mk_circle(name, serial, od, idim, mult, T, n):
    pc = new(PCC, _backup=None, _hist={}, assigned=0, readOnly=False, _p_serialNum=serial, _p_od=od, _p_id=idim, _p_mult=mult, _p_modArea=None,
             _p_temperatureInC=T, _p_numberDensities={"U235": n})
    c = new(CircleProbe, name=name, parent=None, cached={}, _backupCache=None, p=pc, _lumpedFissionProducts=None, spatialGrid=None,
            spatialLocator=IndexLocation(0, 0, 0, None), childrenByLocator={}, _children=[], material=None)
    c.material = new(MatStub, parent=c, cached={"rho": 1.0})
    return c


def mk_block(fuelFirst, hasParent, fuelOd, cladOd, mult, T, n, h, pw):
    fuel = mk_circle("fuel", 1, fuelOd, 0.0, mult, T, n)
    link = DimensionLink((fuel, "od"))
    clad = mk_circle("clad", 2, cladOd, link, mult, T, n)
    pb = new(PCB, _backup=None, _hist={}, assigned=0, readOnly=False, _p_serialNum=0, _p_height=h, _p_power=pw)
    b = new(BlockProbe, name="B0001-000", parent=None, cached={}, _backupCache=None, p=pb, _lumpedFissionProducts=new(Marker), spatialGrid=None,
            spatialLocator=IndexLocation(0, 0, 0, None), childrenByLocator={}, _children=([fuel, clad] if fuelFirst else [clad, fuel]),
            points=[], macros=new(Marker), derivedMustUpdate=False, _pitchDefiningComponent=(clad, 1.0))
    fuel.parent = b
    clad.parent = b
    assem = None
    if hasParent:
        assem = node("A0001", 0.0)
        ag = hexgrid()
        ag.armiObject = assem
        assem.spatialGrid = ag
        assem._children.append(b)
        b.parent = assem
        b.spatialLocator = ag[0, 0, 0]
    return b, fuel, clad, link, assem


@lemma(gen={"g0": (10, 1000), "mult": (1, 300), "mode": (0, 2)})
def deep_copy_of_a_block_relinks_components_materials_and_dimension_links(g0: int, fuelFirst: bool, hasParent: bool, mode: int, fuelOd: float, cladOd: float, mult: int,
                                                                        T: float, n: float, h: float, pw: float, x: float):
    """Block.__deepcopy__ (called as a method, through copy.deepcopy and through Block.createHomogenizedCopy) on a block holding a fuel circle and a clad
    circle whose inner diameter is LINKED to the fuel's outer diameter (either order of the two in the child list; the
    block with / without an assembly above it): the copy is a new parentless block with two new components in the
    same order, each pointing at the new block, each material pointing at its new component; the clad's link is a
    new link that resolves to the COPY's fuel (never back into the original), the block's pitch-defining component
    is the copy's clad; parameter values are equal and stored independently; the three new collections carry three
    different serial numbers larger than the counter was; the original block is untouched."""
    assume(g0 >= 10)
    mode = choose(mode, 0, 2)
    mk_class(PCC, CNAMES)
    mk_class(PCB, BNAMES)
    pcmod.GLOBAL_SERIAL_NUM = g0
    b, fuel, clad, link, assem = mk_block(fuelFirst, hasParent, fuelOd, cladOd, mult, T, n, h, pw)
    b2 = copy.deepcopy(b) if mode == 0 else (b.__deepcopy__({}) if mode == 1 else b.createHomogenizedCopy())
    originals = [b, fuel, clad] + ([assem] if hasParent else [])
    assert none_of(b2, originals) and isinstance(b2, BlockProbe) and b2.parent is None and b2.name == "B0001-000", "a new block without parent"
    assert len(b2._children) == 2 and b2.spatialLocator.grid is None and not same(b2.spatialLocator, b.spatialLocator)
    fuel2 = b2._children[0 if fuelFirst else 1]
    clad2 = b2._children[1 if fuelFirst else 0]
    assert none_of(fuel2, originals) and none_of(clad2, originals) and not same(fuel2, clad2) and fuel2.name == "fuel" and clad2.name == "clad", "new components, same order"
    assert same(fuel2.parent, b2) and same(clad2.parent, b2), "children point at the new parent"
    assert not same(fuel2.material, fuel.material) and same(fuel2.material.parent, fuel2) and same(clad2.material.parent, clad2), "materials point at their new component"
    # the dimension link
    l2 = clad2.p._p_id
    assert isinstance(l2, DimensionLink) and not same(l2, link), "the copy has its own link"
    assert same(l2.getLinkedComponent(), fuel2) and l2[1] == "od", "which resolves to the copy's fuel"
    assert same(clad2.p["id"], l2)
    assert same(b2._pitchDefiningComponent[0], clad2) and b2._pitchDefiningComponent[1] == 1.0, "the pitch-defining component is the copy's"
    # values, storage, serial numbers
    assert fuel2.p.od == fuelOd and clad2.p.od == cladOd and fuel2.p.mult == mult and clad2.p.temperatureInC == T and fuel2.p.numberDensities["U235"] == n
    assert b2.p.height == h and b2.p.power == pw
    assert not same(fuel2.p, fuel.p) and not same(clad2.p, clad.p) and not same(b2.p, b.p) and not same(fuel2.p.numberDensities, fuel.p.numberDensities)
    s = [b2.p.serialNum, fuel2.p.serialNum, clad2.p.serialNum]
    assert s[0] > g0 and s[1] > g0 and s[2] > g0 and s[0] != s[1] and s[0] != s[2] and s[1] != s[2], "three fresh, different serial numbers"
    assert pcmod.GLOBAL_SERIAL_NUM == g0 + 3 and b.p.serialNum == 0 and fuel.p.serialNum == 1 and clad.p.serialNum == 2
    # the original
    assert same(b.parent, assem) and len(b._children) == 2 and same(fuel.parent, b) and same(clad.parent, b)
    assert same(clad.p._p_id, link) and same(link.getLinkedComponent(), fuel) and same(fuel.material.parent, fuel) and same(b._pitchDefiningComponent[0], clad)
    if hasParent:
        assert same_seq(assem._children, [b]) and same(b.spatialLocator.grid, assem.spatialGrid)
    # later changes
    fuel2.p.od = x
    fuel2.p.numberDensities["U235"] = x
    assert fuel.p.od == fuelOd and fuel.p.numberDensities["U235"] == n, "growing the copy's fuel does not touch the original"
    assert same(clad2.p._p_id.getLinkedComponent().p, fuel2.p) and clad2.p._p_id.getLinkedComponent().p.od == x, "and is what the copy's clad sees through its link"


@lemma(gen={"g0": (10, 1000), "nb": (1, 2), "mult": (1, 300)})
def deep_copy_of_an_assembly_of_blocks_is_relinked_down_to_the_components(g0: int, nb: int, od0: float, od1: float, mult: int, T: float, n: float, h0: float, h1: float):
    """three levels: a composite (standing for an assembly: own grid, nb = 1..2 blocks located in it) whose children
    are real Blocks (copied by Block.__deepcopy__ with the SHARED memo) holding one circle each.  The copy has new
    blocks pointing at it, located at THE location object its new grid holds for their cell, new components
    pointing at their new block; fresh pairwise different serial numbers throughout."""
    nb = choose(nb, 1, 2)
    assume(g0 >= 10)
    mk_class(PCC, CNAMES)
    mk_class(PCB, BNAMES)
    pcmod.GLOBAL_SERIAL_NUM = g0
    assem = node("A0001", 0.0)
    ag = hexgrid()
    ag.armiObject = assem
    assem.spatialGrid = ag
    blocks, comps = [], []
    for k in range(nb):
        c = mk_circle("fuel", 2 * k + 1, [od0, od1][k], 0.0, mult, T, n)
        pb = new(PCB, _backup=None, _hist={}, assigned=0, readOnly=False, _p_serialNum=2 * k, _p_height=[h0, h1][k], _p_power=0.0)
        b = new(BlockProbe, name="B0001-00%d" % k, parent=assem, cached={}, _backupCache=None, p=pb, _lumpedFissionProducts=None, spatialGrid=None,
                spatialLocator=ag[0, 0, k], childrenByLocator={}, _children=[c], points=[], macros=None, derivedMustUpdate=False, _pitchDefiningComponent=(c, 1.0))
        c.parent = b
        assem._children.append(b)
        blocks.append(b)
        comps.append(c)
    a2 = copy.deepcopy(assem)
    originals = [assem] + blocks + comps
    g2 = a2.spatialGrid
    assert none_of(a2, originals) and a2.parent is None and len(a2._children) == nb and same(g2.armiObject, a2) and not same(g2, ag) and len(g2._locations) == nb
    serials = []
    for k in range(nb):
        b2 = a2._children[k]
        assert none_of(b2, originals) and isinstance(b2, BlockProbe) and b2.name == "B0001-00%d" % k and same(b2.parent, a2), "new blocks pointing at the new assembly"
        assert same(b2.spatialLocator, g2._locations[(0, 0, k)]) and same(b2.spatialLocator.grid, g2) and not same(b2.spatialLocator, blocks[k].spatialLocator), "located by the new grid's own location object"
        assert len(b2._children) == 1
        c2 = b2._children[0]
        assert none_of(c2, originals) and same(c2.parent, b2) and same(c2.material.parent, c2) and same(b2._pitchDefiningComponent[0], c2), "new components pointing at the new block"
        assert c2.p.od == [od0, od1][k] and b2.p.height == [h0, h1][k] and not same(c2.p, comps[k].p) and not same(b2.p, blocks[k].p)
        for sn in serials:
            assert b2.p.serialNum != sn and c2.p.serialNum != sn
        assert b2.p.serialNum > g0 and c2.p.serialNum > g0 and b2.p.serialNum != c2.p.serialNum
        serials.append(b2.p.serialNum)
        serials.append(c2.p.serialNum)
        assert same(blocks[k].parent, assem) and same(comps[k].parent, blocks[k]) and same(blocks[k].spatialLocator, ag._locations[(0, 0, k)]), "the original is untouched"
    if nb == 2:
        assert not same(a2._children[0], a2._children[1])
    assert pcmod.GLOBAL_SERIAL_NUM == g0 + 2 * nb


# ---------------------------------------------------------------------------------------------- copy.copy of a component, Assembly.makeUnique
@lemma(gen={"g0": (10, 1000), "mult": (1, 300)})
def shallow_copy_of_a_component_is_independent_and_keeps_its_neighbours(g0: int, fuelOd: float, cladOd: float, mult: int, T: float, n: float, x: float):
    """Component.__copy__ (copy.copy(clad); used to split a component inside its block): a new parentless component
    with equal, independently stored parameters and its own serial number and material; its linked dimension is
    linked to the SAME neighbour as before (the fuel is not copied along: exactly one new collection is created) and
    the original keeps its link."""
    assume(g0 >= 10)
    mk_class(PCC, CNAMES)
    mk_class(PCB, BNAMES)
    pcmod.GLOBAL_SERIAL_NUM = g0
    b, fuel, clad, link, assem = mk_block(True, False, fuelOd, cladOd, mult, T, n, 1.0, 0.0)
    c2 = copy.copy(clad)
    assert none_of(c2, [b, fuel, clad]) and isinstance(c2, CircleProbe) and c2.name == "clad" and c2.parent is None, "a new component outside the tree"
    assert not same(c2.p, clad.p) and c2.p.od == cladOd and c2.p.mult == mult and c2.p.temperatureInC == T and c2.p.numberDensities["U235"] == n, "equal values"
    assert not same(c2.p.numberDensities, clad.p.numberDensities) and not same(c2.material, clad.material) and same(c2.material.parent, c2)
    assert c2.p.serialNum > g0 and pcmod.GLOBAL_SERIAL_NUM == g0 + 1, "one fresh serial number: the neighbour was not copied along"
    assert same(c2.p._p_id.getLinkedComponent(), fuel) and c2.p._p_id[1] == "od", "linked to the same neighbour"
    assert same(clad.p._p_id, link) and same(link.getLinkedComponent(), fuel), "the original keeps its link"
    assert same(clad.parent, b) and len(b._children) == 2 and clad.p.od == cladOd and clad.p.serialNum == 2 and fuel.p.serialNum == 1
    c2.p.od = x
    c2.p.numberDensities["U235"] = x
    assert clad.p.od == cladOd and clad.p.numberDensities["U235"] == n, "later changes of the copy do not show in the original"


Assembly = repo("armi.reactor.assemblies:Assembly")


@lemma(gen={"num": (0, 9999), "nb": (0, 2)})
def makeUnique_gives_a_copy_a_placeholder_number_and_renames_it_and_its_blocks(num: int, nb: int):
    """Assembly.makeUnique on (a copy of) assembly number `num` with nb = 0..2 real Blocks: for EVERY outcome of the
    random draw the new number is negative (no assembly placed in a core has it), the assembly is named after it and
    so is every block (name and block-level assemNum), in axial order; nothing else changes."""
    nb = choose(nb, 0, 2)
    assume(num >= 0)
    mk_class(PCB, ("serialNum", "assemNum", "height"))
    a = new(Assembly, name="A{0:04d}".format(num), parent=None, cached={}, _backupCache=None, p=new(PStub, assemNum=num, type="fuel"), spatialGrid=None,
            spatialLocator=None, childrenByLocator={}, _children=[], lastLocationLabel="LoadQueue")
    blocks = []
    for k in range(nb):
        pb = new(PCB, _backup=None, _hist={}, assigned=0, readOnly=False, _p_serialNum=k, _p_assemNum=num, _p_height=1.0)
        b = new(BlockProbe, name="B{0:04d}-{1:03d}".format(num, k), parent=a, cached={}, _backupCache=None, p=pb, _lumpedFissionProducts=None, spatialGrid=None,
                spatialLocator=None, childrenByLocator={}, _children=[], points=[], macros=None, derivedMustUpdate=False, _pitchDefiningComponent=(None, 0.0))
        a._children.append(b)
        blocks.append(b)
    a.makeUnique()
    m = a.p.assemNum
    assert m < 0 and m != num, "a placeholder number no assembly in a core has"
    assert a.getNum() == m
    assert a.name == "A{0:04d}".format(m), "named after its number"
    assert same_seq(a._children, blocks) and a.parent is None
    for k in range(nb):
        assert blocks[k].name == "B{0:04d}-{1:03d}".format(m, k), "every block is renamed after the new number and its axial position"
        assert blocks[k].p.assemNum == m and same(blocks[k].parent, a) and blocks[k].p.serialNum == k


# ---------------------------------------------------------------------------------------------- a core of assemblies
Core = repo("armi.reactor.cores:Core")
Reactor = repo("armi.reactor.reactors:Reactor")
CELLS = [(0, 0), (1, 0), (0, 1), (2, -1)]


@lemma(gen={"n": (0, 3), "c0": (0, 3), "c1": (0, 3), "c2": (0, 3), "nb": (1, 2)})
def deep_copy_of_a_core_has_truthful_lookups_of_its_own(n: int, c0: int, c1: int, c2: int, nb: int, hasReactor: bool, pw: float):
    """Core.__deepcopy__ (through copy.deepcopy) on a core holding n = 0..3 assemblies (listed in ANY order of the cells
    (0,0), (1,0), (0,1), (2,-1); nb = 1..2 blocks each) with its three lookup tables filled, inside a reactor or not: the
    copy is a parentless core whose children, grid and locations are its own and re-linked,
    and whose location / assembly-name / block-name lookups (rebuilt by Core.__setstate__ -> regenAssemblyLists with the
    REAL getAssemblies / getBlocks / sort by location) resolve to ITS assemblies and blocks - exactly those; the
    original core and its tables are untouched."""
    n = choose(n, 0, 3)
    nb = choose(nb, 1, 2)
    c0 = choose(c0, 0, 3)
    c1 = choose(c1, 0, 3)
    c2 = choose(c2, 0, 3)
    cells = [c0, c1, c2][:n]
    assume(len(set(cells)) == n)
    g = hexgrid()
    core = new(Core, name="core", parent=None, cached={}, _backupCache=None, p=new(PStub, power=pw, flux=[pw]), _lumpedFissionProducts=None, spatialGrid=g,
               spatialLocator=None, childrenByLocator={}, _children=[], assembliesByName={}, blocksByName={}, numRings=3, _trackAssems=False, zones=[])
    g.armiObject = core
    r = None
    if hasReactor:
        r = new(Reactor, name="r", parent=None, cached={}, _backupCache=None, p=new(PStub, power=0.0, flux=[]), _lumpedFissionProducts=None, spatialGrid=None,
                spatialLocator=None, childrenByLocator={}, _children=[core], core=core, o=None, blueprints=None)
        core.parent = r
    assems = []
    for q in range(n):
        a = new(Assembly, name="A%04d" % q, parent=core, cached={}, _backupCache=None, p=new(PStub, assemNum=q, type="fuel"), _lumpedFissionProducts=None, spatialGrid=None,
                spatialLocator=g[CELLS[cells[q]][0], CELLS[cells[q]][1], 0], childrenByLocator={}, _children=[], lastLocationLabel="LoadQueue")
        for k in range(nb):
            b = node("B%04d-%03d" % (q, k), pw + k)
            b.parent = a
            a._children.append(b)
            core.blocksByName[b.name] = b
        core._children.append(a)
        core.childrenByLocator[a.spatialLocator] = a
        core.assembliesByName[a.name] = a
        assems.append(a)
    c2_ = copy.deepcopy(core)
    originals = [core] + assems + [b for a in assems for b in a._children]
    assert none_of(c2_, originals) and isinstance(c2_, Core) and c2_.parent is None, "a parentless core"
    g2 = c2_.spatialGrid
    assert not same(g2, g) and same(g2.armiObject, c2_) and len(c2_._children) == n
    assert len(c2_.childrenByLocator) == n and len(c2_.assembliesByName) == n and len(c2_.blocksByName) == n * nb, "the tables list exactly what the copy holds"
    for q in range(n):
        a2 = c2_._children[q]
        i, j = CELLS[cells[q]]
        assert none_of(a2, originals) and a2.name == "A%04d" % q and same(a2.parent, c2_), "its own assemblies, same order"
        assert same(a2.spatialLocator.grid, g2) and a2.spatialLocator.i == i and a2.spatialLocator.j == j and same(g2._locations[(i, j, 0)], a2.spatialLocator)
        assert same(c2_.childrenByLocator[g2[i, j, 0]], a2) and same(c2_.childrenByLocator.get((i, j, 0)), a2), "lookup by location finds the copy's assembly"
        assert same(c2_.assembliesByName["A%04d" % q], a2), "lookup by name finds the copy's assembly"
        assert len(a2._children) == nb
        for k in range(nb):
            b2 = a2._children[k]
            assert none_of(b2, originals) and same(b2.parent, a2) and same(c2_.blocksByName["B%04d-%03d" % (q, k)], b2) and b2.p.power == pw + k
        # the original
        assert same(core._children[q], assems[q]) and same(assems[q].parent, core) and same(core.childrenByLocator[g[i, j, 0]], assems[q]) and same(core.assembliesByName["A%04d" % q], assems[q])
    assert same(core.parent, r) and same(g.armiObject, core) and len(core.childrenByLocator) == n and len(core.blocksByName) == n * nb and core.name == "core"
