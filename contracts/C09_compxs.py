"""C09 - COMPXS (macroscopic composition cross sections, DIF3D): the records follow the specifications record, whole-file
round trip and write(read(file)) == file through the real _CompxsIO.readWrite, _rw1DRecord, _rw2DRecord, _rw5DRecord,
_CompxsRegionIO (_rw3DRecord, _rw4DRecord, _rwGroup4DRecord, _rwPrimaryXS, _rwScatteringMatrix), CompxsRegion (constructor,
allocateXS, makeScatteringMatrices), _CompxsScatterMatrix, _flattenScatteringVector (armi/nuclearDataIO/cccc/compxs.py),
the real CompxsLibrary / XSCollection / RegionXSMetadata and the real binary records on the in-memory stream (model A4).

File structure (compxs.py module docstring): SPECIFICATIONS; COMPOSITION INDEPENDENT DATA; for every composition:
COMPOSITION SPECIFICATIONS, then one COMPOSITION MACROSCOPIC GROUP CROSS SECTIONS record per energy group; POWER
CONVERSION FACTORS - all always present.  A group record holds: absorption, total, removal, transport [fission,
nu-fission, ISPEC chi values: fissionable composition], the scattering band of the group (up-scatter, in-group,
down-scatter), power conversion and 6 directional diffusion numbers, n2n, and one scattering band per higher order.
Stand-in: scipy.sparse.csc_matrix by CscStandIn (dense; symbolically only - natively the real scipy is used).
Headers with a file-wide chi or delayed neutron families cannot be written by the unchanged tree (known findings F115,
F116): contracts/pending/C09_compxs_finding.py.
"""
import struct

import numpy as np

from spec import *

compxs = repo("armi.nuclearDataIO.cccc.compxs")
CompxsIO = repo("armi.nuclearDataIO.cccc.compxs:_CompxsIO")
CompxsRegion = repo("armi.nuclearDataIO.cccc.compxs:CompxsRegion")
CompxsLibrary = repo("armi.nuclearDataIO.xsLibraries:CompxsLibrary")
nfm = repo("armi.nuclearDataIO.nuclearFileMetadata")

F64 = (-8.0, 8.0)

if NATIVE:
    from scipy.sparse import csc_matrix as CscStandIn

    def csc(rows):
        return CscStandIn(np.array(rows))
else:
    class ColVec:
        """a column (or a row range of it) of a Csc: [a:b] and toarray() (an n x 1 array) as scipy does"""

        def __init__(self, vals):
            self.vals = vals

        def __getitem__(self, s):
            return ColVec(self.vals[s.start:s.stop])

        def toarray(self):
            return np.array([[v] for v in self.vals])

    class Csc:
        """dense stand-in for a scipy.sparse.csc_matrix: [:, column], toarray(), eliminate_zeros()"""

        def __init__(self, rows):
            self.rows = rows

        def __getitem__(self, idx):
            return ColVec([r[idx[1]] for r in self.rows])

        def toarray(self):
            return np.array(self.rows)

        def eliminate_zeros(self):
            return None

    def CscStandIn(triple, shape=None):
        """csc_matrix((data, indices, indptr), shape): data[k] added at (row indices[k], column c) for
        indptr[c] <= k < indptr[c + 1]"""
        data, indices, indptr = triple
        if len(indptr) != shape[1] + 1:
            raise ValueError("index pointer size %d should be %d" % (len(indptr), shape[1] + 1))
        rows = [[0.0 for c in range(shape[1])] for r in range(shape[0])]
        for c in range(shape[1]):
            for k in range(int(indptr[c]), int(indptr[c + 1])):
                rows[int(indices[k])][c] = rows[int(indices[k])][c] + data[k]
        return Csc(rows)

    def csc(rows):
        return Csc(rows)


OVERRIDES = {"armi.nuclearDataIO.cccc.compxs:csc_matrix": "CscStandIn"}
TAGS = ["numComps", "numGroups", "fileWideChiFlag", "numFissComps", "maxUpScatterGroups", "maxDownScatterGroups", "numDelayedFam", "maxScatteringOrder",
        "reservedFlag1", "reservedFlag2"]
PRIMARY = ["absorption", "total", "removal", "transport", "n2n"]
DIFF = ["powerConvMult", "d1Multiplier", "d1Additive", "d2Additive", "d3Multiplier", "d3Additive", "d2Multiplier"]  # the last one got its own entry with fix F114


def bands(ng, full):
    """(NUP, NDN) per group: in-group scattering only (full = False / 0), every group of the (<= 2 group) structure
    (True / 1), down-scatter only (2: the usual fast-spectrum layout), up-scatter only (3)"""
    if ng == 1 or not full:
        return [0] * ng, [0] * ng
    if full == 2:
        return [0, 0], [0, 1]
    if full == 3:
        return [1, 0], [0, 0]
    return [1, 0], [0, 1]


def in_band(full, r, c):
    """is the transfer from group r into group c stored under this layout? (column = destination group)"""
    if full == 2:
        return r <= c
    if full == 3:
        return r >= c
    return bool(full) or r == c


def compxs_library(ncomp, ng, maxord, full, ispec, x, w):
    """a CompxsLibrary as the reader leaves it: ncomp compositions x ng groups; composition k has ispec[k] chi values per
    group (0 = not fissionable); scattering matrices of order 0..maxord with the band layout `full`; symbolic reals
    from x (file) and w (compositions)"""
    lib = CompxsLibrary()
    m = lib.compxsMetadata
    vals = {"numComps": ncomp, "numGroups": ng, "fileWideChiFlag": 0, "numFissComps": len([k for k in range(ncomp) if ispec[k] > 0]),
            "maxUpScatterGroups": max(bands(ng, full)[0]), "maxDownScatterGroups": max(bands(ng, full)[1]), "numDelayedFam": 0, "maxScatteringOrder": maxord,
            "reservedFlag1": 0, "reservedFlag2": 0}
    for key in vals:
        m[key] = vals[key]
    lib.neutronVelocity = np.array([x[0], x[1]][:ng])
    lib.neutronEnergyUpperBounds = np.array([x[2], x[3]][:ng])
    m["minimumNeutronEnergy"] = x[4]
    m["compFamiliesWithPrecursors"] = np.array([0] * ncomp)
    m["fissionWattSeconds"] = np.array([x[5], x[6]][:ncomp])
    m["captureWattSeconds"] = np.array([x[7], x[8]][:ncomp])
    nup, ndn = bands(ng, full)
    for k in range(ncomp):
        reg = CompxsRegion(lib, k)
        rm = reg.metadata
        rm["chiFlag"], rm["numUpScatterGroups"], rm["numDownScatterGroups"] = ispec[k], list(nup), list(ndn)
        for i in range(len(DIFF)):
            rm[DIFF[i]] = [(w[k][i] if i < 6 else w[k][1] + 0.5) + g for g in range(ng)]  # d2Multiplier: a value of its own
        for i in range(len(PRIMARY)):
            reg.macros[PRIMARY[i]] = np.array([w[k][6 + i] + g for g in range(ng)])
        if ispec[k] > 0:
            reg.macros.fission = np.array([w[k][11] + g for g in range(ng)])
            reg.macros.nuSigF = np.array([w[k][12] + g for g in range(ng)])
            reg.macros.chi = np.array([[w[k][13] + g + 10.0 * c for c in range(ispec[k])] for g in range(ng)])
        for order in range(maxord + 1):
            rows = [[(w[k][14] + r + 2.0 * c + 4.0 * order if in_band(full, r, c) else 0.0) for c in range(ng)] for r in range(ng)]
            if order == 0:
                reg.macros.totalScatter = csc(rows)
            else:
                reg.macros.higherOrderScatter[order] = csc(rows)
    return lib, vals


def compxs_io(mode, st, lib):
    if "r" in mode:
        get = lambda number: CompxsRegion(lib, number)
    else:
        get = lambda number: lib[number]
    return new(CompxsIO, _fileName="COMPXS", _fileMode=mode, _stream=st, _lib=lib, _metadata=lib.compxsMetadata, _getRegion=get,
               _isReading="r" in mode)


def record_sizes(ncomp, ng, maxord, full, ispec):
    """payload length of every record in file order (4-byte integers, 8-byte reals)"""
    nup, ndn = bands(ng, full)
    sizes = [4 * 10, 8 * (2 * ng + 1) + 4 * ncomp]
    for k in range(ncomp):
        sizes.append(4 * (1 + 2 * ng))
        for g in range(ng):
            band = nup[g] + 1 + ndn[g]
            sizes.append(8 * (4 + ((2 + ispec[k]) if ispec[k] > 0 else 0) + band + 7 + 1 + maxord * band))
    sizes.append(8 * 2 * ncomp)
    return sizes


def same_array(a, b):
    fa, fb = a.flatten(), b.flatten()
    return a.shape == b.shape and all([eq(fa[i], fb[i]) for i in range(a.size)])


G_CX = {"ncomp": (1, 2), "ng": (1, 2), "maxord": (0, 1), "full": [False, True], "s0": (0, 2), "s1": (0, 1)}
for _k in range(9):
    G_CX["x%d" % _k] = F64
for _k in range(15):
    G_CX["w%d" % _k] = F64


@lemma(gen=G_CX, overrides=OVERRIDES)
def compxs_library_round_trip(ncomp: int, ng: int, maxord: int, full: bool, s0: int, s1: int,
                              x0: float, x1: float, x2: float, x3: float, x4: float, x5: float, x6: float, x7: float, x8: float,
                              w0: float, w1: float, w2: float, w3: float, w4: float, w5: float, w6: float, w7: float, w8: float,
                              w9: float, w10: float, w11: float, w12: float, w13: float, w14: float):
    """a whole COMPXS library written by the real _CompxsIO.readWrite / _CompxsRegionIO and read back into an empty
    CompxsLibrary: the records on the stream are exactly those of the file structure (2 + compositions x (1 + groups) + 1),
    each with the specified length; the 10 specification integers, velocities, group bounds, power conversion factors and
    per composition the specifications (ISPEC, NUP, NDN per group), every principal cross section, fission / nu-fission /
    chi iff fissionable, power conversion and directional diffusion numbers, n2n and every scattering matrix (order
    0..MAXORD) are read back.  Enumerated: 1..2 compositions x 1..2 groups x MAXORD 0..1 x in-group / full scattering band x
    ISPEC 0..2 (first), 0..1 (second composition); no file-wide chi, no delayed families (see module docstring); reals
    symbolic (double precision on the file: exact)."""
    ncomp, ng, maxord = choose(ncomp, 1, 2), choose(ng, 1, 2), choose(maxord, 0, 1)
    s0, s1 = choose(s0, 0, 2), choose(s1, 0, 1)
    assume(implies(ncomp == 1, s1 == 0))
    x = [x0, x1, x2, x3, x4, x5, x6, x7, x8]
    w = [w0, w1, w2, w3, w4, w5, w6, w7, w8, w9, w10, w11, w12, w13, w14]
    ispec = [s0, s1]
    lib, vals = compxs_library(ncomp, ng, maxord, full, ispec, x, [w, [v + 0.5 for v in w]])
    st = memstream()
    compxs_io("wb", st, lib).readWrite()
    sizes = record_sizes(ncomp, ng, maxord, full, ispec)
    assert st.nwrites() == 3 * len(sizes), "exactly the records of the file structure"
    for r in range(len(sizes)):
        (count,) = struct.unpack("i", st.written(3 * r))
        assert count == sizes[r], "record length as the file structure prescribes"
    st.seek(0)
    back = CompxsLibrary()
    compxs_io("rb", st, back).readWrite()
    ref, vals = compxs_library(ncomp, ng, maxord, full, ispec, x, [w, [v + 0.5 for v in w]])
    bm, m = back.compxsMetadata, ref.compxsMetadata
    for key in TAGS:
        assert bm[key] == vals[key], "specification integer read back"
    assert same_array(back.neutronVelocity, ref.neutronVelocity) and same_array(back.neutronEnergyUpperBounds, ref.neutronEnergyUpperBounds)
    assert eq(bm["minimumNeutronEnergy"], x4)
    assert list(bm["compFamiliesWithPrecursors"]) == [0] * ncomp
    assert same_array(bm["fissionWattSeconds"], m["fissionWattSeconds"]) and same_array(bm["captureWattSeconds"], m["captureWattSeconds"])
    assert back.regionLabels == [k for k in range(ncomp)], "one region per composition, in file order"
    for k in range(ncomp):
        b, a = back[k], ref[k]
        assert b.metadata["chiFlag"] == ispec[k]
        assert list(b.metadata["numUpScatterGroups"]) == a.metadata["numUpScatterGroups"]
        assert list(b.metadata["numDownScatterGroups"]) == a.metadata["numDownScatterGroups"]
        for key in DIFF:
            assert len(b.metadata[key]) == ng and all([eq(b.metadata[key][g], a.metadata[key][g]) for g in range(ng)]), "per-group constant read back"
        for name in PRIMARY:
            assert same_array(b.macros[name], a.macros[name]), "principal cross section read back"
        if ispec[k] > 0:
            assert same_array(b.macros.fission, a.macros.fission) and same_array(b.macros.nuSigF, a.macros.nuSigF)
            assert same_array(b.macros.chi, a.macros.chi), "chi read back"
        else:
            assert b.macros.fission is None and b.macros.nuSigF is None and b.macros.chi is None
            assert not b.isFissile
        assert same_array(b.macros.totalScatter.toarray(), a.macros.totalScatter.toarray()), "scattering matrix read back"
        assert len(b.macros.higherOrderScatter) == maxord
        for order in range(1, maxord + 1):
            assert same_array(b.macros.higherOrderScatter[order].toarray(), a.macros.higherOrderScatter[order].toarray())


@lemma(gen=G_CX, overrides=OVERRIDES)
def compxs_rewrite_of_what_was_read_is_the_same_file(ncomp: int, ng: int, maxord: int, full: bool, s0: int, s1: int,
                                                     x0: float, x1: float, x2: float, x3: float, x4: float, x5: float, x6: float, x7: float, x8: float,
                                                     w0: float, w1: float, w2: float, w3: float, w4: float, w5: float, w6: float, w7: float, w8: float,
                                                     w9: float, w10: float, w11: float, w12: float, w13: float, w14: float):
    """write(read(file)) == file for COMPXS: the library read from a file armi wrote, written again by the real code,
    produces the same sequence of stream writes, field by field equal bytes.  Same enumeration as
    compxs_library_round_trip."""
    ncomp, ng, maxord = choose(ncomp, 1, 2), choose(ng, 1, 2), choose(maxord, 0, 1)
    s0, s1 = choose(s0, 0, 2), choose(s1, 0, 1)
    assume(implies(ncomp == 1, s1 == 0))
    x = [x0, x1, x2, x3, x4, x5, x6, x7, x8]
    w = [w0, w1, w2, w3, w4, w5, w6, w7, w8, w9, w10, w11, w12, w13, w14]
    lib, vals = compxs_library(ncomp, ng, maxord, full, [s0, s1], x, [w, [v + 0.5 for v in w]])
    st = memstream()
    compxs_io("wb", st, lib).readWrite()
    st.seek(0)
    back = CompxsLibrary()
    compxs_io("rb", st, back).readWrite()
    st2 = memstream()
    compxs_io("wb", st2, back).readWrite()
    assert st2.nwrites() == st.nwrites(), "same number of records"
    for k in range(st.nwrites()):
        assert st2.written(k) == st.written(k), "same bytes"


BinaryRecordReader = repo("armi.nuclearDataIO.cccc.cccc:BinaryRecordReader")
G_BAND = {}
for _k in range(9):
    G_BAND["x%d" % _k] = F64
for _k in range(15):
    G_BAND["w%d" % _k] = F64


@lemma(gen=G_BAND, overrides=OVERRIDES)
def compxs_group_record_layout(x0: float, x1: float, x2: float, x3: float, x4: float, x5: float, x6: float, x7: float, x8: float,
                               w0: float, w1: float, w2: float, w3: float, w4: float, w5: float, w6: float, w7: float, w8: float,
                               w9: float, w10: float, w11: float, w12: float, w13: float, w14: float):
    """layout of the group record on the file (not only that reader and writer agree), read back field by field from a
    file written by the real code (1 composition, 2 groups, full scattering band, not fissionable, P0 only): XA, XTOT,
    XREM, XTR, then the scattering INTO the group from group J + NUP down to J - NDN (up-scatter, in-group, down-scatter),
    then PC and the directional diffusion numbers, then XN2N."""
    x = [x0, x1, x2, x3, x4, x5, x6, x7, x8]
    w = [w0, w1, w2, w3, w4, w5, w6, w7, w8, w9, w10, w11, w12, w13, w14]
    lib, vals = compxs_library(1, 2, 0, True, [0, 0], x, [w, w])
    st = memstream()
    compxs_io("wb", st, lib).readWrite()
    st.seek(0)
    with BinaryRecordReader(st) as r:
        r.rwList(None, "int", 10)
    with BinaryRecordReader(st) as r:
        r.rwList(None, "double", 5)
        r.rwList(None, "int", 1)
    with BinaryRecordReader(st) as r:
        spec = r.rwList(None, "int", 5)
    assert list(spec) == [0, 1, 0, 0, 1], "ISPEC, NUP per group, NDN per group"
    s = [[w14, w14 + 2.0], [w14 + 1.0, w14 + 3.0]]  # s[from][into] as built by compxs_library (row = source, column = sink)
    for g in range(2):
        with BinaryRecordReader(st) as r:
            head = r.rwList(None, "double", 4)
            band = r.rwList(None, "double", 2)
            tail = r.rwList(None, "double", 8)
        for i in range(4):
            assert eq(head[i], w[6 + i] + g), "absorption, total, removal, transport"
        if g == 0:
            assert eq(band[0], s[1][0]) and eq(band[1], s[0][0]), "group 1: from group 2 (up-scatter), then in-group"
        else:
            assert eq(band[0], s[1][1]) and eq(band[1], s[0][1]), "group 2: in-group, then from group 1 (down-scatter)"
        assert eq(tail[0], w0 + g), "power conversion factor follows the scattering band"
        assert eq(tail[7], w10 + g), "n2n closes the record"


# ----------------------------------------------------------------------------- fields of a group record follow the composition's flags
CompxsRegionIO = repo("armi.nuclearDataIO.cccc.compxs:_CompxsRegionIO")
XSCollection = repo("armi.nuclearDataIO.xsCollections:XSCollection")
RegionXSMetadata = repo("armi.nuclearDataIO.nuclearFileMetadata:RegionXSMetadata")


class FieldProbe:
    """stand-in for a binary record in writing mode: notes kind (and item type, length) of every field, returns what it
    is given"""

    def __init__(self):
        self.trace = []

    def rwDouble(self, val):
        self.trace.append("double")
        return val

    def rwList(self, contents, containedType, length, strLength=0):
        self.trace.append((containedType, length))
        return contents


class Holder:
    """stand-in for the library (compxsMetadata) and the region (metadata, macros) of a _CompxsRegionIO"""


@lemma(gen={"group": (0, 1), "maxord": (0, 2), "full": [False, True], "ispec": (0, 3), "nfam": (0, 3)}, overrides=OVERRIDES)
def compxs_group_record_fields_follow_the_flags(group: int, maxord: int, full: bool, ispec: int, nfam: int, a: float):
    """fields of one COMPOSITION MACROSCOPIC GROUP CROSS SECTIONS record for EVERY ISPEC (chi vectors) and EVERY number of
    delayed families of the composition (symbolic), MAXORD 0..2, group 1..2 of 2, in-group / full band (enumerated):
    4 doubles; fission, nu-fission and ISPEC chi values iff ISPEC > 0; the P0 band (NUP + 1 + NDN doubles); 7 doubles
    (power conversion, directional diffusion); the precursor family numbers iff the composition has families; n2n; one
    band per higher order - in this order (real _rwGroup4DRecord, _rwPrimaryXS, _rwScatteringMatrix,
    _flattenScatteringVector; stand-ins: FieldProbe for the record, Holder; the matrices are CscStandIn)."""
    group, maxord = choose(group, 0, 1), choose(maxord, 0, 2)
    assume(ispec >= 0 and nfam >= 0)
    nup, ndn = bands(2, full)
    rm = RegionXSMetadata()
    rm["chiFlag"], rm["numUpScatterGroups"], rm["numDownScatterGroups"], rm["numPrecursorFamilies"] = ispec, nup, ndn, nfam
    for key in DIFF:
        rm[key] = [a, a]
    rm["numPrecursorsProduced", group] = "families"
    macros = XSCollection(parent=None)
    for name in PRIMARY + ["fission", "nuSigF"]:
        macros[name] = np.array([a, a])
    macros["chi"] = ["chi of group 1", "chi of group 2"]
    macros.totalScatter = csc([[a, a], [a, a]])
    for order in range(1, maxord + 1):
        macros.higherOrderScatter[order] = csc([[a, a], [a, a]])
    fm = RegionXSMetadata()
    fm["maxScatteringOrder"] = maxord
    rio = new(CompxsRegionIO, _lib=new(Holder, compxsMetadata=fm), _region=new(Holder, metadata=rm, macros=macros), _isReading=False, _numGroups=2)
    rec = FieldProbe()
    rio._rwGroup4DRecord(rec, group, macros)
    band = ("double", nup[group] + 1 + ndn[group])
    expected = ["double"] * 4
    if ispec > 0:
        expected = expected + ["double", "double", ("double", ispec)]
    expected = expected + [band] + ["double"] * 7
    if nfam > 0:
        expected = expected + [("int", nfam)]
    expected = expected + ["double"] + [band] * maxord
    assert rec.trace == expected, "fields exactly as the composition's flags announce, in file order"


# ----------------------------------------------------------------------------- widened shapes (assumption review)
@lemma(gen={"layout": (2, 3), "maxord": (0, 1), "s0": (0, 1), "w0": F64, "w1": F64, "x0": F64}, overrides=OVERRIDES)
def compxs_triangular_scatter_bands_round_trip(layout: int, maxord: int, s0: int, w0: float, w1: float, x0: float):
    """the two lemmas above enumerate the in-group and the full band only.  The layouts in between - DOWN-scatter only
    (NUP = 0 everywhere; the usual fast-spectrum file) and UP-scatter only - have bands of different width per group:
    2 groups, 1 composition, MAXORD 0..1, fissionable or not: record lengths as the structure prescribes, every
    scattering matrix read back, write(read(file)) == file"""
    layout, maxord, s0 = choose(layout, 2, 3), choose(maxord, 0, 1), choose(s0, 0, 1)
    x = [x0, x0 + 1.0, 3.0, 2.0, 1.0, 0.5, 0.25, 0.125, 4.0]
    w = [w0 + k for k in range(14)] + [w1]
    lib, vals = compxs_library(1, 2, maxord, layout, [s0, 0], x, [w, w])
    st = memstream()
    compxs_io("wb", st, lib).readWrite()
    sizes = record_sizes(1, 2, maxord, layout, [s0, 0])
    assert st.nwrites() == 3 * len(sizes), "exactly the records of the file structure"
    for r in range(len(sizes)):
        (count,) = struct.unpack("i", st.written(3 * r))
        assert count == sizes[r], "record length as the file structure prescribes"
    st.seek(0)
    back = CompxsLibrary()
    compxs_io("rb", st, back).readWrite()
    ref, vals = compxs_library(1, 2, maxord, layout, [s0, 0], x, [w, w])
    for key in TAGS:
        assert back.compxsMetadata[key] == vals[key], "specification integer read back"
    b, a = back[0], ref[0]
    assert list(b.metadata["numUpScatterGroups"]) == a.metadata["numUpScatterGroups"]
    assert list(b.metadata["numDownScatterGroups"]) == a.metadata["numDownScatterGroups"]
    for name in PRIMARY:
        assert same_array(b.macros[name], a.macros[name]), "principal cross section read back"
    assert same_array(b.macros.totalScatter.toarray(), a.macros.totalScatter.toarray()), "scattering matrix read back"
    assert len(b.macros.higherOrderScatter) == maxord
    for order in range(1, maxord + 1):
        assert same_array(b.macros.higherOrderScatter[order].toarray(), a.macros.higherOrderScatter[order].toarray())
    st2 = memstream()
    compxs_io("wb", st2, back).readWrite()
    assert st2.nwrites() == st.nwrites(), "same number of records"
    for k in range(st.nwrites()):
        assert st2.written(k) == st.written(k), "same bytes"
