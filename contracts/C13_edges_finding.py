"""C13 finding (refuted on the unchanged tree): on a third-core model that ALREADY carries an edge assembly, "add edge assemblies,
then remove them" is not the identity.

addEdgeAssemblies skips an image cell that is occupied (nothing is added there); removeEdgeAssemblies then removes EVERY
assembly on the 120-degree line - also the one that was part of the model before the add.  C13: "adding then removing edge
assemblies returns the core to its previous state: the same assemblies at the same places ..." over "all third-core hex
cores (... with and without edge assemblies ...)".

Not picked up by ./check (directory contracts/pending).  Run:
  python3-vt -m pyvc.run contracts/pending/C13_edges_finding.py
Native reproduction (PYTHONPATH=/repo /venv/bin/python):
  import armi; armi.configure(permissive=True)
  from armi.testing import loadTestReactor
  from armi.reactor.converters.geometryConverters import EdgeAssemblyChanger
  o, r = loadTestReactor(); core = r.core                      # third periodic, 73 assemblies
  EdgeAssemblyChanger().addEdgeAssemblies(core)                # the model now carries its 4 edge assemblies: 77
  before = sorted(a.getLocation() for a in core)
  ch = EdgeAssemblyChanger(); ch.addEdgeAssemblies(core); ch.removeEdgeAssemblies(core)
  after = sorted(a.getLocation() for a in core)
  print(len(before), len(after), after == before)             # observed: 77 73 False; expected: 77 77 True

World and helpers as in contracts/C13_edges.py (copied).
"""
import math

import numpy as np

from spec import *

Core = repo("armi.reactor.cores:Core")
Assembly = repo("armi.reactor.assemblies:Assembly")
Reactor = repo("armi.reactor.reactors:Reactor")
HexGrid = repo("armi.reactor.grids.hexagonal:HexGrid")
IndexLocation = repo("armi.reactor.grids.locations:IndexLocation")
CoordinateLocation = repo("armi.reactor.grids.locations:CoordinateLocation")
SpentFuelPool = repo("armi.reactor.spentFuelPool:SpentFuelPool")
EdgeAssemblyChanger = repo("armi.reactor.converters.geometryConverters:EdgeAssemblyChanger")
Parameter = repo("armi.reactor.parameters.parameterDefinitions:Parameter")
PDC = repo("armi.reactor.parameters.parameterDefinitions:ParameterDefinitionCollection")
NoDefault = repo("armi.reactor.parameters.parameterDefinitions:NoDefault")
NEVER = repo("armi.reactor.parameters.parameterDefinitions:NEVER")


# ----------------------------------------------------------------------------- stand-ins (collaborators)
class PMap:
    def __getitem__(self, k):
        return getattr(self, k)

    def __setitem__(self, k, v):
        setattr(self, k, v)

    def __contains__(self, k):
        return hasattr(self, k)


class ParametersStub:
    """armi.reactor.parameters as seen from cores.py: no definitions whose `assigned` flag would be reset"""

    ALL_DEFINITIONS = ()
    SINCE_ANYTHING = 0

    @staticmethod
    def forType(cls):
        return ()


class BlockStub:
    """a block as seen by the core bookkeeping: name, flags, symmetry factor, an existing pin grid"""

    def getName(self):
        return self.name

    def hasFlags(self, f, exact=False):
        return f is None or f in self.flags

    def getSymmetryFactor(self):
        return self.symmetryFactor

    def clearCache(self):
        return None

    def setName(self, name):
        self.name = name

    def makeName(self, assemNum, axialIndex):
        return "B{0:04d}-{1:03d}".format(assemNum, axialIndex)

    def rotate(self, rad):
        self.rotation = self.rotation + rad


class AxialStub:
    """the axial grid of an assembly: (0, 0, k) -> a locator of this grid"""

    def __getitem__(self, ijk):
        return IndexLocation(ijk[0], ijk[1], ijk[2], self)


class PoolStub(SpentFuelPool):
    """spent-fuel pool (a SpentFuelPool as far as isinstance goes; the three methods the code under contract calls are
    replaced): add(a) makes `a` a child of the pool, remove(a) takes it out, getChildren() lists the children"""

    def add(self, a):
        a.parent = self
        self.kids.append(a)

    def getChildren(self):
        return list(self.kids)

    def remove(self, a):
        self.kids.remove(a)
        a.parent = None


class ExcoreStub:
    def get(self, name, default=None):
        return self.items.get(name, default)

    def __getitem__(self, name):
        return self.items[name]

    def __getattr__(self, name):
        if name.startswith("__") or name == "items":
            raise AttributeError(name)
        return self.items[name]


class PDef:
    pass


class PDefs:
    """parameter definitions of the block type: atLocation / since filter on the records, .names lists the names"""

    def atLocation(self, loc):
        return new(PDefs, defs=[d for d in self.defs if d.volumeIntegrated])

    def inCategory(self, cat):
        return new(PDefs, defs=[d for d in self.defs if cat in d.categories])

    def since(self, mask):
        return new(PDefs, defs=[d for d in self.defs if d.assignedSinceTransformation])

    @property
    def names(self):
        return [d.name for d in self.defs]


def pdef(name, volInt, cats):
    return new(PDef, name=name, volumeIntegrated=volInt, categories=cats, assignedSinceTransformation=True)


class GCParameters:
    """armi.reactor.parameters as seen from geometryConverters.py: ALL_DEFINITIONS is set by mk_defs to a REAL
    ParameterDefinitionCollection (its resetAssignmentFlag / unchanged_since / setAssignmentFlag are executed)"""

    ALL_DEFINITIONS = None


def mk_defs(f0, f1):
    """two real parameter definitions with arbitrary `assigned` flags in the collection of all definitions"""
    pdc = PDC()
    defs = []
    for nm, fl in (("power", f0), ("mgFlux", f1)):
        pd = Parameter(nm, "", "a block parameter", None, True, NoDefault, NoDefault, set())
        pd.assigned = fl
        pdc.add(pd)
        defs.append(pd)
    GCParameters.ALL_DEFINITIONS = pdc
    return defs


class Marker:
    """an opaque object of which only the identity matters (a pin grid, a foreign grid)"""


def fissile_contract(self):
    return 1000.0


def maxparam_contract(self, name):
    return 0.5


STUBS = {"armi.reactor.composites:ArmiObject.getFissileMass": "fissile_contract",
         "armi.reactor.composites:ArmiObject.getMaxParam": "maxparam_contract"}
OVERRIDES = {"armi.reactor.cores:parameters": "ParametersStub", "armi.reactor.converters.geometryConverters:parameters": "GCParameters"}


# ----------------------------------------------------------------------------- the world
def hexgrid(symmetry):
    us = HexGrid._getRawUnitSteps(1.0, False)
    return new(HexGrid, _unitSteps=np.array(us), _bounds=(None, None, None), _stepDims=((0, 1, 2),), _boundDims=((),),
               _offset=np.zeros(3), _unitStepLimits=((-3, 3), (-3, 3), (0, 1)), _symmetry=symmetry, _isAxialOnly=False,
               armiObject=None, _locations={}, _geomType="hex", _backup=None)


def block(name, k, grid, stationary):
    return new(BlockStub, name=name, flags=(["GRID_PLATE"] if stationary else ["FUEL"]), symmetryFactor=1.0, rotation=0.0,
               spatialGrid=new(Marker), spatialLocator=IndexLocation(0, 0, k, grid), parent=None,
               p=new(PMap, ztop=10.0 * (k + 1), power=0.0, mgFlux=[0.0, 0.0], temperature=600.0, paramDefs=BLOCKDEFS))


BLOCKDEFS = new(PDefs, defs=[pdef("power", True, ()), pdef("mgFlux", True, ("flux", "multigroup")), pdef("temperature", False, ())])


def assembly(num, nBlocks, label, stationary=()):
    """Assembly number `num` with nBlocks blocks B<num>-00k; the blocks whose index is in `stationary` are grid plates"""
    ax = new(AxialStub)
    a = new(Assembly, name="A%04d" % num, _children=[], parent=None, spatialLocator=CoordinateLocation(0.0, 0.0, 0.0, None),
            spatialGrid=ax, lastLocationLabel=label, cached={},
            p=new(PMap, type="fuel", assemNum=num, numMoves=0, daysSinceLastMove=7.0, multiplicity=1.0, dischargeTime=0.0, chargeTime=0.0,
                  chargeCycle=0, chargeFis=0.0, chargeBu=0.0))
    for k in range(nBlocks):
        b = block("B%04d-%03d" % (num, k), k, ax, k in stationary)
        b.parent = a
        a._children.append(b)
    return a


def world(track, withPool, numRings, maxAssemNum):
    """an empty core in a reactor (with or without a pool); returns (core, reactor, pool)"""
    g = hexgrid("third periodic")
    pool = new(PoolStub, kids=[], parent=None)
    r = new(Reactor, name="r", p=new(PMap, time=12.5, cycle=3, maxAssemNum=maxAssemNum), excore=new(ExcoreStub, items=({"sfp": pool} if withPool else {})),
            parent=None, _children=[])
    core = new(Core, name="core", _children=[], childrenByLocator={}, assembliesByName={}, blocksByName={}, spatialGrid=g, parent=r,
               spatialLocator=CoordinateLocation(0.0, 0.0, 0.0, None), numRings=numRings, _trackAssems=track, cached={},
               stationaryBlockFlagsList=["GRID_PLATE"], zones=[], p=new(PMap, maxAssemNum=maxAssemNum, numMoves=0))
    g.armiObject = core
    r.core = core
    pool.parent = r
    return core, r, pool


def place(core, a, i, j):
    """put `a` into the core's tables at cell (i, j) - the state Inv describes, built directly"""
    loc = core.spatialGrid[i, j, 0]
    a.parent = core
    a.spatialLocator = loc
    core._children.append(a)
    core.childrenByLocator[loc] = a
    core.assembliesByName[a.name] = a
    for b in a._children:
        core.blocksByName[b.name] = b


def register_pooled(core, pool, a):
    """`a` sits in the pool and is tracked by name"""
    a.parent = pool
    pool.kids.append(a)
    core.assembliesByName[a.name] = a
    for b in a._children:
        core.blocksByName[b.name] = b


def inv(core, pool):
    """the class invariant Inv(core) (see module docstring)"""
    g = core.spatialGrid
    kids = list(core._children)
    ok = len(core.childrenByLocator) == len(kids)
    nBlocks = 0
    for c in kids:
        ok = ok and c.parent is core and c.spatialLocator.grid is g
        ok = ok and core.childrenByLocator.get(c.spatialLocator) is c
    for c in kids + list(pool.kids):
        ok = ok and core.assembliesByName.get(c.name) is c
        for b in c._children:
            nBlocks += 1
            ok = ok and b.parent is c and core.blocksByName.get(b.name) is b
    ok = ok and len(core.assembliesByName) == len(kids) + len(pool.kids)
    ok = ok and len(core.blocksByName) == nBlocks
    return ok


def at(core, i, j):
    """the assembly the core's location lookup returns for cell (i, j), by an independent key (the index tuple)"""
    return core.childrenByLocator.get((i, j, 0))


def hexring(i, j):
    return max(abs(i), abs(j), abs(i + j)) + 1


# ----------------------------------------------------------------------------- the lemmas
INTERIOR = [(1, 0), (1, 1)]
LOWER = [(2, -1), (4, -2)]  # cells on the 0-degree symmetry line (rings 3 and 5)
GEN = {"centre": (0, 1), "inner": (0, 2), "low1": (0, 1), "low2": (0, 1), "up1": (0, 1), "nb": (1, 2), "f0": (0, 63), "f1": (0, 63), "maxNum": (10, 50),
       "p0": (0.0, 1e6), "p1": (0.0, 1e6), "p2": (0.0, 1e6), "fl": (0.0, 1e14)}


GEN_UP2 = {"centre": (0, 1), "inner": (0, 2), "low1": (0, 1), "low2": (0, 1), "up1": (0, 2), "nb": (1, 2), "f0": (0, 63), "f1": (0, 63), "maxNum": (10, 50),
           "p0": (0.0, 1e6), "p1": (0.0, 1e6), "p2": (0.0, 1e6), "fl": (0.0, 1e14)}


def rot120(c):
    """the 120-degree image of a hex cell (proved to be what getSymmetricEquivalents returns: contracts/C08_symmetry.py)"""
    return (-c[0] - c[1], c[0])


def build(symmetry, centre, inner, low1, low2, up1, nb, maxNum, p0, p1, p2, fl):
    """the enumerated core (see module docstring); returns core, reactor, pool, all assemblies, those on the lower line, the one on the upper line"""
    core, r, pool = world(True, True, 5, maxNum)  # discharged assemblies are tracked: one sent to the pool would stay in the name table
    core.spatialGrid._symmetry = symmetry
    allA, lower, upper = [], [], None
    num = 0
    if centre == 1:
        a = assembly(num, nb, "001-001")
        place(core, a, 0, 0)
        a._children[0].p.power = p0
        allA.append(a)
        num += 1
    if inner > 0:
        a = assembly(num, nb, "002-001")
        place(core, a, INTERIOR[inner - 1][0], INTERIOR[inner - 1][1])
        a._children[0].p.power = p0 + 1.0
        allA.append(a)
        num += 1
    for k, present in enumerate([low1, low2]):
        if present == 1:
            a = assembly(num, nb, "003-012")
            place(core, a, LOWER[k][0], LOWER[k][1])
            a._children[0].p.power = [p1, p2][k]
            a._children[0].p.mgFlux = [fl, 2 * fl]
            a._children[nb - 1].p.temperature = 700.0 + k
            allA.append(a)
            lower.append(a)
            num += 1
    if up1 >= 1:
        upper = assembly(num, nb, "003-002")
        place(core, upper, -1, 2)
        upper._children[0].p.power = p2 + 2.0
        allA.append(upper)
        num += 1
    if up1 == 2:
        a = assembly(num, nb, "005-003")
        place(core, a, -2, 4)
        allA.append(a)
        num += 1
    assume(maxNum >= num)
    return core, r, pool, allA, lower, upper


def snapshot_of(core, allA):
    """what the property compares: the assemblies, in order, with their cells, names, block names and parameter values"""
    return [(a, a.spatialLocator.i, a.spatialLocator.j, a.name, [b.name for b in a._children], [b.p.power for b in a._children],
             [b.p.mgFlux[0] for b in a._children], [b.p.mgFlux[1] for b in a._children], [b.p.temperature for b in a._children], a.p.assemNum)
            for a in allA]


def unchanged_prefix(core, pool, snap):
    """the assemblies of the snapshot are the first children of the core, unchanged (others may follow)"""
    ok = len(core._children) >= len(snap)
    for k in range(len(snap)):
        a, i, j, name, bnames, pw, f0, f1, T, num = snap[k]
        ok = ok and core._children[k] is a and a.parent is core and a.spatialLocator.i == i and a.spatialLocator.j == j and a.spatialLocator.grid is core.spatialGrid
        ok = ok and a.name == name and a.p.assemNum == num and at(core, i, j) is a and core.assembliesByName.get(name) is a
        for q in range(len(bnames)):
            b = a._children[q]
            ok = ok and b.name == bnames[q] and core.blocksByName.get(bnames[q]) is b and b.parent is a
            ok = ok and eq(b.p.power, pw[q]) and eq(b.p.mgFlux[0], f0[q]) and eq(b.p.mgFlux[1], f1[q]) and eq(b.p.temperature, T[q])
    return ok


def unchanged(core, pool, snap):
    """the core holds exactly the assemblies of the snapshot, in order, at the same cells, with the same names and
    parameter values, and the location / name lookups resolve to them"""
    ok = len(core._children) == len(snap)
    for k in range(len(snap)):
        a, i, j, name, bnames, pw, f0, f1, T, num = snap[k]
        ok = ok and core._children[k] is a and a.parent is core and a.spatialLocator.i == i and a.spatialLocator.j == j and a.spatialLocator.grid is core.spatialGrid
        ok = ok and a.name == name and a.p.assemNum == num and at(core, i, j) is a and core.assembliesByName.get(name) is a
        ok = ok and len(a._children) == len(bnames)
        for q in range(len(bnames)):
            b = a._children[q]
            ok = ok and b.name == bnames[q] and core.blocksByName.get(bnames[q]) is b and b.parent is a
            ok = ok and eq(b.p.power, pw[q]) and eq(b.p.mgFlux[0], f0[q]) and eq(b.p.mgFlux[1], f1[q]) and eq(b.p.temperature, T[q])
    return ok




@lemma(gen=GEN, stubs=STUBS, overrides=OVERRIDES, timeout=200)
def add_then_remove_is_the_identity_on_a_model_that_already_has_an_edge_assembly(centre: int, low2: int, nb: int, f0: int, f1: int, maxNum: int, p0: float, p1: float, p2: float, fl: float):
    """third core with an assembly at (2, -1), its edge partner at (-1, 2) already in the model, optionally a second
    lower-line assembly at (4, -2) without partner"""
    centre = choose(centre, 0, 1)
    low2 = choose(low2, 0, 1)
    nb = choose(nb, 1, 2)
    mk_defs(f0, f1)
    core, r, pool, allA, lower, upper = build("third periodic", centre, 0, 1, low2, 1, nb, maxNum, p0, p1, p2, fl)
    assert inv(core, pool)
    snap = snapshot_of(core, allA)
    ch = EdgeAssemblyChanger()
    ch.addEdgeAssemblies(core)
    assert len(core._children) == len(allA) + low2, "only the free image cell gets a copy"
    ch.removeEdgeAssemblies(core)
    assert inv(core, pool)
    assert unchanged(core, pool, snap), "the same assemblies at the same places with the same names and parameters as before the add"


