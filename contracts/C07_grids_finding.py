"""C07 - FINDING (refuted on the unchanged tree; found by widening `cart_change_pitch_rescales_only`, whose grids have a
zero axial offset; not picked up by ./check).

CartesianGrid.changePitch rebuilds the offset as (x * xw / xwOld, y * yw / ywOld, 0.0): the axial component of the
offset is replaced by zero, so the z coordinate of every cell of a Cartesian grid placed at a height oz != 0 jumps from
oz to 0 when the pitch is changed ('changing the pitch rescales coordinates and nothing else').
Native: CartesianGrid(unitSteps=((2,0,0),(0,3,0),(0,0,0)), offset=(1, 1.5, 7)).getCoordinates((1,1,0)) == [3, 4.5, 7];
after changePitch(4, 6): [6, 9, 0].
"""
import numpy as np

from spec import *

CartesianGrid = repo("armi.reactor.grids.cartesian:CartesianGrid")


def cartgrid_at(w, h, ox, oy, oz):
    return new(
        CartesianGrid,
        _unitSteps=np.array(((w, 0.0, 0.0), (0.0, h, 0.0), (0, 0, 0))),
        _bounds=(None, None, None),
        _stepDims=((0, 1, 2),),
        _boundDims=((),),
        _offset=np.array((ox, oy, oz)),
        _unitStepLimits=((-3, 3), (-3, 3), (0, 1)),
    )


@lemma(gen={"w": (0.05, 30.0), "h": (0.05, 30.0), "w2": (0.05, 30.0), "h2": (0.05, 30.0), "i": (-40, 40), "j": (-40, 40), "oz": (0.5, 9.0)})
def cart_change_pitch_keeps_the_axial_offset(i: int, j: int, w: float, h: float, w2: float, h2: float, ox: float, oy: float, oz: float):
    assume(w > 0 and h > 0 and w2 > 0 and h2 > 0)
    g = cartgrid_at(w, h, ox, oy, oz)
    c1 = g.getCoordinates((i, j, 0))
    g.changePitch(w2, h2)
    c2 = g.getCoordinates((i, j, 0))
    assert eq(c2[0] * w, c1[0] * w2)
    assert eq(c2[1] * h, c1[1] * h2)
    assert eq(c2[2], c1[2]), "the pitch is a planar quantity: the height of the cells does not change"
    assert eq(g._offset[2], oz)
