"""C17 - nested cross-section settings: lemmas that assert the property text and are REFUTED on the unchanged tree.

1. none_is_read_back_as_none: an option field explicitly set to None is omitted when written ("unset fields are
   omitted and come back None") - but the five fields whose constructor default is not None (averageByComponent,
   minDriverDensity, ductHeterogeneous, traceIsotopeThreshold, xsTempIsotope) come back as that default.
2. a_non_integral_number_for_an_integer_option_is_refused_or_kept: Coerce(int) truncates 2.5 to 2 silently - the value
   is neither rejected nor read back equal.
Stand-in: `Vol` for voluptuous, as in C17_xs_settings.py (same contract).
"""
from spec import *

xs = repo("armi.physics.neutronics.crossSectionSettings")
XSModelingOptions = repo("armi.physics.neutronics.crossSectionSettings:XSModelingOptions")

if NATIVE:
    import voluptuous

    Invalid = voluptuous.Invalid
else:

    class Invalid(Exception):
        pass


class VolError:
    Invalid = Invalid


class Optional:
    def __init__(self, schema):
        self.schema = schema


def _validate(schema, v):
    """voluptuous' compilation of a schema VALUE: dict -> mapping, list -> sequence of alternatives, type -> isinstance,
    callable -> call"""
    if isinstance(schema, dict):
        return _validate_mapping(schema, v)
    if isinstance(schema, list):
        if not isinstance(v, list):
            raise Invalid("expected a list")
        out = []
        for x in v:
            done = False
            for alt in schema:
                if not done:
                    try:
                        y = _validate(alt, x)
                        done = True
                    except Invalid:
                        pass
            if not done:
                raise Invalid("invalid list value")
            out.append(y)
        return out
    if schema is str or schema is bool or schema is int or schema is float:
        if not isinstance(v, schema):
            raise Invalid("expected " + schema.__name__)
        return v
    return schema(v)


def _validate_mapping(schema, data):
    if not isinstance(data, dict):
        raise Invalid("expected a dictionary")
    out = {}
    for key, value in data.items():
        matched = False
        # literal (marker) keys first, then validator keys - as voluptuous orders its candidates
        for skey, svalue in schema.items():
            if not matched and isinstance(skey, Optional) and skey.schema == key:
                matched = True
                out[key] = _validate(svalue, value)
        for skey, svalue in schema.items():
            if not matched and not isinstance(skey, Optional):
                try:
                    newKey = _validate(skey, key)
                    ok = True
                except Invalid:
                    ok = False
                if ok:
                    matched = True
                    out[newKey] = _validate(svalue, value)
        if not matched:
            raise Invalid("extra keys not allowed")
    return out


class Schema:
    def __init__(self, schema):
        self.schema = schema

    def __call__(self, v):
        return _validate(self.schema, v)


class All:
    def __init__(self, *validators):
        self.validators = validators

    def __call__(self, v):
        for s in self.validators:
            v = _validate(s, v)
        return v


class In:
    def __init__(self, container):
        self.container = container

    def __call__(self, v):
        if v not in self.container:
            raise Invalid("value is not allowed")
        return v


class Length:
    def __init__(self, min=None, max=None):
        self.min = min
        self.max = max

    def __call__(self, v):
        if self.min is not None and len(v) < self.min:
            raise Invalid("too short")
        if self.max is not None and len(v) > self.max:
            raise Invalid("too long")
        return v


class Coerce:
    def __init__(self, type):
        self.type = type

    def __call__(self, v):
        try:
            return self.type(v)
        except (ValueError, TypeError):
            raise Invalid("expected " + self.type.__name__)


class Vol:
    """stand-in for the voluptuous package as used by crossSectionSettings"""

    error = VolError
    Invalid = Invalid
    Schema = Schema
    Optional = Optional
    All = All
    In = In
    Length = Length
    Coerce = Coerce


OV = {"armi.physics.neutronics.crossSectionSettings:vol": "Vol"}
OV2 = {"armi.physics.neutronics.crossSectionSettings:vol": "Vol", "armi.settings.setting:vol": "Vol"}

# every attribute of XSModelingOptions except xsID
FIELDS = (
    "geometry", "xsFileLocation", "fluxFileLocation", "validBlockTypes", "blockRepresentation", "driverID",
    "criticalBuckling", "nuclideReactionDriver", "externalDriver", "useHomogenizedBlockComposition", "numInternalRings",
    "numExternalRings", "mergeIntoClad", "mergeIntoFuel", "meshSubdivisionsPerCm", "xsExecuteExclusive", "xsPriority",
    "xsMaxAtomNumber", "averageByComponent", "minDriverDensity", "ductHeterogeneous", "traceIsotopeThreshold",
    "xsTempIsotope",
)
# the constructor gives these five a value that is not None: "unset" means left at that default
CTOR_DEFAULTS = {"averageByComponent": False, "minDriverDensity": 0.0, "ductHeterogeneous": False,
                 "traceIsotopeThreshold": 0.0, "xsTempIsotope": "U238"}


def same_value(x, y):
    """equality of two option values: None only equals None; text / lists of text / truth values exactly; numbers by eq"""
    if x is None or y is None:
        return x is None and y is None
    if isinstance(x, (str, list, bool)):
        return x == y
    return eq(x, y)


def bit(mask, k):
    return (mask // 2 ** k) % 2 == 1


def round_trip(o):
    """options -> plain dict (as written to a settings file) -> options (as read back)"""
    container = xs.XSSettings()
    container[o.xsID] = o
    plain = xs.serializeXSSettings(container)
    return plain, xs.xsSettingsValidator(plain)




@lemma(overrides=OV, gen={"k": (0, 4)})
def none_is_read_back_as_none(k: int):
    k = choose(k, 0, 4)
    name = ("averageByComponent", "minDriverDensity", "ductHeterogeneous", "traceIsotopeThreshold", "xsTempIsotope")[k]
    kw = {"geometry": "0D"}
    kw[name] = None
    o = XSModelingOptions("AA", **kw)
    plain, back = round_trip(o)
    assert name not in plain["AA"], "an unset (None) field is omitted"
    assert getattr(back["AA"], name) is None, "and comes back None"


@lemma(overrides=OV, gen={"x": (-3.0, 9.0), "k": (0, 2)})
def a_non_integral_number_for_an_integer_option_is_refused_or_kept(x: float, k: int):
    k = choose(k, 0, 2)
    name = ("numInternalRings", "numExternalRings", "xsMaxAtomNumber")[k]
    kw = {"geometry": "1D cylinder"}
    kw[name] = x
    o = XSModelingOptions("AA", **kw)
    try:
        plain, back = round_trip(o)
        accepted = True
    except Invalid:
        accepted = False
    if accepted:
        assert eq(getattr(back["AA"], name), x), "a value that is accepted reads back equal"
