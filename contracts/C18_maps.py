"""C18 - lattice-map text slots <-> (i, j) indices: no two text slots share an index (every map class), for ALL
columns, lines and map sizes (integer arithmetic with // and %)."""
from spec import *

maps = repo("armi.utils.asciimaps")


def same_slot_or_different_index(m, c1, l1, c2, l2):
    a = m._getIJFromColRow(c1, l1)
    b = m._getIJFromColRow(c2, l2)
    return implies(a == b, c1 == c2 and l1 == l2)


G = {"c1": (0, 12), "l1": (0, 20), "c2": (0, 12), "l2": (0, 20), "m": (0, 8), "oc": (0, 4)}


@lemma(gen=G)
def cartesian_slots_injective(c1: int, l1: int, c2: int, l2: int):
    m = new(maps.AsciiMapCartesian)
    assert same_slot_or_different_index(m, c1, l1, c2, l2)
    assert m._getIJFromColRow(c1, l1) == (c1, l1), "column = i, line from the bottom = j"


@lemma(gen=G)
def hex_third_slots_injective(c1: int, l1: int, c2: int, l2: int):
    assume(c1 >= 0 and l1 >= 0 and c2 >= 0 and l2 >= 0)
    m = new(maps.AsciiMapHexThirdFlatsUp)
    assert same_slot_or_different_index(m, c1, l1, c2, l2)
    i, j = m._getIJFromColRow(c1, l1)
    assert i + 2 * j == l1, "a text line is a line of constant i + 2j (its height in the flats-up lattice)"
    assert m._getIJFromColRow(0, 0) == (0, 0), "bottom-left slot is the centre of the third core"
    i2, j2 = m._getIJFromColRow(c1 + 1, l1)
    assert (i2, j2) == (i + 2, j - 1), "the right-hand neighbour on a line"


@lemma(gen=G)
def hex_full_flats_slots_injective(c1: int, l1: int, c2: int, l2: int, m: int, oc: int):
    assume(c1 >= 0 and l1 >= 0 and c2 >= 0 and l2 >= 0 and m >= 0 and oc >= 0)
    mp = new(maps.AsciiMapHexFullFlatsUp, _ijMax=m, _asciiLinesOffCorner=oc)
    assert same_slot_or_different_index(mp, c1, l1, c2, l2)
    i, j = mp._getIJFromColRow(c1, l1)
    assert i + 2 * j == l1 + oc - 2 * m, "a text line is a line of constant i + 2j"
    i2, j2 = mp._getIJFromColRow(c1 + 1, l1)
    assert (i2, j2) == (i + 2, j - 1)


@lemma(gen=G)
def hex_full_tips_slots_injective(c1: int, l1: int, c2: int, l2: int, m: int):
    assume(m >= 0)
    mp = new(maps.AsciiMapHexFullTipsUp, _ijMax=m)
    assert same_slot_or_different_index(mp, c1, l1, c2, l2)
    i, j = mp._getIJFromColRow(c1, l1)
    assert (i, j) == (c1 - m, 2 * m - l1 - c1)
    assert mp._getIJFromColRow(m, m) == (0, 0), "the centre slot is the centre cell"
    # the top text line is the row j = m ... read left to right it moves along +i, -j
    i2, j2 = mp._getIJFromColRow(c1 + 1, l1)
    assert (i2, j2) == (i + 1, j - 1)
