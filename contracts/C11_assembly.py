"""C11 - the axial bookkeeping of an Assembly: z-coordinates from block heights, total height, elevation boundaries,
and "the blocks reported between two elevations partition the interval".

The assembly is a real HexAssembly and the blocks are real HexBlock objects (allocated with new(): no __init__), the
parameter collections are viewed as name->value maps (class PMap, the trusted view of ParameterCollection used in
C03/C12). The NUMBER of blocks n = 1..4 is enumerated completely with choose(); heights and elevations are symbolic.
"""
import numpy as np

from spec import *

HexAssembly = repo("armi.reactor.assemblies:HexAssembly")
HexBlock = repo("armi.reactor.blocks:HexBlock")
AxialGrid = repo("armi.reactor.grids.axial:AxialGrid")


class PMap:
    def __getitem__(self, k):
        return getattr(self, k)

    def __setitem__(self, k, v):
        setattr(self, k, v)

    def get(self, k, d=None):
        return getattr(self, k, d)


def blk(h, zb, zt, z):
    # type / xsType / envGroup are only read by Block.__repr__ inside the error message of the code under contract
    return new(HexBlock, p=new(PMap, height=h, zbottom=zb, ztop=zt, z=z, flags=None, type="b", xsType="A", envGroup="A"), _children=[], name="b", parent=None, spatialLocator=None)


def stacked(n, hs):
    """an assembly of n blocks whose p.zbottom / p.ztop are contiguous from 0 (the state calculateZCoords leaves)"""
    blocks = []
    z = 0.0
    for k in range(n):
        blocks.append(blk(hs[k], z, z + hs[k], z + hs[k] / 2.0))
        z = z + hs[k]
    a = new(HexAssembly, _children=blocks, p=new(PMap, assemNum=1), name="A", parent=None, spatialGrid=None, spatialLocator=None)
    return a, blocks, z


HGEN = {"n": (1, 4), "h0": (0.5, 80.0), "h1": (0.5, 80.0), "h2": (0.5, 80.0), "h3": (0.5, 80.0)}


def check_partition(blocks, hs, n, res, zl, zu, H):
    """res = [(block, height), ...] against the naive overlap of every block with [zl, zu]"""
    total = 0.0
    missed = 0.0
    j = 0
    for k in range(n):
        b = blocks[k]
        ov = min(b.p.ztop, zu) - max(b.p.zbottom, zl)  # naive overlap of block k with the interval (may be <= 0)
        if j < len(res) and same(res[j][0], b):
            assert res[j][1] > 0, "overlap heights are positive"
            assert eq(res[j][1], ov), "the reported height is the overlap of the block with the interval"
            total = total + res[j][1]
            j = j + 1
        else:
            assert ov <= 1e-10 * hs[k], "a block that is not reported overlaps the interval by no more than the sliver tolerance"
            if ov > 0:
                missed = missed + ov
    assert j == len(res), "reported in assembly order, each block at most once, nothing else reported"
    length = min(zu, H) - max(zl, 0.0)
    assert eq(total + missed, length), "reported heights + dropped slivers = length of the interval (inside the assembly)"
    assert (total <= length or (NATIVE and eq(total, length))) and length - total <= 1e-10 * H, "heights sum to the interval length (up to the sliver tolerance)"


@lemma(gen=dict(HGEN, zl=(0.0, 60.0), zu=(0.0, 90.0)))
def blocks_between_elevations_partition_the_interval(n: int, h0: float, h1: float, h2: float, h3: float, zl: float, zu: float):
    """n = 1..4 blocks (enumerated), any positive heights, any 0 <= zLower < zUpper <= H.

    Every reported height is positive and is exactly the overlap of that block with [zLower, zUpper]; the blocks come in
    assembly order without repetition; a block that overlaps the interval and is NOT reported overlaps it by at most
    1e-10 of its own height (the sliver filter of the code), so the reported heights sum to zUpper - zLower up to
    1e-10 x total height.  The call is refused (ValueError) only for an assembly taller than 1e5 cm.
    (The exact statements - no sliver tolerance, never refused - are in contracts/pending/C11_assembly_finding.py.)
    """
    n = choose(n, 1, 4)
    hs = [h0, h1, h2, h3]
    assume(h0 > 0 and h1 > 0 and h2 > 0 and h3 > 0)
    a, blocks, H = stacked(n, hs)
    assume(0 <= zl and zl < zu and zu <= H)
    try:
        res = a.getBlocksBetweenElevations(zl, zu)
    except ValueError:
        assert H > 1e5, "an interval inside the assembly is refused only when a dropped sliver exceeds 1e-5 cm (height > 1e5 cm)"
        return
    cover("returned")
    assert len(res) >= 1 or zu - zl <= 1e-10 * H
    check_partition(blocks, hs, n, res, zl, zu, H)


@lemma(gen=dict(HGEN, zl=(-30.0, 120.0), zu=(-20.0, 150.0)))
def interval_reaching_outside_is_refused_or_clipped(n: int, h0: float, h1: float, h2: float, h3: float, zl: float, zu: float):
    """zLower < zUpper NOT inside [0, H] (n = 1..3 enumerated): the call either fails loudly (ValueError; IndexError when
    no block touches the interval) or what it reports partitions the part of the interval inside the assembly."""
    n = choose(n, 1, 3)
    hs = [h0, h1, h2, h3]
    assume(h0 > 0 and h1 > 0 and h2 > 0 and h3 > 0)
    a, blocks, H = stacked(n, hs)
    assume(zl < zu and (zl < 0 or zu > H))
    try:
        res = a.getBlocksBetweenElevations(zl, zu)
    except (ValueError, IndexError):
        cover("refused")
        return
    cover("returned")
    assert zl <= H and zu >= 0, "something is reported only when the interval touches the assembly"
    check_partition(blocks, hs, n, res, zl, zu, H)
