"""C11 - the axial bookkeeping of an Assembly: z-coordinates from block heights, total height, elevation boundaries,
and "the blocks reported between two elevations partition the interval".

The assembly is a real HexAssembly and the blocks are real HexBlock objects (allocated with new(): no __init__), the
parameter collections are viewed as name->value maps (class PMap, the trusted view of ParameterCollection used in
C03/C12). The NUMBER of blocks n = 1..4 is enumerated completely with choose(); heights and elevations are symbolic.
"""
import numpy as np

from spec import *

HexAssembly = repo("armi.reactor.assemblies:HexAssembly")
HexBlock = repo("armi.reactor.blocks:HexBlock")
AxialGrid = repo("armi.reactor.grids.axial:AxialGrid")


class PMap:
    def __getitem__(self, k):
        return getattr(self, k)

    def __setitem__(self, k, v):
        setattr(self, k, v)

    def get(self, k, d=None):
        return getattr(self, k, d)


def blk(h, zb, zt, z):
    # type / xsType / envGroup are only read by Block.__repr__ inside the error message of the code under contract
    return new(HexBlock, p=new(PMap, height=h, zbottom=zb, ztop=zt, z=z, flags=None, type="b", xsType="A", envGroup="A"), _children=[], name="b", parent=None, spatialLocator=None)


def stacked(n, hs):
    """an assembly of n blocks whose p.zbottom / p.ztop are contiguous from 0 (the state calculateZCoords leaves)"""
    blocks = []
    z = 0.0
    for k in range(n):
        blocks.append(blk(hs[k], z, z + hs[k], z + hs[k] / 2.0))
        z = z + hs[k]
    a = new(HexAssembly, _children=blocks, p=new(PMap, assemNum=1), name="A", parent=None, spatialGrid=None, spatialLocator=None)
    return a, blocks, z


HGEN = {"n": (1, 4), "h0": (0.5, 80.0), "h1": (0.5, 80.0), "h2": (0.5, 80.0), "h3": (0.5, 80.0)}


def check_partition(blocks, hs, n, res, zl, zu, H):
    """res = [(block, height), ...] against the naive overlap of every block with [zl, zu]"""
    total = 0.0
    missed = 0.0
    j = 0
    for k in range(n):
        b = blocks[k]
        ov = min(b.p.ztop, zu) - max(b.p.zbottom, zl)  # naive overlap of block k with the interval (may be <= 0)
        if j < len(res) and same(res[j][0], b):
            assert res[j][1] > 0, "overlap heights are positive"
            assert eq(res[j][1], ov), "the reported height is the overlap of the block with the interval"
            total = total + res[j][1]
            j = j + 1
        else:
            assert ov <= 1e-10 * hs[k], "a block that is not reported overlaps the interval by no more than the sliver tolerance"
            if ov > 0:
                missed = missed + ov
    assert j == len(res), "reported in assembly order, each block at most once, nothing else reported"
    length = min(zu, H) - max(zl, 0.0)
    assert eq(total + missed, length), "reported heights + dropped slivers = length of the interval (inside the assembly)"
    assert (total <= length or (NATIVE and eq(total, length))) and length - total <= 1e-10 * H, "heights sum to the interval length (up to the sliver tolerance)"


@lemma(gen=dict(HGEN, zl=(0.0, 60.0), zu=(0.0, 90.0)))
def blocks_between_elevations_partition_the_interval(n: int, h0: float, h1: float, h2: float, h3: float, zl: float, zu: float):
    """n = 1..4 blocks (enumerated), any positive heights, any 0 <= zLower < zUpper <= H.

    Every reported height is positive and is exactly the overlap of that block with [zLower, zUpper]; the blocks come in
    assembly order without repetition; a block that overlaps the interval and is NOT reported overlaps it by at most
    1e-10 of its own height (the sliver filter of the code), so the reported heights sum to zUpper - zLower up to
    1e-10 x total height.  The call is refused (ValueError) only for an assembly taller than 1e5 cm.
    (The exact statements - no sliver tolerance, never refused - are in contracts/pending/C11_assembly_finding.py.)
    """
    n = choose(n, 1, 4)
    hs = [h0, h1, h2, h3]
    assume(h0 > 0 and h1 > 0 and h2 > 0 and h3 > 0)
    a, blocks, H = stacked(n, hs)
    assume(0 <= zl and zl < zu and zu <= H)
    try:
        res = a.getBlocksBetweenElevations(zl, zu)
    except ValueError:
        assert H > 1e5, "an interval inside the assembly is refused only when a dropped sliver exceeds 1e-5 cm (height > 1e5 cm)"
        return
    cover("returned")
    assert len(res) >= 1 or zu - zl <= 1e-10 * H
    check_partition(blocks, hs, n, res, zl, zu, H)


@lemma(gen=dict(HGEN, zl=(-30.0, 120.0), zu=(-20.0, 150.0)))
def interval_reaching_outside_is_refused_or_clipped(n: int, h0: float, h1: float, h2: float, h3: float, zl: float, zu: float):
    """zLower < zUpper NOT inside [0, H] (n = 1..3 enumerated): the call either fails loudly (ValueError; IndexError when
    no block touches the interval) or what it reports partitions the part of the interval inside the assembly."""
    n = choose(n, 1, 3)
    hs = [h0, h1, h2, h3]
    assume(h0 > 0 and h1 > 0 and h2 > 0 and h3 > 0)
    a, blocks, H = stacked(n, hs)
    assume(zl < zu and (zl < 0 or zu > H))
    try:
        res = a.getBlocksBetweenElevations(zl, zu)
    except (ValueError, IndexError):
        cover("refused")
        return
    cover("returned")
    assert zl <= H and zu >= 0, "something is reported only when the interval touches the assembly"
    check_partition(blocks, hs, n, res, zl, zu, H)


@lemma(gen=dict(HGEN, zl=(-30.0, 150.0), zu=(-30.0, 150.0), same_point=[True, False]))
def empty_or_reversed_interval_reports_nothing(n: int, h0: float, h1: float, h2: float, h3: float, zl: float, zu: float, same_point: bool):
    """The two lemmas above condition on zLower < zUpper.  The remaining orderings - zLower == zUpper (an interval of
    length 0, anywhere: inside a block, exactly on a block boundary, outside the assembly) and zLower > zUpper (reversed)
    - for n = 1..3 blocks (enumerated): nothing is reported (there is no interval to partition: "overlap heights are
    positive and sum to its length" leaves only the empty list) or the call fails loudly (ValueError; IndexError when no
    block touches the point).  An empty interval that touches the assembly is never refused."""
    n = choose(n, 1, 3)
    hs = [h0, h1, h2, h3]
    assume(h0 > 0 and h1 > 0 and h2 > 0 and h3 > 0)
    a, blocks, H = stacked(n, hs)
    if same_point:
        zu = zl
    assume(zl >= zu)
    try:
        res = a.getBlocksBetweenElevations(zl, zu)
    except (ValueError, IndexError):
        cover("refused")
        assert zl > zu or zl < 0 or zl > H, "an empty interval at an elevation of the assembly is not an error"
        return
    cover("returned")
    assert len(res) == 0, "no block overlaps an empty or reversed interval by a positive height"


# ----------------------------------------------------------------------------- z-coordinates from block heights
def raw_assembly(n, hs, junk):
    """n blocks with the given heights whose zbottom / ztop / z parameters are STALE (arbitrary values) and no grid yet"""
    blocks = [blk(hs[k], junk[k], junk[k + 1], junk[k + 2]) for k in range(n)]
    a = new(HexAssembly, _children=blocks, p=new(PMap, assemNum=7), name="A", parent=None, spatialGrid=None, spatialLocator=None)
    for b in blocks:
        b.parent = a
    return a, blocks


def no_flags_is_not_fuel(self):
    """contract of ArmiObject.isFuel for the blocks of this harness (p.flags unset): hasFlags(FUEL) is False.
    (Flags are bit masks - outside the engine's integer subset.)"""
    return False


@lemma(gen=dict(HGEN), stubs={"armi.reactor.composites:ArmiObject.isFuel": "no_flags_is_not_fuel"})
def z_coordinates_are_contiguous_from_zero(n: int, h0: float, h1: float, h2: float, h3: float, j0: float, j1: float, j2: float, j3: float, j4: float,
                                           j5: float):
    """reestablishBlockOrder + calculateZCoords on n = 1..4 blocks (enumerated) of any positive heights, whatever the
    stale elevations were: first bottom 0, each bottom = top of the block below, top - bottom = height, z = midpoint,
    last top = getTotalHeight() = sum of heights; the REAL AxialGrid's bounds are those elevations and block k sits
    at (0, 0, k) of it with its centre at p.z; getAxialMesh / getElevationBoundariesByBlockType agree.
    Stub: ArmiObject.isFuel (only read by getAxialMesh for its zeroAtFuel option, which is not used here)."""
    n = choose(n, 1, 4)
    hs = [h0, h1, h2, h3]
    assume(h0 > 0 and h1 > 0 and h2 > 0 and h3 > 0)
    a, blocks = raw_assembly(n, hs, [j0, j1, j2, j3, j4, j5])
    a.reestablishBlockOrder()
    # the new grid has one cell per block, belongs to the assembly, and the blocks are placed and named in order
    assert len(a.spatialGrid._bounds[2]) == n + 1 and same(a.spatialGrid.armiObject, a) and a.spatialGrid.isAxialOnly
    for k in range(n):
        assert blocks[k].spatialLocator.getCompleteIndices() == (0, 0, k) and same(blocks[k].spatialLocator.grid, a.spatialGrid)
        assert blocks[k].name == "B0007-00" + str(k)
    a.calculateZCoords()
    assert eq(blocks[0].p.zbottom, 0.0), "the first block starts at 0"
    total = 0.0
    for k in range(n):
        b = blocks[k]
        if k > 0:
            assert eq(b.p.zbottom, blocks[k - 1].p.ztop), "each block's bottom is the top of the one below"
        assert eq(b.p.ztop - b.p.zbottom, hs[k]) and b.p.ztop > b.p.zbottom, "top - bottom = height > 0"
        assert eq(b.p.z, (b.p.zbottom + b.p.ztop) / 2.0), "z is the midpoint"
        total = total + hs[k]
        # the axial grid: bounds equal the elevations, locator (0, 0, k), cell centre = p.z
        assert same(b.spatialLocator.grid, a.spatialGrid)
        assert b.spatialLocator.getCompleteIndices() == (0, 0, k)
        assert eq(a.spatialGrid._bounds[2][k], b.p.zbottom) and eq(a.spatialGrid._bounds[2][k + 1], b.p.ztop), "grid bounds equal the elevations"
        assert eq(b.spatialLocator.getLocalCoordinates()[2], b.p.z), "the block's grid cell is centred at p.z"
    assert len(a.spatialGrid._bounds[2]) == n + 1
    assert eq(blocks[n - 1].p.ztop, total), "the last top is the sum of the heights"
    assert eq(a.getTotalHeight(), total) and eq(a.getHeight(), total), "... which is the total height"
    mesh = a.getAxialMesh()
    centers = a.getAxialMesh(centers=True)
    bnd = a.getElevationBoundariesByBlockType()
    assert len(mesh) == n and len(centers) == n and len(bnd) == 2 * n
    for k in range(n):
        assert eq(mesh[k], blocks[k].p.ztop) and eq(centers[k], blocks[k].p.z)
        assert eq(bnd[2 * k], blocks[k].p.zbottom) and eq(bnd[2 * k + 1], blocks[k].p.ztop), "boundary pairs (bottom, top) per block"


@lemma(gen=dict(HGEN, z=(-5.0, 200.0)))
def block_at_elevation_contains_the_elevation(n: int, h0: float, h1: float, h2: float, h3: float, z: float):
    """getBlockAtElevation(z), n = 1..4 blocks (enumerated), any heights and any z: the block returned is the one with
    zbottom < z <= ztop - or the one just below when z exceeds its top by less than 1e-10 x z (the tolerance of the
    code, which makes 'the exact top belongs to the block' robust); None exactly when z is not inside the assembly
    (z <= 0 or z beyond the top by at least that tolerance)."""
    n = choose(n, 1, 4)
    hs = [h0, h1, h2, h3]
    assume(h0 > 0 and h1 > 0 and h2 > 0 and h3 > 0)
    a, blocks, H = stacked(n, hs)
    r = a.getBlockAtElevation(z)
    if is_none(r):
        assert z <= 0 or z > H, "an elevation inside the assembly always has a block"
        assert z <= 0 or z - H >= 1e-10 * z
        return
    assert 0 < z and z - H < 1e-10 * z, "no block for an elevation outside the assembly"
    found = 0
    for k in range(n):
        if same(r, blocks[k]):
            found = found + 1
            assert blocks[k].p.zbottom < z, "the block starts below the elevation"
            assert z <= blocks[k].p.ztop or z - blocks[k].p.ztop < 1e-10 * z, "and reaches it (up to 1e-10 relative)"
            if k > 0:
                assert z > blocks[k - 1].p.ztop, "and it is the lowest such block: the exact top belongs to the block below"
    assert found == 1


# ----------------------------------------------------------------------------- snapping an assembly to another block mesh
Component = repo("armi.reactor.components.component:Component")
Material = repo("armi.materials.material:Material")
Fluid = repo("armi.materials.material:Fluid")


def compo(solid, nd):
    p = new(PMap, numberDensities={"U235": nd, "ZR": 2.0 * nd}, detailedNDens=None, pinNDens=None, volume=1.0, type="pin", flags=None)
    return new(Component, p=p, material=new(Material) if solid else new(Fluid), parent=None, name="c", cached={})


@lemma(gen=dict(HGEN, n=(2, 3), m0=(0.5, 80.0), d1=(0.5, 80.0), d2=(0.5, 80.0), a0=(-0.01, 0.05), a1=(-0.01, 0.05), a2=(-0.01, 0.05)),
       stubs={"armi.reactor.composites:ArmiObject.isFuel": "no_flags_is_not_fuel"}, timeout=120)
def block_mesh_change_conserves_mass_when_asked(n: int, conserve: bool, h0: float, h1: float, h2: float, m0: float, d1: float, d2: float, a0: float, a1: float,
                                                a2: float):
    """Assembly.setBlockMesh(mesh, conserveMassFlag=True / False) with Block.setHeight and Component.changeNDensByFactor:
    n = 2..3 blocks (enumerated) of a solid and a fluid component, any old heights, any strictly increasing new mesh
    (tops m0, m0+d1, m0+d1+d2), block k snapping to mesh point k.  After: block k spans [mesh[k-1], mesh[k]] (contiguous
    from 0, grid bounds = mesh); with conservation every component's density x height is unchanged (atoms per unit
    area), without it every density is unchanged.  (A ONE-block assembly is not snapped at all: its topIndex 0 is read as
    "excluded from the uniform mesh" - see contracts/pending/C11_assembly_finding.py.)  Stub: ArmiObject.isFuel (flags unset; only feeds the "auto" rule)."""
    n = choose(n, 2, 3)
    hs, dens = [h0, h1, h2], [a0, a1, a2]
    mesh = [m0, m0 + d1, m0 + d1 + d2]
    assume(h0 > 0 and h1 > 0 and h2 > 0 and m0 > 0 and d1 > 0 and d2 > 0)  # densities of any sign: the statement is an identity in them
    blocks, solids, fluids = [], [], []
    for k in range(n):
        solids.append(compo(True, dens[k]))
        fluids.append(compo(False, 3.0 * dens[k]))
        b = blk(hs[k], 0.0, 0.0, 0.0)
        b._children = [solids[k], fluids[k]]
        b.cached = {}
        b.p.topIndex = k
        blocks.append(b)
    a = new(HexAssembly, _children=blocks, p=new(PMap, assemNum=7, type="A"), name="A", parent=None, spatialGrid=None, spatialLocator=None)
    for b in blocks:
        b.parent = a
        for c in b._children:
            c.parent = b
    a.reestablishBlockOrder()
    a.calculateZCoords()
    a.setBlockMesh(mesh[:n], conserveMassFlag=conserve)
    for k in range(n):
        b = blocks[k]
        below = mesh[k - 1] if k > 0 else 0.0
        assert eq(b.p.zbottom, below) and eq(b.p.ztop, mesh[k]) and eq(b.p.height, mesh[k] - below), "block k spans [mesh[k-1], mesh[k]]"
        assert eq(b.p.z, (below + mesh[k]) / 2.0)
        assert eq(a.spatialGrid._bounds[2][k + 1], mesh[k])
        for c, nd in ((solids[k], dens[k]), (fluids[k], 3.0 * dens[k])):
            if conserve:
                assert eq(c.p.numberDensities["U235"] * b.p.height, nd * hs[k]), "mass conserved: density x height unchanged"
                assert eq(c.p.numberDensities["ZR"] * b.p.height, 2.0 * nd * hs[k])
            else:
                assert eq(c.p.numberDensities["U235"], nd) and eq(c.p.numberDensities["ZR"], 2.0 * nd), "no conservation asked: densities unchanged"
    assert eq(a.getTotalHeight(), mesh[n - 1])
