"""C11 - FINDINGS around UniformMeshGeometryConverter.setAssemblyStateFromOverlaps (refuted on the unchanged tree; not picked
up by ./check).  What does hold is proved in contracts/C11_uniformmesh.py.

(1) peak quantities: "peak quantities take the largest overlapped value" - the running maximum starts at 0.0, so a peak
    quantity whose overlapped source values are all negative is mapped to 0.0 (already known: F132 param.peak.negative).
    native: source blocks with peak = -3, -2  ->  destination peak 0.0, expected -2.
(2) constant profiles: "constant profiles stay constant" - getBlocksBetweenElevations drops overlaps <= 1e-10 of a source
    block, the mean still divides by the full destination height: a destination block [1 - 0.9e-10, 1 + 1.1e-10] over
    source blocks [0, 1], [1, 2] with the constant value 500 gets 500 x 1.1/2.0 = 275.
    (only for destination blocks about 1e-10 of a source block thick; the mesh generator's minimum mesh size excludes them)
(3) map-back: a destination block thinner than 1e-6 cm that receives no overlap (because it is also thinner than 1e-10 of the
    source block it lies in) is silently skipped and keeps whatever state it had; mapping that state back does not
    restore the totals (by the stale content of that block: height < 1e-6 cm x stale density).
run: python3-vt -m pyvc.run contracts/pending/C11_uniformmesh_finding.py -v
"""
from spec import *

HexAssembly = repo("armi.reactor.assemblies:HexAssembly")
HexBlock = repo("armi.reactor.blocks:HexBlock")
Converter = repo("armi.reactor.converters.uniformMesh:UniformMeshGeometryConverter")
ParamMapper = repo("armi.reactor.converters.uniformMesh:ParamMapper")
setNumberDensitiesFromOverlaps = repo("armi.reactor.converters.uniformMesh:setNumberDensitiesFromOverlaps")


class PMap:
    def __getitem__(self, k):
        return getattr(self, k)

    def __setitem__(self, k, v):
        setattr(self, k, v)


class CompStub:
    """a child of the destination block: only its p.volume cache is touched"""


class MeshBlock(HexBlock):
    """HexBlock whose homogenised number densities are a plain map"""

    def getNumberDensities(self):
        return dict(self.nd)

    def setNumberDensities(self, d):
        for k, v in d.items():
            self.nd[k] = v

    def clearNumberDensities(self):
        self.nd = {}


def mesh_block(zb, zt, nd, **params):
    p = new(PMap, height=zt - zb, zbottom=zb, ztop=zt, z=(zb + zt) / 2.0, flags=None, type="b", xsType="A", envGroup="A", **params)
    c = new(CompStub, p=new(PMap, volume=1.0))
    return new(MeshBlock, p=p, _children=[c], name="b", parent=None, spatialLocator=None, nd=nd)


def assembly(blocks):
    return new(HexAssembly, _children=blocks, p=new(PMap, assemNum=1), name="A", parent=None, spatialGrid=None, spatialLocator=None)


def peak_case(n, m, h0, h1, h2, g0, k0, k1, k2, stale):
    hs, pk = [h0, h1, h2], [k0, k1, k2]
    assume(h0 > 0 and h1 > 0 and h2 > 0 and g0 > 0)
    src = []
    z = 0.0
    for k in range(n):
        src.append(mesh_block(z, z + hs[k], {}, peak=pk[k]))
        z = z + hs[k]
    H = z
    assume(implies(m == 2, g0 < H))
    cuts = [0.0, H] if m == 1 else [0.0, g0, H]
    dst = [mesh_block(cuts[k], cuts[k + 1], {}, peak=stale) for k in range(m)]
    sa, da = assembly(src), assembly(dst)
    mapper = new(ParamMapper, blockParamNames=["peak"], reactorParamNames=[], paramDefaults={}, isPeak={"peak": True}, isVolIntegrated={"peak": False})
    try:
        Converter.setAssemblyStateFromOverlaps(sa, da, mapper, mapNumberDensities=False)
    except ValueError:
        return
    cover("mapped")
    for d in dst:
        info = sa.getBlocksBetweenElevations(d.p.zbottom, d.p.ztop)
        if len(info) == 0:
            continue
        largest = info[0][0].p.peak
        for b, h in info:
            largest = max(largest, b.p.peak)
        assert eq(d.p.peak, largest), "a peak quantity takes the largest overlapped value"



@lemma(gen={"n": (2, 3), "m": (1, 2), "h0": (0.5, 80.0), "h1": (0.5, 80.0), "h2": (0.5, 80.0), "g0": (0.5, 80.0), "k0": (-9.0, 9.0), "k1": (-9.0, 9.0),
            "k2": (-9.0, 9.0)}, timeout=120)
def peak_quantity_takes_the_largest_overlapped_value_any_sign(n: int, m: int, h0: float, h1: float, h2: float, g0: float, k0: float, k1: float,
                                                              k2: float, stale: float):
    n = choose(n, 2, 3)
    m = choose(m, 1, 2)
    peak_case(n, m, h0, h1, h2, g0, k0, k1, k2, stale)


@lemma(gen={"h0": (0.5, 80.0), "h1": (0.5, 80.0), "zl": (0.0, 80.0), "zu": (0.0, 160.0), "c": (-9.0, 9.0)}, timeout=120)
def constant_profile_stays_exactly_constant(h0: float, h1: float, zl: float, zu: float, c: float, stale: float):
    """2 source blocks with the same value c, ONE destination block [zl, zu] anywhere inside: mapped value = c"""
    assume(h0 > 0 and h1 > 0 and 0 <= zl and zl < zu and zu <= h0 + h1)
    sa = assembly([mesh_block(0.0, h0, {}, flat=c), mesh_block(h0, h0 + h1, {}, flat=c)])
    d = mesh_block(zl, zu, {}, flat=stale)
    mapper = new(ParamMapper, blockParamNames=["flat"], reactorParamNames=[], paramDefaults={}, isPeak={"flat": False}, isVolIntegrated={"flat": False})
    try:
        Converter.setAssemblyStateFromOverlaps(sa, assembly([d]), mapper, mapNumberDensities=False)
    except ValueError:
        return
    if len(sa.getBlocksBetweenElevations(zl, zu)) > 0:
        assert eq(d.p.flat, c), "a constant profile stays constant"


@lemma(gen={"m": (1, 2), "h0": (0.5, 80.0), "h1": (0.5, 80.0), "g0": (0.5, 80.0), "a0": (0.0, 0.05), "a1": (0.0, 0.05), "p0": (0.0, 5.0), "p1": (0.0, 5.0)},
       timeout=200)
def mapping_back_restores_the_totals_any_thickness(m: int, h0: float, h1: float, g0: float, a0: float, a1: float, p0: float, p1: float, stale: float):
    """2 blocks -> m = 1..2 blocks (enumerated, cut anywhere) -> back onto the original 2-block mesh (a second assembly with
    the original heights and stale state): the assembly totals of atoms and of an integrated quantity (non-negative
    values) are those of the original, up to the slivers dropped in the two mappings (relative 1e-10 x 2 each way)."""
    m = choose(m, 1, 2)
    assume(h0 > 0 and h1 > 0 and g0 > 0 and a0 >= 0 and a1 >= 0 and p0 >= 0 and p1 >= 0)
    H = h0 + h1
    assume(implies(m == 2, g0 < H))
    orig = [mesh_block(0.0, h0, {"U235": a0}, power=p0), mesh_block(h0, H, {"U235": a1}, power=p1)]
    cuts = [0.0, H] if m == 1 else [0.0, g0, H]
    mid = [mesh_block(cuts[k], cuts[k + 1], {"U235": stale}, power=stale) for k in range(m)]
    back = [mesh_block(0.0, h0, {"U235": stale}, power=stale), mesh_block(h0, H, {"U235": stale}, power=stale)]
    mapper = new(ParamMapper, blockParamNames=["power"], reactorParamNames=[], paramDefaults={}, isPeak={"power": False}, isVolIntegrated={"power": True})
    try:
        Converter.setAssemblyStateFromOverlaps(assembly(orig), assembly(mid), mapper, mapNumberDensities=True)
        Converter.setAssemblyStateFromOverlaps(assembly(mid), assembly(back), mapper, mapNumberDensities=True)
    except ValueError:
        return
    cover("mapped")
    atoms0 = a0 * h0 + a1 * h1
    atoms2 = back[0].nd["U235"] * h0 + back[1].nd["U235"] * h1
    pw0 = p0 + p1
    pw2 = back[0].p.power + back[1].p.power
    assert (atoms2 <= atoms0 or (NATIVE and eq(atoms2, atoms0))) and atoms0 - atoms2 <= 4e-10 * atoms0, "atoms restored"
    assert (pw2 <= pw0 or (NATIVE and eq(pw2, pw0))) and pw0 - pw2 <= 4e-10 * pw0, "integrated total restored"
