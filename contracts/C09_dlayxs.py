"""C09 - DLAYXS (delayed neutron data): the records follow the file control record, whole-file round trip and
write(read(file)) == file through the real DlayxsIO.readWrite, _rwFileID, _rwFileControl, _rwSpectra, _rwYield, the real
Dlayxs / DelayedNeutronData containers (armi/nuclearDataIO/cccc/dlayxs.py) and the real binary records on the in-memory
stream (model A4).

File structure (CCCC-IV DLAYXS, dlayxs.py): identification; file control (groups, isotopes, families, dummy); one
spectra record: isotope names, decay constants per family, emission spectra (family x group), group bounds, NKFAM per
isotope, LOCA per isotope [+ trailing words]; then ONE yield record per isotope, in the order of the names: its NKFAM
yield vectors over the groups and the family numbers of the 6 precursor groups.
Stand-in: the container class Dlayxs derives from collections.OrderedDict, and subclasses of dict are outside the engine's
model; symbolically DlayxsBox (an insertion-ordered mapping with the attributes Dlayxs.__init__ sets) takes its place,
natively the real Dlayxs is used - the cross-check runs the same assertions on it.  DelayedNeutronData is the real class.
Collaborator replaced: the global nuclide directory (dlayxs.nuclideBases.byMcc3Id: name -> nuclide object, only used as
dictionary key of the container) by the table Directory.
"""
import struct

import numpy as np

from spec import *

dlayxs = repo("armi.nuclearDataIO.cccc.dlayxs")
Dlayxs = repo("armi.nuclearDataIO.cccc.dlayxs:Dlayxs")
DlayxsIO = repo("armi.nuclearDataIO.cccc.dlayxs:DlayxsIO")
DelayedNeutronData = repo("armi.nuclearDataIO.cccc.dlayxs:DelayedNeutronData")

FileMetadata = repo("armi.nuclearDataIO.nuclearFileMetadata:FileMetadata")

if NATIVE:
    DlayxsBox = Dlayxs
else:
    class DlayxsBox:
        """stand-in for Dlayxs: contract = an insertion-ordered mapping nuclide -> DelayedNeutronData (len, [], items,
        values, keys as dict) plus the attributes of Dlayxs.__init__"""

        def __init__(self):
            self.table = {}
            self.nuclideFamily = {}
            self.numPrecursorGroups = 6
            self.metadata = FileMetadata()
            self.neutronEnergyUpperBounds = None
            self.nuclideContributionFractions = {}

        def __len__(self):
            return len(self.table)

        def __setitem__(self, key, value):
            self.table[key] = value

        def __getitem__(self, key):
            return self.table[key]

        def items(self):
            return self.table.items()

        def values(self):
            return self.table.values()

        def keys(self):
            return self.table.keys()

F32 = [0.5, -1.25, 3.0, 1024.0, 7.0]  # exactly representable in single precision, non-zero
NAMES = ["U235_7", "PU2397"]


class Directory:
    """stand-in for armi.nucDirectory.nuclideBases as used by _rwSpectra: byMcc3Id maps the 8-character name on the
    file to the nuclide object under which the container files the data"""

    byMcc3Id = {"U235_7": "nuclide:U235", "PU2397": "nuclide:PU239"}


OVERRIDES = {"armi.nuclearDataIO.cccc.dlayxs:nuclideBases": "Directory"}


def dlayxs_container(niso, ng, nkf, dummy2, x, y):
    """a Dlayxs as the reader leaves it: niso isotopes with nkf families each (families numbered consecutively, unused
    precursor groups of an isotope point at its first family), ng groups; decay constants x[f], spectra x[f] + g,
    yields y[k] + f + 10 g"""
    d = DlayxsBox()
    nkfs = list(nkf) if isinstance(nkf, (list, tuple)) else [nkf] * niso  # families per isotope (may differ between isotopes)
    first = [sum(nkfs[:k]) for k in range(niso)]
    nfam = sum(nkfs)
    m = d.metadata
    m["label"], m["numEnergyGroups"], m["numFamilies"], m["dummy"] = "DLAYXS", ng, nfam, 0
    m["nuclideIDs"] = NAMES[:niso]
    lam = [x[f % 4] + f for f in range(nfam)]
    chi = [[x[f % 4] + 10.0 * g + f for f in range(nfam)] for g in range(ng)]      # (groups, families) as the reader builds it
    m["precursorDecayConstants"] = np.array(lam)
    m["delayEmissionSpectrum"] = np.array(chi)
    d.neutronEnergyUpperBounds = np.array([x[4], x[5]][:ng])
    m["minEnergy"] = x[6]
    m["nkfam"], m["recordsToSkip"] = list(nkfs), [k for k in range(niso)]
    m["dummy2"] = dummy2
    fams, nu = [], []
    for k in range(niso):
        fam = [first[k] + (p if p < nkfs[k] else 0) + 1 for p in range(6)]
        dn = DelayedNeutronData(ng, 6)
        dn.precursorDecayConstants = np.array([lam[f - 1] for f in fam])
        dn.delayEmissionSpectrum = np.array([[chi[g][f - 1] for g in range(ng)] for f in fam])
        vals = [[(y[k] + p + 10.0 * g if p < nkfs[k] else 0.0) for g in range(ng)] for p in range(6)]
        dn.delayNeutronsPerFission = np.array(vals)
        key = Directory.byMcc3Id[NAMES[k]]
        d[key] = dn
        d.nuclideFamily[key] = fam
        fams.append(fam)
        nu.append(vals)
    return d, lam, chi, fams, nu


def dlayxs_io(mode, st, d):
    return new(DlayxsIO, _fileName="DLAYXS", _fileMode=mode, _stream=st, dlayxs=d, metadata=d.metadata)


def record_sizes(niso, ng, nkf, ndummy):
    nkfs = list(nkf) if isinstance(nkf, (list, tuple)) else [nkf] * niso
    nfam = sum(nkfs)
    sizes = [6, 4 * 4, 8 * niso + 4 * nfam + 4 * nfam * ng + 4 * (ng + 1) + 4 * niso + 4 * niso + 4 * ndummy]
    sizes.extend([4 * nkfs[k] * ng + 4 * 6 for k in range(niso)])
    return sizes


G_DL = {"niso": (1, 2), "ng": (1, 2), "nkf": (1, 2), "nd2": (0, 1), "y0": F32, "y1": F32}
for _k in range(7):
    G_DL["x%d" % _k] = F32


@lemma(gen=G_DL, overrides=OVERRIDES)
def dlayxs_file_round_trip(niso: int, ng: int, nkf: int, nd2: int, x0: float, x1: float, x2: float, x3: float, x4: float, x5: float, x6: float,
                           y0: float, y1: float):
    """a whole DLAYXS file through the real DlayxsIO.readWrite: the stream holds identification, file control, the
    spectra record and ONE yield record per isotope, each with the specified length (label length as written; NKFAM x
    groups yields + 6 family numbers per isotope); reading into an empty Dlayxs gives back the file control entries, the
    names, decay constants, emission spectra, group bounds, NKFAM, LOCA and trailing words, and for every isotope - filed
    under its nuclide, in file order - the yields, the family numbers, and the decay constants / spectra of its
    families.  Enumerated: 1..2 isotopes x 1..2 groups x NKFAM 1..2 x 0..1 trailing word; values symbolic (single
    precision)."""
    niso, ng, nkf, nd2 = choose(niso, 1, 2), choose(ng, 1, 2), choose(nkf, 1, 2), choose(nd2, 0, 1)
    x = [x0, x1, x2, x3, x4, x5, x6]
    y = [y0, y1]
    dummy2 = ["ABCD"][:nd2]
    d, lam, chi, fams, nu = dlayxs_container(niso, ng, nkf, dummy2, x, y)
    st = memstream()
    dlayxs_io("wb", st, d).readWrite()
    sizes = record_sizes(niso, ng, nkf, nd2)
    assert st.nwrites() == 3 * len(sizes), "identification, file control, spectra, one yield record per isotope"
    for r in range(len(sizes)):
        (count,) = struct.unpack("i", st.written(3 * r))
        assert count == sizes[r], "record length as the file structure prescribes"
    st.seek(0)
    back = DlayxsBox()
    dlayxs_io("rb", st, back).readWrite()
    m = back.metadata
    nfam = niso * nkf
    assert m["label"] == "DLAYXS" and m["numEnergyGroups"] == ng and m["numFamilies"] == nfam and m["dummy"] == 0
    assert list(m["nuclideIDs"]) == NAMES[:niso]
    assert m["precursorDecayConstants"].shape == (nfam,) and m["delayEmissionSpectrum"].shape == (ng, nfam)
    for f in range(nfam):
        assert eq(m["precursorDecayConstants"][f], lam[f]), "decay constant read back"
        for g in range(ng):
            assert eq(m["delayEmissionSpectrum"][g, f], chi[g][f]), "emission spectrum read back"
    assert len(back.neutronEnergyUpperBounds) == ng and all([eq(back.neutronEnergyUpperBounds[g], x[4 + g]) for g in range(ng)])
    assert eq(m["minEnergy"], x6)
    assert list(m["nkfam"]) == [nkf] * niso and list(m["recordsToSkip"]) == [k for k in range(niso)]
    assert list(m["dummy2"]) == dummy2, "trailing words read back"
    assert list(back.keys()) == [Directory.byMcc3Id[n] for n in NAMES[:niso]], "one entry per isotope, in file order"
    for k in range(niso):
        key = Directory.byMcc3Id[NAMES[k]]
        dn = back[key]
        assert list(back.nuclideFamily[key]) == fams[k], "family numbers read back"
        assert dn.delayNeutronsPerFission.shape == (6, ng) and dn.delayEmissionSpectrum.shape == (6, ng) and dn.precursorDecayConstants.shape == (6,)
        for p in range(6):
            assert eq(dn.precursorDecayConstants[p], lam[fams[k][p] - 1]), "decay constant of the isotope's family"
            for g in range(ng):
                assert eq(dn.delayNeutronsPerFission[p, g], nu[k][p][g]), "yield read back"
                assert eq(dn.delayEmissionSpectrum[p, g], chi[g][fams[k][p] - 1]), "spectrum of the isotope's family"


@lemma(gen=G_DL, overrides=OVERRIDES)
def dlayxs_rewrite_of_what_was_read_is_the_same_file(niso: int, ng: int, nkf: int, nd2: int, x0: float, x1: float, x2: float, x3: float, x4: float,
                                                     x5: float, x6: float, y0: float, y1: float):
    """write(read(file)) == file for DLAYXS: the container read from a file, written again by the real code, produces the
    same sequence of stream writes, field by field equal bytes.  Same enumeration as dlayxs_file_round_trip."""
    niso, ng, nkf, nd2 = choose(niso, 1, 2), choose(ng, 1, 2), choose(nkf, 1, 2), choose(nd2, 0, 1)
    d, lam, chi, fams, nu = dlayxs_container(niso, ng, nkf, ["ABCD"][:nd2], [x0, x1, x2, x3, x4, x5, x6], [y0, y1])
    st = memstream()
    dlayxs_io("wb", st, d).readWrite()
    st.seek(0)
    back = DlayxsBox()
    dlayxs_io("rb", st, back).readWrite()
    st2 = memstream()
    dlayxs_io("wb", st2, back).readWrite()
    assert st2.nwrites() == st.nwrites(), "same number of records"
    for k in range(st.nwrites()):
        assert st2.written(k) == st.written(k), "same bytes"


# ----------------------------------------------------------------------------- widened shapes (assumption review)
@lemma(gen=dict(G_DL, w=(0, 2)), overrides=OVERRIDES)
def dlayxs_isotopes_with_different_numbers_of_families_round_trip(w: int, ng: int, x0: float, x1: float, x2: float, x3: float, x4: float, x5: float,
                                                                  x6: float, y0: float, y1: float):
    """the two lemmas above give every isotope the SAME number of families.  NKFAM is a per-isotope entry: two isotopes with
    (2, 1), (1, 2), (3, 1) families - the yield records then differ in length and the family numbers of the second isotope
    start after those of the first: record lengths, yields, family numbers read back; write(read(file)) == file"""
    w, ng = choose(w, 0, 2), choose(ng, 1, 2)
    nkfs = [(2, 1), (1, 2), (3, 1)][w]
    x, y = [x0, x1, x2, x3, x4, x5, x6], [y0, y1]
    d, lam, chi, fams, nu = dlayxs_container(2, ng, nkfs, [], x, y)
    st = memstream()
    dlayxs_io("wb", st, d).readWrite()
    sizes = record_sizes(2, ng, nkfs, 0)
    assert st.nwrites() == 3 * len(sizes)
    for r in range(len(sizes)):
        (count,) = struct.unpack("i", st.written(3 * r))
        assert count == sizes[r], "record length as the file structure prescribes"
    st.seek(0)
    back = DlayxsBox()
    dlayxs_io("rb", st, back).readWrite()
    m = back.metadata
    assert list(m["nkfam"]) == list(nkfs) and m["numFamilies"] == sum(nkfs)
    for k in range(2):
        key = Directory.byMcc3Id[NAMES[k]]
        dn = back[key]
        assert list(back.nuclideFamily[key]) == fams[k], "family numbers read back"
        for p in range(6):
            assert eq(dn.precursorDecayConstants[p], lam[fams[k][p] - 1]), "decay constant of the isotope's family"
            for g in range(ng):
                assert eq(dn.delayNeutronsPerFission[p, g], nu[k][p][g]), "yield read back"
                assert eq(dn.delayEmissionSpectrum[p, g], chi[g][fams[k][p] - 1]), "spectrum of the isotope's family"
    st2 = memstream()
    dlayxs_io("wb", st2, back).readWrite()
    assert st2.nwrites() == st.nwrites(), "same number of records"
    for k in range(st.nwrites()):
        assert st2.written(k) == st.written(k), "same bytes"
