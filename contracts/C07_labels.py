"""C07 - location labels <-> indices are mutually inverse: enumerated completely inside the engine (labels are text).

Real code executed: Grid.getLabel, HexGrid.getLabel (through getRingPos / indicesToRingPos), locatorLabelToIndices,
HexGrid.getIndicesFromRingAndPos.  Range: Cartesian-style labels for all 0 <= i, j <= 30 (and k <= 3); hex labels
for every cell of rings 1..7 (127 cells), both orientations.  Negative Cartesian indices: known finding F11.
"""
from spec import *

grids = repo("armi.reactor.grids")
HexGrid = repo("armi.reactor.grids.hexagonal:HexGrid")
CartesianGrid = repo("armi.reactor.grids.cartesian:CartesianGrid")


@lemma
def index_labels_read_back_for_all_small_indices():
    seen = set()
    for i in range(31):
        for j in range(31):
            lab = CartesianGrid.getLabel((i, j))
            assert grids.locatorLabelToIndices(lab) == (i, j, None), "label -> indices inverts indices -> label"
            assert lab not in seen, "distinct cells have distinct labels"
            seen.add(lab)
    for i in (0, 7, 30, 120):
        for k in range(4):
            lab = CartesianGrid.getLabel((i, 3, k))
            assert grids.locatorLabelToIndices(lab) == (i, 3, k)


@lemma(gen={"pitch": (0.1, 30.0)})
def hex_labels_are_ring_and_position_and_read_back(pitch: float, cornersUp: bool):
    assume(pitch > 0)
    g = HexGrid.fromPitch(pitch, numRings=3, cornersUp=cornersUp)
    seen = set()
    n = 0
    for i in range(-6, 7):
        for j in range(-6, 7):
            if max(abs(i), abs(j), abs(i + j)) > 6:
                continue
            n += 1
            lab = g.getLabel((i, j))
            ring, pos, none = grids.locatorLabelToIndices(lab)
            assert none is None and (ring, pos) == g.getRingPos((i, j)), "a hex label is ring-position"
            assert g.getIndicesFromRingAndPos(ring, pos) == (i, j), "and leads back to the cell"
            assert lab not in seen
            seen.add(lab)
            lab3 = g.getLabel((i, j, 2))
            assert grids.locatorLabelToIndices(lab3) == (ring, pos, 2)
    assert n == 127


# ----------------------------------------------------------------------------- widened range (assumption review)
@lemma
def index_labels_read_back_for_negative_indices_too():
    """the lemma above enumerates NON-NEGATIVE indices only (negative ones were finding F11, repaired since): labels of
    cells with negative i / j / k - every Cartesian grid through the centre has them - read back and stay distinct"""
    seen = set()
    for i in range(-13, 14):
        for j in range(-13, 14):
            lab = CartesianGrid.getLabel((i, j))
            assert grids.locatorLabelToIndices(lab) == (i, j, None), "label -> indices inverts indices -> label"
            assert lab not in seen, "distinct cells have distinct labels"
            seen.add(lab)
    for i in (-120, -100, -7, -1, 0, 5, 999, 1000):
        for j in (-1000, -99, -1, 0, 12):
            for k in (-100, -3, -1, 0, 2, 100):
                lab = CartesianGrid.getLabel((i, j, k))
                assert grids.locatorLabelToIndices(lab) == (i, j, k)
                assert lab not in seen
                seen.add(lab)
