"""C12 - FINDING (refuted on the unchanged tree; not picked up by ./check).

Property text: axial expansion "keeps its blocks contiguous and of positive height".  axiallyExpandAssembly refuses only a
NEGATIVE height (_checkBlockHeight: `if b.getHeight() < 0.0: raise ArithmeticError`): when the pin blocks grow by exactly the
height of the top dummy block, the dummy block is left with height 0.0 (zbottom == ztop) and the call succeeds.
native: fuel block 8 cm + dummy block 1 cm, fuel grows by 1.125  ->  dummy block height 0.0, no exception.
(contracts/C12_axial.py proves height >= 0 for the dummy block and > 0 for all pin blocks.)
run: python3-vt -m pyvc.run contracts/pending/C12_axial_finding.py -v
"""
from spec import *

AxialExpansionChanger = repo("armi.reactor.converters.axialExpansionChanger.axialExpansionChanger:AxialExpansionChanger")
ExpansionData = repo("armi.reactor.converters.axialExpansionChanger.expansionData:ExpansionData")
HexBlock = repo("armi.reactor.blocks:HexBlock")
Component = repo("armi.reactor.components.component:Component")
Material = repo("armi.materials.material:Material")
Fluid = repo("armi.materials.material:Fluid")


class PMap:
    def __getitem__(self, k):
        return getattr(self, k)

    def __setitem__(self, k, v):
        setattr(self, k, v)

    def get(self, k, d=None):
        return getattr(self, k, d)

    def __getattr__(self, k):
        # parameters this harness does not set read as unset (only reached by log formatting)
        if k.startswith("__"):
            raise AttributeError(k)
        return None


class GridStub:
    def __getitem__(self, ijk):
        return ("loc", ijk)


class AssemblyStub:
    """what the changer needs from an Assembly: ordered blocks, their count, the axial grid"""

    def __iter__(self):
        return iter(self.blocks)

    def countBlocksWithFlags(self):
        return len(self.blocks)


class Link:
    pass


class Linkage:
    pass


def comp(solid, nd, parent):
    p = new(PMap, numberDensities={"U235": nd}, detailedNDens=None, pinNDens=None, volume=1.0, type="pin", serialNum=1)
    return new(Component, p=p, material=new(Material) if solid else new(Fluid), parent=None, height=0.0, zbottom=0.0, ztop=0.0, name="c")


def block(zb, zt, comps):
    return new(HexBlock, p=new(PMap, zbottom=zb, ztop=zt, height=zt - zb, z=(zb + zt) / 2.0, flags=None, type="fuel", serialNum=2), _children=comps, name="b", parent=None,
               spatialLocator=None)


@lemma(gen={"h0": (3.0, 40.0), "hd": (0.5, 5.0), "g": (0.9, 1.3), "n": (0.001, 0.05)}, timeout=30)
def every_block_keeps_a_positive_height(h0: float, hd: float, g: float, n: float):
    assume(h0 > 0 and hd > 0 and g > 0 and n > 0)
    f0, k0, kd = comp(True, n, None), comp(False, 3 * n, None), comp(False, 3 * n, None)
    b0 = block(0.0, h0, [f0, k0])
    bd = block(h0, h0 + hd, [kd])
    a = new(AssemblyStub, blocks=[b0, bd], spatialGrid=new(GridStub, _bounds=(None, None, None)))
    linked = new(Linkage, a=a, linkedBlocks={b0: new(Link, lower=None, upper=bd), bd: new(Link, lower=b0, upper=None)},
                 linkedComponents={f0: new(Link, lower=None, upper=None)})
    ed = new(ExpansionData, _expansionFactors={f0: g}, _componentDeterminesBlockHeight={f0: True})
    ch = new(AxialExpansionChanger, linked=linked, expansionData=ed)
    try:
        ch.axiallyExpandAssembly()
    except ArithmeticError:
        return
    assert b0.p.height > 0 and bd.p.height > 0, "blocks keep a positive height"
