"""C13 - growing a third-core hex model to full core and undoing it: ThirdCoreHexToFullCoreChanger.convert /
restorePreviousGeometry executed on a real Core.

Executed (real, re-read from /repo on every run): ThirdCoreHexToFullCoreChanger.__init__/convert/restorePreviousGeometry/
_scaleBlockVolIntegratedParams/reset, EdgeAssemblyChanger.removeEdgeAssemblies (no edge assemblies present),
_generateListOfParamsToScale, Core.add/removeAssembly/_removeListFromAuxiliaries/symmetry (getter and setter)/isFullCore/
geomType/getAssembliesOnSymmetryLine/getFirstBlock/getAssemblyWithStringLocation, Assembly.moveTo/renumber/
renameBlocksAccordingToAssemblyNum/getLocation/rotate/isOnWhichSymmetryLine, Reactor.incrementAssemNum, the real HexGrid
(symmetric equivalents, ring/position, labels, first-third test) and IndexLocation.

The SHAPE is enumerated completely up to ring 3: a centre assembly or none, and 1..2 further assemblies on any of the six
first-third cells of rings 2-3 that are not on the 120-degree edge, 1..2 blocks per assembly; all parameter VALUES
(power, multigroup flux) are symbolic reals.

Stand-ins for collaborators (beyond those of contracts/C14_core.py, copied below):
  CopyStub      the module `copy` as seen from geometryConverters.py: deepcopy(assembly) is an independent copy (own
                parameter map, own blocks with equal values, no parent, locator detached from the grid);
                deepcopy(grid) is a grid with the same symmetry,
  PDefs / PDef  parameter definitions of the block type (as in contracts/C13_scaling.py),
  makeunique_contract  Assembly.makeUnique: the assembly gets a negative (placeholder) number and is renamed after it,
  assemblies_contract  Core.getAssemblies(): the children (the real one sorts them by location first).
"""
import math

import numpy as np

from spec import *

Core = repo("armi.reactor.cores:Core")
Assembly = repo("armi.reactor.assemblies:Assembly")
Reactor = repo("armi.reactor.reactors:Reactor")
HexGrid = repo("armi.reactor.grids.hexagonal:HexGrid")
IndexLocation = repo("armi.reactor.grids.locations:IndexLocation")
CoordinateLocation = repo("armi.reactor.grids.locations:CoordinateLocation")
FuelHandler = repo("armi.physics.fuelCycle.fuelHandlers:FuelHandler")
SpentFuelPool = repo("armi.reactor.spentFuelPool:SpentFuelPool")


# ----------------------------------------------------------------------------- stand-ins (collaborators)
class PMap:
    def __getitem__(self, k):
        return getattr(self, k)

    def __setitem__(self, k, v):
        setattr(self, k, v)

    def __contains__(self, k):
        return hasattr(self, k)


class ParametersStub:
    """armi.reactor.parameters as seen from cores.py: no definitions whose `assigned` flag would be reset"""

    ALL_DEFINITIONS = ()
    SINCE_ANYTHING = 0

    @staticmethod
    def forType(cls):
        return ()


class BlockStub:
    """a block as seen by the core bookkeeping: name, flags, symmetry factor, an existing pin grid"""

    def getName(self):
        return self.name

    def hasFlags(self, f, exact=False):
        return f is None or f in self.flags

    def getSymmetryFactor(self):
        return self.symmetryFactor

    def clearCache(self):
        return None

    def setName(self, name):
        self.name = name

    def makeName(self, assemNum, axialIndex):
        return "B{0:04d}-{1:03d}".format(assemNum, axialIndex)

    def rotate(self, rad):
        self.rotation = self.rotation + rad


class AxialStub:
    """the axial grid of an assembly: (0, 0, k) -> a locator of this grid"""

    def __getitem__(self, ijk):
        return IndexLocation(ijk[0], ijk[1], ijk[2], self)


class PoolStub(SpentFuelPool):
    """spent-fuel pool (a SpentFuelPool as far as isinstance goes; the three methods the code under contract calls are
    replaced): add(a) makes `a` a child of the pool, remove(a) takes it out, getChildren() lists the children"""

    def add(self, a):
        a.parent = self
        self.kids.append(a)

    def getChildren(self):
        return list(self.kids)

    def remove(self, a):
        self.kids.remove(a)
        a.parent = None


class ExcoreStub:
    def get(self, name, default=None):
        return self.items.get(name, default)

    def __getitem__(self, name):
        return self.items[name]

    def __getattr__(self, name):
        if name.startswith("__") or name == "items":
            raise AttributeError(name)
        return self.items[name]


class PDef:
    pass


class PDefs:
    """parameter definitions of the block type: atLocation / since filter on the records, .names lists the names"""

    def atLocation(self, loc):
        return new(PDefs, defs=[d for d in self.defs if d.volumeIntegrated])

    def inCategory(self, cat):
        return new(PDefs, defs=[d for d in self.defs if cat in d.categories])

    def since(self, mask):
        return new(PDefs, defs=[d for d in self.defs if d.assignedSinceTransformation])

    @property
    def names(self):
        return [d.name for d in self.defs]


def pdef(name, volInt, cats):
    return new(PDef, name=name, volumeIntegrated=volInt, categories=cats, assignedSinceTransformation=True)


class CopyStub:
    """`copy` as seen from geometryConverters.py (see module docstring)"""

    @staticmethod
    def deepcopy(x):
        if isinstance(x, HexGrid):
            return hexgrid(x._symmetry)
        ax = new(AxialStub)
        a = new(Assembly, name=x.name, _children=[], parent=None, spatialLocator=x.spatialLocator.detachedCopy(), spatialGrid=ax,
                lastLocationLabel=x.lastLocationLabel, cached={},
                p=new(PMap, type=x.p.type, assemNum=x.p.assemNum, numMoves=x.p.numMoves, daysSinceLastMove=x.p.daysSinceLastMove,
                      multiplicity=x.p.multiplicity, dischargeTime=x.p.dischargeTime, chargeTime=x.p.chargeTime, chargeCycle=x.p.chargeCycle,
                      chargeFis=x.p.chargeFis, chargeBu=x.p.chargeBu))
        for k, b in enumerate(x._children):
            c = new(BlockStub, name=b.name, flags=list(b.flags), symmetryFactor=b.symmetryFactor, spatialGrid=b.spatialGrid, rotation=b.rotation,
                    spatialLocator=IndexLocation(0, 0, k, ax), parent=a,
                    p=new(PMap, ztop=b.p.ztop, power=b.p.power, mgFlux=list(b.p.mgFlux), temperature=b.p.temperature, paramDefs=b.p.paramDefs))
            a._children.append(c)
        return a


def makeunique_contract(self):
    """contract of Assembly.makeUnique: a negative placeholder number, names follow"""
    self.p.assemNum = -1
    self.renumber(-1)


def assemblies_contract(self, *args, **kwargs):
    """contract of Core.getAssemblies() as used by convert: the assemblies in the core"""
    return list(self._children)


class OperatorStub:
    pass


class Marker:
    """an opaque object of which only the identity matters (a pin grid, a foreign grid)"""


def fissile_contract(self):
    return 1000.0


def maxparam_contract(self, name):
    return 0.5


STUBS = {"armi.reactor.composites:ArmiObject.getFissileMass": "fissile_contract",
         "armi.reactor.composites:ArmiObject.getMaxParam": "maxparam_contract",
         "armi.reactor.assemblies:Assembly.makeUnique": "makeunique_contract",
         "armi.reactor.cores:Core.getAssemblies": "assemblies_contract"}
OVERRIDES = {"armi.reactor.cores:parameters": "ParametersStub", "armi.reactor.converters.geometryConverters:copy": "CopyStub"}


# ----------------------------------------------------------------------------- the world
def hexgrid(symmetry):
    us = HexGrid._getRawUnitSteps(1.0, False)
    return new(HexGrid, _unitSteps=np.array(us), _bounds=(None, None, None), _stepDims=((0, 1, 2),), _boundDims=((),),
               _offset=np.zeros(3), _unitStepLimits=((-3, 3), (-3, 3), (0, 1)), _symmetry=symmetry, _isAxialOnly=False,
               armiObject=None, _locations={}, _geomType="hex", _backup=None)


def block(name, k, grid, stationary):
    return new(BlockStub, name=name, flags=(["GRID_PLATE"] if stationary else ["FUEL"]), symmetryFactor=1.0, rotation=0.0,
               spatialGrid=new(Marker), spatialLocator=IndexLocation(0, 0, k, grid), parent=None,
               p=new(PMap, ztop=10.0 * (k + 1), power=0.0, mgFlux=[0.0, 0.0], temperature=600.0, paramDefs=BLOCKDEFS))


BLOCKDEFS = new(PDefs, defs=[pdef("power", True, ()), pdef("mgFlux", True, ("flux", "multigroup")), pdef("temperature", False, ())])


def assembly(num, nBlocks, label, stationary=()):
    """Assembly number `num` with nBlocks blocks B<num>-00k; the blocks whose index is in `stationary` are grid plates"""
    ax = new(AxialStub)
    a = new(Assembly, name="A%04d" % num, _children=[], parent=None, spatialLocator=CoordinateLocation(0.0, 0.0, 0.0, None),
            spatialGrid=ax, lastLocationLabel=label, cached={},
            p=new(PMap, type="fuel", assemNum=num, numMoves=0, daysSinceLastMove=7.0, multiplicity=1.0, dischargeTime=0.0, chargeTime=0.0,
                  chargeCycle=0, chargeFis=0.0, chargeBu=0.0))
    for k in range(nBlocks):
        b = block("B%04d-%03d" % (num, k), k, ax, k in stationary)
        b.parent = a
        a._children.append(b)
    return a


def world(track, withPool, numRings, maxAssemNum):
    """an empty core in a reactor (with or without a pool); returns (core, reactor, pool)"""
    g = hexgrid("third periodic")
    pool = new(PoolStub, kids=[], parent=None)
    r = new(Reactor, name="r", p=new(PMap, time=12.5, cycle=3, maxAssemNum=maxAssemNum), excore=new(ExcoreStub, items=({"sfp": pool} if withPool else {})),
            parent=None, _children=[])
    core = new(Core, name="core", _children=[], childrenByLocator={}, assembliesByName={}, blocksByName={}, spatialGrid=g, parent=r,
               spatialLocator=CoordinateLocation(0.0, 0.0, 0.0, None), numRings=numRings, _trackAssems=track, cached={},
               stationaryBlockFlagsList=["GRID_PLATE"], zones=[], p=new(PMap, maxAssemNum=maxAssemNum, numMoves=0))
    g.armiObject = core
    r.core = core
    pool.parent = r
    return core, r, pool


def place(core, a, i, j):
    """put `a` into the core's tables at cell (i, j) - the state Inv describes, built directly"""
    loc = core.spatialGrid[i, j, 0]
    a.parent = core
    a.spatialLocator = loc
    core._children.append(a)
    core.childrenByLocator[loc] = a
    core.assembliesByName[a.name] = a
    for b in a._children:
        core.blocksByName[b.name] = b


def register_pooled(core, pool, a):
    """`a` sits in the pool and is tracked by name"""
    a.parent = pool
    pool.kids.append(a)
    core.assembliesByName[a.name] = a
    for b in a._children:
        core.blocksByName[b.name] = b


def inv(core, pool):
    """the class invariant Inv(core) (see module docstring)"""
    g = core.spatialGrid
    kids = list(core._children)
    ok = len(core.childrenByLocator) == len(kids)
    nBlocks = 0
    for c in kids:
        ok = ok and c.parent is core and c.spatialLocator.grid is g
        ok = ok and core.childrenByLocator.get(c.spatialLocator) is c
    for c in kids + list(pool.kids):
        ok = ok and core.assembliesByName.get(c.name) is c
        for b in c._children:
            nBlocks += 1
            ok = ok and b.parent is c and core.blocksByName.get(b.name) is b
    ok = ok and len(core.assembliesByName) == len(kids) + len(pool.kids)
    ok = ok and len(core.blocksByName) == nBlocks
    return ok


def at(core, i, j):
    """the assembly the core's location lookup returns for cell (i, j), by an independent key (the index tuple)"""
    return core.childrenByLocator.get((i, j, 0))


def hexring(i, j):
    return max(abs(i), abs(j), abs(i + j)) + 1


ThirdCoreHexToFullCoreChanger = repo("armi.reactor.converters.geometryConverters:ThirdCoreHexToFullCoreChanger")
CELLS = [(1, 0), (0, 1), (2, 0), (1, 1), (0, 2), (2, -1)]  # first-third cells of rings 2-3 that are not on the 120-degree edge
GEN = {"centre": (0, 1), "c1": (0, 5), "c2": (0, 6), "nb": (1, 2), "p0": (0.0, 1e6), "p1": (0.0, 1e6), "p2": (0.0, 1e6), "p3": (0.0, 1e6),
       "f": (0.0, 1e14), "maxNum": (3, 3)}


def rot120(c):
    """the 120-degree image of a hex cell (proved to be what getSymmetricEquivalents returns: contracts/C08_symmetry.py)"""
    return (-c[0] - c[1], c[0])


def total_power(core):
    t = 0.0
    for a in core._children:
        for b in a._children:
            t = t + b.p.power
    return t


@lemma(gen=GEN, stubs=STUBS, overrides=OVERRIDES, timeout=120)
def convert_grows_every_orbit_and_restore_returns_the_third_core(centre: int, c1: int, c2: int, nb: int, p0: float, p1: float, p2: float, p3: float, f: float):
    centre = choose(centre, 0, 1)
    c1 = choose(c1, 0, 5)
    c2 = choose(c2, 0, 6)  # 6: no second assembly
    nb = choose(nb, 1, 2)
    assume(c2 > c1)  # the other child orders and the centre-only core: convert_and_restore_in_the_remaining_shapes
    convert_restore_case(centre, c1, c2, nb, p0, p1, p2, p3, f)


@lemma(gen=dict(GEN, c1=(0, 6), c2=(0, 5)), stubs=STUBS, overrides=OVERRIDES, timeout=200)
def convert_and_restore_in_the_remaining_shapes(c1: int, c2: int, centre: int, nb: int, p0: float, p1: float, p2: float, p3: float, f: float):
    """the shapes the lemma above leaves out: (a) the assembly added to the core FIRST sits on the LATER cell of the
    enumeration (child order against location order: c2 < c1), with or without a centre assembly; (b) a third core that
    holds ONLY the centre assembly (c1 = 6; convert adds nothing, restore must still give back the third-core symmetry
    and the centre's values - F26, fixed)."""
    c1 = choose(c1, 0, 6)  # 6: no assembly besides the centre
    c2 = choose(c2, 0, 5)
    nb = choose(nb, 1, 2)
    if c1 == 6:
        assume(c2 == 0)
        convert_restore_case(1, 6, 6, nb, p0, p1, p2, p3, f)
    else:
        centre = choose(centre, 0, 1)
        assume(c2 < c1)
        convert_restore_case(centre, c1, c2, nb, p0, p1, p2, p3, f)


def convert_restore_case(centre, c1, c2, nb, p0, p1, p2, p3, f):
    """c1 / c2: index into CELLS of the first / second non-centre assembly (6: none)"""
    core, r, pool = world(False, True, 3, 3)
    src = []
    if centre == 1:
        a0 = assembly(0, nb, "001-001")
        place(core, a0, 0, 0)
        a0._children[0].p.power = p0
        a0._children[0].p.mgFlux = [f, 2 * f]
        if nb == 2:
            a0._children[1].p.power = p3
        src.append(a0)
    if c1 < 6:
        a1 = assembly(1, nb, "002-001")
        place(core, a1, CELLS[c1][0], CELLS[c1][1])
        a1._children[0].p.power = p1
        src.append(a1)
    if c2 < 6:
        a2 = assembly(2, 1, "002-002")
        place(core, a2, CELLS[c2][0], CELLS[c2][1])
        a2._children[0].p.power = p2
        src.append(a2)
    assert inv(core, pool), "the third-core model satisfies Inv"
    n = len(src)
    third = total_power(core)
    cells0 = [(a.spatialLocator.i, a.spatialLocator.j) for a in src]
    names0 = [a.name for a in src]
    ch = ThirdCoreHexToFullCoreChanger()
    ch.convert(r)
    # --- the full core
    assert core.isFullCore and str(core.symmetry) == "full", "the model is full core"
    assert inv(core, pool), "Inv: location and name lookups are truthful in the full core"
    nOrbit = n - centre
    assert len(core._children) == 3 * nOrbit + centre, "three per orbit, the centre once"
    for k in range(n):
        assert core._children[k] is src[k] and (src[k].spatialLocator.i, src[k].spatialLocator.j) == cells0[k], "the sources stay where they are"
    added = list(core._children[n:])
    m = 0
    for k in range(n):
        a = src[k]
        if cells0[k] == (0, 0):
            continue
        im1, im2 = rot120(cells0[k]), rot120(rot120(cells0[k]))
        b1, b2 = at(core, im1[0], im1[1]), at(core, im2[0], im2[1])
        assert b1 is added[m] and b2 is added[m + 1], "the cells generated by 120-degree rotation hold the copies"
        m += 2
        for q, cp in enumerate([b1, b2]):
            assert cp is not a and cp.p is not a.p and len(cp._children) == len(a._children), "an independent copy"
            for bi in range(len(a._children)):
                assert cp._children[bi] is not a._children[bi] and cp._children[bi].p is not a._children[bi].p
                assert eq(cp._children[bi].p.power, a._children[bi].p.power), "same contents as its source"
                assert eq(cp._children[bi].rotation, (q + 1) * 2 * math.pi / 3), "rotated into place"
                assert cp._children[bi].name == "B%04d-%03d" % (cp.p.assemNum, bi)
            assert cp.name == "A%04d" % cp.p.assemNum and cp.p.assemNum >= 3, "named after a fresh number"
    allNames = [a.name for a in core._children]
    assert len(set(allNames)) == len(allNames), "every assembly has its own name"
    assert eq(total_power(core), 3 * third), "a volume-integrated total is three times the third-core value (centre counted once)"
    if centre == 1:
        assert eq(src[0]._children[0].p.mgFlux[0], 3 * f) and eq(src[0]._children[0].p.mgFlux[1], 6 * f) and eq(src[0]._children[0].p.temperature, 600.0)
    # --- and back
    ch.restorePreviousGeometry(r)
    assert str(core.symmetry) == "third periodic", "symmetry restored"
    assert inv(core, pool), "Inv: lookups resolve as before"
    assert len(core._children) == n
    for k in range(n):
        assert core._children[k] is src[k] and (src[k].spatialLocator.i, src[k].spatialLocator.j) == cells0[k] and src[k].name == names0[k], "the same assemblies at the same places"
        assert at(core, cells0[k][0], cells0[k][1]) is src[k] and core.assembliesByName[names0[k]] is src[k]
    assert eq(total_power(core), third), "parameters restored exactly"
    if centre == 1:
        assert eq(src[0]._children[0].p.power, p0) and eq(src[0]._children[0].p.mgFlux[0], f) and eq(src[0]._children[0].p.mgFlux[1], 2 * f)
    for cp in added:
        assert cp.parent is None and cp.name not in core.assembliesByName, "the copies are gone for good"
    assert len(ch._newAssembliesAdded) == 0
