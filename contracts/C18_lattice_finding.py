"""C18 - FINDING (refuted on the unchanged tree; known finding F18; not picked up by ./check).

Hex lattice maps whose contents lack cells of the outer ring are drawn, but as text that reads back SHIFTED: the
writer trims placeholder rows / columns the reader needs to locate the centre.
Native: m = AsciiMapHexFullTipsUp(); m.asciiLabelByIndices = {(0,-1): 'C', (0,0): 'D', (0,1): 'E'};
m.gridContentsToAscii(); text = str(m); b = AsciiMapHexFullTipsUp(); b.readAscii(text) -> keys (1,-1), (1,-2), (1,-3).
"""
from spec import *

maps = repo("armi.utils.asciimaps")


@lemma
def a_column_of_three_cells_reads_back_where_it_was():
    contents = {(0, -1): "C", (0, 0): "D", (0, 1): "E"}
    m = maps.AsciiMapHexFullTipsUp()
    m.asciiLabelByIndices = dict(contents)
    try:
        m.gridContentsToAscii()
        text = str(m)
    except ValueError:
        text = None
    if text is not None:
        back = maps.AsciiMapHexFullTipsUp()
        back.readAscii(text)
        assert {k: v for k, v in back.items() if v != "-"} == contents, "drawn as text that reads back to the same contents, or refused"
