"""C16 - ParameterCollection back-up / restore and the composite-level retainState scope, on the REAL code.

Executed symbolically: ParameterCollection.backUp / restoreBackup / __getstate__ / __setstate__ / __setattr__ /
paramDefs, Parameter.__init__ / setter (the real closure that performs an assignment) / __set__ / backUp / restoreBackup,
ParameterDefinitionCollection.__init__ / add / lock / __iter__, Composite.backUp / restoreBackup / retainState / iterChildrenWithMaterials,
StateRetainer.__init__ / __enter__ / __exit__ / _enterExitHelper, Material.backUp / restoreBackup.

The collection class `PC3` is a harness subclass of the real ParameterCollection with three parameters
(temperatureInC: scalar, power: scalar, numberDensities: a dict - the kinds a Component's state is kept in);
its class attributes (pDefs, _allFields, _slots) are set to what ParameterCollection.applyParameters builds
(class invariant as hypothesis; applyParameters itself needs __bases__/descriptor binding and is not executed).
Instances are allocated with new() and hold ARBITRARY symbolic values, an arbitrary `assigned` mask and an
arbitrary earlier back-up (None or an opaque pickle): each lemma is one push/pop step from any prior state, so
it is the inductive step for every nesting depth.  Assignments inside a scope go through the REAL setter
closure (Parameter.__set__), in-place changes of the dict parameter are made the way
Component.updateNumberDensities makes them (update the dict, then set both `assigned` masks by hand).

Trusted: pickle round trip of plain data = structurally equal disjoint copy (engine model `pickle`);
`x & mask`, `~mask` with concrete masks (exact integer semantics).
"""
import pickle

from spec import *

ParameterCollection = repo("armi.reactor.parameters.parameterCollections:ParameterCollection")
Parameter = repo("armi.reactor.parameters.parameterDefinitions:Parameter")
PDC = repo("armi.reactor.parameters.parameterDefinitions:ParameterDefinitionCollection")
NoDefault = repo("armi.reactor.parameters.parameterDefinitions:NoDefault")
SINCE_ANYTHING = repo("armi.reactor.parameters.parameterDefinitions:SINCE_ANYTHING")
SINCE_BACKUP = repo("armi.reactor.parameters.parameterDefinitions:SINCE_BACKUP")
Composite = repo("armi.reactor.composites:Composite")
Material = repo("armi.materials.material:Material")


class PC3(ParameterCollection):
    """a parameter collection class with the three parameters below (set up by mk_class)"""


NAMES = ("temperatureInC", "power", "numberDensities")


def mk_class(f0, f1, f2):
    """what ParameterCollection.applyParameters establishes for a class with three definitions;
    f0..f2: the (arbitrary) `assigned` masks of the three definitions"""
    flags = [f0, f1, f2]
    pdc = PDC()  # REAL constructors from here: Parameter.__init__ (builds the real getter / setter closures), PDC.add, lock
    defs = []
    for k in range(3):
        pd = Parameter(NAMES[k], "", "a parameter of the stand-in class", None, True, None, NoDefault, set())
        pd.collectionType = PC3
        pd.assigned = flags[k]
        pdc.add(pd)
        defs.append(pd)
    pdc.lock()
    PC3.pDefs = pdc
    PC3._allFields = sorted(["_backup", "_hist", "assigned"] + [pd.fieldName for pd in defs])
    PC3._slots = set(PC3._allFields) | set(NAMES) | {"readOnly"}
    return defs


def mk_coll(prior, a, t, p, n):
    return new(PC3, _backup=prior, _hist={}, assigned=a, readOnly=False, _p_temperatureInC=t, _p_power=p, _p_numberDensities={"U235": n})


def same_bytes(a, b):
    """the back-up is an immutable byte string: symbolically the very object, natively equal bytes"""
    return (a == b) if NATIVE else same(a, b)


def keepset(defs, k0, k1, k2):
    ks = [k0, k1, k2]
    return set([defs[i] for i in range(3) if ks[i]])


@lemma(gen={"a0": (0, 63), "f0": (0, 63), "f1": (0, 63), "f2": (0, 63)})
def collection_backup_step_restores_all_but_the_kept(a0: int, f0: int, f1: int, f2: int, t0: float, p0: float, n0: float, t1: float, p1: float, n1: float,
                                                     setT: bool, setP: bool, setN: bool, mutN: bool, k0: bool, k1: bool, k2: bool, hasPrior: bool):
    """one scope on one collection: backUp, arbitrary assignments (each parameter re-assigned or not; the dict also
    changed in place), restoreBackup(keep) for EVERY keep-set: parameters not kept have their entry value, kept ones
    their new value; the earlier back-up is back in place; flags return unless a kept value changed"""
    defs = mk_class(f0, f1, f2)
    prior = pickle.dumps(["state of the enclosing scope"]) if hasPrior else None
    pc = mk_coll(prior, a0, t0, p0, n0)
    pc.backUp()
    assert (pc.assigned & SINCE_BACKUP) == 0, "nothing is marked as assigned since this back-up"
    if setT:
        defs[0].__set__(pc, t1)
    if setP:
        defs[1].__set__(pc, p1)
    if setN:
        defs[2].__set__(pc, {"U235": n1})
    elif mutN:
        # in-place change as Component.updateNumberDensities makes it: the dict is updated, then the flags are set by hand
        pc._p_numberDensities["U235"] = n1
        pc.assigned = SINCE_ANYTHING
        defs[2].assigned = SINCE_ANYTHING
    keep = keepset(defs, k0, k1, k2)
    pc.restoreBackup(keep)
    assert pc._p_temperatureInC == (t1 if (k0 and setT) else t0), "temperature: entry value unless kept"
    assert pc._p_power == (p1 if (k1 and setP) else p0), "power: entry value unless kept"
    assert len(pc._p_numberDensities) == 1
    if not k2:
        assert pc._p_numberDensities["U235"] == n0, "number densities: entry value (also after an in-place change)"
    elif setN or mutN:
        assert pc._p_numberDensities["U235"] == n1, "kept and re-assigned / updated in place: the new value survives"
    else:
        assert pc._p_numberDensities["U235"] == n0
    assert (pc._backup is None) if not hasPrior else same_bytes(pc._backup, prior), "the enclosing scope's back-up is in place again"
    changedKept = (k0 and setT and t1 != t0) or (k1 and setP and p1 != p0) or (k2 and (setN or mutN) and n1 != n0)
    assert implies(not changedKept, pc.assigned == a0), "assigned mask of the collection as at entry"
    assert implies(changedKept, (pc.assigned & SINCE_BACKUP) != 0), "a kept change stays marked as assigned"
    assert len(pc._hist) == 0 and pc.readOnly == False


@lemma(gen={"a0": (0, 63)})
def nested_collection_backups_unwind_last_in_first_out(a0: int, t0: float, p0: float, n0: float, t1: float, p1: float, t2: float, p2: float, n2: float,
                                                       ki0: bool, ki1: bool, ko0: bool, ko1: bool, hasPrior: bool):
    """outer scope { assign T,P ; inner scope { assign T,P, number density in place } keep-set Ki } keep-set Ko,
    for every pair of keep-sets over {T, P}"""
    defs = mk_class(0, 0, 0)
    prior = pickle.dumps(["state of the enclosing scope"]) if hasPrior else None
    pc = mk_coll(prior, a0, t0, p0, n0)
    pc.backUp()
    defs[0].__set__(pc, t1)
    defs[1].__set__(pc, p1)
    pc.backUp()
    defs[0].__set__(pc, t2)
    defs[1].__set__(pc, p2)
    pc._p_numberDensities["U235"] = n2
    pc.restoreBackup(keepset(defs, ki0, ki1, False))
    assert pc._p_temperatureInC == (t2 if ki0 else t1) and pc._p_power == (p2 if ki1 else p1), "inner scope: state at ITS entry, kept ones new"
    assert pc._p_numberDensities["U235"] == n0
    ti, pi = pc._p_temperatureInC, pc._p_power
    pc.restoreBackup(keepset(defs, ko0, ko1, False))
    assert pc._p_temperatureInC == (ti if ko0 else t0), "outer scope: entry state, kept ones as they were when it ended"
    assert pc._p_power == (pi if ko1 else p0)
    assert pc._p_numberDensities["U235"] == n0
    assert (pc._backup is None) if not hasPrior else same_bytes(pc._backup, prior), "and the enclosing back-up chain is intact"
    assert implies(not ((ko0 and ti != t0) or (ko1 and pi != p0)), pc.assigned == a0)


class MatStub(Material):
    """a material object hanging off a node: the real Material.backUp / restoreBackup run on it (only `cached` and
    `_backupCache` are touched)"""


def mk_node(name, pc, mat):
    c = new(Composite, name=name, parent=None, _children=[], cached={"v": 1.0}, _backupCache=None, p=pc, spatialGrid=None)
    if mat:
        c.material = new(MatStub, cached={"rho": 2.0}, _backupCache=None)
    return c


@lemma(gen={"a0": (0, 63), "a1": (0, 63), "a2": (0, 63), "f0": (0, 63), "f1": (0, 63)})
def retain_state_on_a_parent_restores_every_descendant(a0: int, a1: int, a2: int, f0: int, f1: int, tA: float, tB: float, tC: float, pA: float, pB: float, pC: float,
                                                       nT: float, nP: float, nN: float, keepT: bool, keepP: bool, setRoot: bool, hasMat: bool):
    """retainState scope opened on the root of root -> child -> grandchild (+ a second child), every node with its own
    collection of the same class: inside, T and P of EVERY node are re-assigned through the real setter, number
    densities changed in place, caches filled.  Afterwards every node has its entry values except the kept
    definitions, caches are the entry objects, definition flags of non-kept definitions are the entry flags."""
    defs = mk_class(f0, f1, 0)
    root = mk_node("root", mk_coll(None, a0, tA, pA, 1.0), False)
    kid = mk_node("kid", mk_coll(None, a1, tB, pB, 2.0), hasMat)
    kid2 = mk_node("kid2", mk_coll(None, a1, tB, pB, 2.5), False)
    gkid = mk_node("gkid", mk_coll(None, a2, tC, pC, 3.0), hasMat)
    root._children = [kid, kid2]
    kid.parent = root
    kid2.parent = root
    kid._children = [gkid]
    gkid.parent = kid
    allNodes = [root, kid, kid2, gkid]
    caches = [c.cached for c in allNodes]
    keep = [defs[i] for i in range(2) if [keepT, keepP][i]]
    with root.retainState(keep):
        for c in allNodes:
            assert len(c.cached) == 0, "inside the scope every cache starts empty"
            if setRoot or not same(c, root):
                defs[0].__set__(c.p, nT)
                defs[1].__set__(c.p, nP)
            c.p._p_numberDensities["U235"] = nN
            c.cached["computed-inside"] = 5.0
            if hasMat and not same(c, root) and not same(c, kid2):
                c.material.cached["k"] = 7.0
    entryT = [tA, tB, tB, tC]
    entryP = [pA, pB, pB, pC]
    entryN = [1.0, 2.0, 2.5, 3.0]
    entryA = [a0, a1, a1, a2]
    for i in range(4):
        c = allNodes[i]
        touched = setRoot or i > 0
        assert c.p._p_temperatureInC == (nT if (keepT and touched) else entryT[i]), "T of every descendant: entry value unless kept"
        assert c.p._p_power == (nP if (keepP and touched) else entryP[i]), "P of every descendant: entry value unless kept"
        assert c.p._p_numberDensities["U235"] == entryN[i], "number densities of every descendant restored"
        assert c.p._backup is None, "no back-up left behind"
        assert same(c.cached, caches[i]) and "computed-inside" not in c.cached, "caches computed inside do not leak"
        assert c._backupCache is None
        changedKept = touched and ((keepT and nT != entryT[i]) or (keepP and nP != entryP[i]))
        assert implies(not changedKept, c.p.assigned == entryA[i])
    if hasMat:
        assert "k" not in kid.material.cached and "rho" in kid.material.cached and kid.material._backupCache is None
        assert "k" not in gkid.material.cached
    assert implies(not keepT, defs[0].assigned == f0) and implies(not keepP, defs[1].assigned == f1), "definition flags of non-kept definitions as at entry"
    assert defs[0]._backup is None and defs[1]._backup is None and defs[2]._backup is None
    assert defs[2].assigned == 0


# ---------------------------------------------------------------------------------------------- the grid of a composite
import numpy as np

HexGrid = repo("armi.reactor.grids.hexagonal:HexGrid")
IndexLocation = repo("armi.reactor.grids.locations:IndexLocation")


def mk_grid(pitch, prior):
    us = HexGrid._getRawUnitSteps(pitch, False)
    return new(HexGrid, _unitSteps=np.array(us), _bounds=(None, None, None), _stepDims=((0, 1, 2),), _boundDims=((),),
               _offset=np.array((0.0, 0.0, 0.0)), _unitStepLimits=((-3, 3), (-3, 3), (0, 1)), _backup=prior, _locations={}, armiObject=None)


@lemma(gen={"p1": (0.1, 30.0), "p2": (0.1, 30.0), "a0": (0, 63)})
def retain_state_restores_the_grid_pitch_of_a_composite(p1: float, p2: float, a0: int, t0: float, t1: float, keepT: bool):
    """a composite owning a hexagonal grid that holds (at least) one location object: the pitch changed inside a
    retainState scope is back afterwards, together with the parameters; an earlier grid back-up stays in place.
    (A grid WITHOUT any location object: see contracts/pending/C16_grid_finding.py.)"""
    assume(p1 > 0 and p2 > 0)
    defs = mk_class(0, 0, 0)
    c = mk_node("c", mk_coll(None, a0, t0, 1.0, 1.0), False)
    # an earlier grid back-up (of an enclosing scope, taken at pitch 2*p1): must be in place again afterwards
    prior = (np.array(HexGrid._getRawUnitSteps(2.0 * p1, False)), (None, None, None), np.array((0.0, 0.0, 0.0)), None)
    g = mk_grid(p1, prior)
    g.armiObject = c
    g._locations[(0, 0, 0)] = IndexLocation(0, 0, 0, g)
    c.spatialGrid = g
    with c.retainState([defs[0]] if keepT else []):
        g.changePitch(p2)
        defs[0].__set__(c.p, t1)
        assert eq(g.pitch, p2)
    assert eq(g.pitch, p1), "grid pitch as at entry"
    assert same(g._backup, prior), "the earlier grid back-up is in place again"
    assert c.p._p_temperatureInC == (t1 if keepT else t0)


@lemma(gen={"a0": (0, 63), "shape1": [1, 2, 3]})
def collection_backup_step_with_none_and_array_values(a0: int, shape1: int, t0: float, t1: float, d0: float, d1: float, e0: float, e1: float,
                                                      n0: float, none0: bool, none1: bool, setT: bool, setP: bool, k0: bool, k1: bool,
                                                      hasPrior: bool):
    """the parameter kinds the lemmas above leave out (their values are always numbers / a dict): a parameter whose
    entry value is None and / or that is set to None inside the scope (temperatureInC here), and an ARRAY parameter
    (power here: two entries at entry, re-assigned inside the scope with 1..3 entries, i.e. also with another
    shape): for every keep-set over the two, a parameter not kept has its entry value (None stays None, the array has
    its entry shape and entries), a kept one its new value"""
    shape1 = choose(shape1, 1, 3)
    defs = mk_class(0, 0, 0)
    prior = pickle.dumps(["state of the enclosing scope"]) if hasPrior else None
    pc = mk_coll(prior, a0, None if none0 else t0, np.array([d0, d1]), n0)
    pc.backUp()
    if setT:
        defs[0].__set__(pc, None if none1 else t1)
    if setP:
        defs[1].__set__(pc, np.array([e0, e1, e0 + e1][:shape1]))
    pc.restoreBackup(keepset(defs, k0, k1, False))
    T = pc._p_temperatureInC
    if k0 and setT:
        assert (T is None) if none1 else (T is not None and T == t1), "kept: the value assigned inside (None included)"
    else:
        assert (T is None) if none0 else (T is not None and T == t0), "not kept: the entry value (None stays None)"
    P = pc._p_power
    if k1 and setP:
        assert P.shape == (shape1,) and P[0] == e0 and implies(shape1 >= 2, P[min(1, shape1 - 1)] == e1), "kept array: the new shape and entries"
    else:
        assert P.shape == (2,) and P[0] == d0 and P[1] == d1, "array not kept: entry shape and entries"
    assert pc._p_numberDensities["U235"] == n0
    assert (pc._backup is None) if not hasPrior else same_bytes(pc._backup, prior)


@lemma(gen={"a0": (0, 63), "a1": (0, 63)})
def retain_state_covers_the_material_of_the_scope_root(a0: int, a1: int, tA: float, tB: float, nT: float, kidHasMat: bool, keepT: bool):
    """retain_state_on_a_parent_restores_every_descendant gives a material to descendants only; here the object the
    scope is OPENED ON carries one itself (the case of a scope on a Component, fix c8b36b4), with 0..1 children: a
    material property cached inside the scope is gone afterwards, the entry cache object is back, parameters of root
    and child are restored as usual"""
    defs = mk_class(0, 0, 0)
    root = mk_node("root", mk_coll(None, a0, tA, 1.0, 1.0), True)
    kid = mk_node("kid", mk_coll(None, a1, tB, 2.0, 2.0), kidHasMat)
    root._children = [kid]
    kid.parent = root
    rootCache, kidCache = root.material.cached, (kid.material.cached if kidHasMat else None)
    with root.retainState([defs[0]] if keepT else []):
        assert len(root.material.cached) == 0, "inside the scope the material's cache starts empty"
        root.material.cached["k"] = 7.0
        if kidHasMat:
            kid.material.cached["k"] = 8.0
        defs[0].__set__(root.p, nT)
        defs[0].__set__(kid.p, nT)
    assert same(root.material.cached, rootCache) and "k" not in root.material.cached and "rho" in root.material.cached, "nothing cached inside leaks out of the root's material"
    assert root.material._backupCache is None
    if kidHasMat:
        assert same(kid.material.cached, kidCache) and "k" not in kid.material.cached
    assert root.p._p_temperatureInC == (nT if keepT else tA) and kid.p._p_temperatureInC == (nT if keepT else tB)
    assert root.p._backup is None and kid.p._backup is None
