"""C06 - the logic that decides WHEN a snapshot is written, how the file is marked and closed, and what happens on
an aborted run - with storage stubbed.

Real code executed: Database.close / __enter__ / __exit__ / getH5Group / hasTimeStep / isOpen, getH5GroupName,
DatabaseInterface.interactBOL.. / interactEveryNode / writeDBEveryNode / interactEOC / interactEOL / closeDB /
interactError, Operator.__enter__ / __exit__ / interactAllError / _mainOperate / _cycleLoop / _timeNodeLoop /
_performTightCoupling / _interactAll / getActiveInterfaces / interactAll*.
Stand-ins (collaborators outside the engine): `H5File` / `H5Group` (h5py: a name -> group mapping with attrs, flush,
close), `write_contract` for Database.writeToDB (Layout + parameter packing are h5py/numpy code: the contract is
"creates/gets the group of the current (cycle, node, label) through the REAL getH5Group and stores the state; h5py
refuses to write the same datasets twice"), `move_contract` for safeMove, `OsStub` for os.path.abspath, time.time()
(an arbitrary real), `Rec` interfaces that change the reactor state and may raise at a chosen hook.
"""
from spec import *

dbmod = repo("armi.bookkeeping.db.database")
Database = repo("armi.bookkeeping.db.database:Database")
DatabaseInterface = repo("armi.bookkeeping.db.databaseInterface:DatabaseInterface")
Operator = repo("armi.operators.operator:Operator")
Interface = repo("armi.interfaces:Interface")


class PMap:
    pass


class Holder:
    pass


class H5Group:
    pass


class H5File:
    """stand-in for h5py.File: groups by name (insertion ordered), file attributes, open flag"""

    def __contains__(self, name):
        return name in self.groups

    def __getitem__(self, name):
        return self.groups[name]

    def create_group(self, name, track_order=False):
        if name in self.groups:
            raise ValueError("group exists")
        g = new(H5Group, name="/" + name, attrs={}, state=None)
        self.groups[name] = g
        return g

    def keys(self):
        return list(self.groups.keys())

    def flush(self):
        self.flushed = self.flushed + 1

    def close(self):
        self.isopen = False


class OsPath:
    @staticmethod
    def abspath(p):
        return p


class OsStub:
    """os.path.abspath: contract 'some path for the same file' (identity here)"""

    path = OsPath


class ScratchPath:
    """the path of the file in the fast scratch directory; records where the file was moved to"""


def move_contract(src, dst):
    """contract of armi.utils.safeMove: the file now lives at dst; returns dst (recorded on the source path object)"""
    src.moves.append(dst)
    return dst


def h5file():
    return new(H5File, groups={}, attrs={"successfulCompletion": False}, flushed=0, isopen=True)


def database(f, permission="w"):
    return new(Database, _fileName="case.h5", _fullPath=new(ScratchPath, moves=[]), _permission=permission, h5db=f, _openCount=1)


OV = {"armi.bookkeeping.db.database:safeMove": "move_contract", "armi.bookkeeping.db.database:os": "OsStub"}


@lemma(overrides=OV)
def close_marks_completion_and_moves_the_file_home(ok: bool, writing: bool):
    f = h5file()
    db = database(f, "w" if writing else "r")
    moves = db._fullPath.moves
    db.close(ok)
    assert not f.isopen and db.h5db is None and not db.isOpen(), "the file is closed"
    if writing:
        assert f.attrs["successfulCompletion"] == ok, "marked successful exactly when told so"
        assert f.flushed >= 1
        assert moves == ["case.h5"], "moved from the scratch path to the working directory, once"
    else:
        assert f.attrs["successfulCompletion"] == False and moves == [], "a file opened for reading is not touched"
    db.close(True)
    assert len(moves) == (1 if writing else 0), "closing twice does nothing"
    assert f.attrs["successfulCompletion"] == (ok and writing)


@lemma(overrides=OV, gen={"depth": (1, 3), "failAt": (0, 3)})
def nested_contexts_close_once_and_an_exception_marks_failure(depth: int, failAt: int):
    """with db: nested `depth` deep (1..3, enumerated); an exception leaves level `failAt` (0 = none)"""
    depth = choose(depth, 1, 3)
    failAt = choose(failAt, 0, 3)
    assume(failAt <= depth)
    f = h5file()
    db = database(f)  # already open once (as after Database.open)
    moves = db._fullPath.moves
    for k in range(depth):
        assert db.__enter__() is db
    assert db._openCount == depth + 1
    level = depth
    while level >= 1:
        if level == failAt:
            db.__exit__(RuntimeError, RuntimeError("x"), "traceback")
            break
        db.__exit__(None, None, None)
        level = level - 1
    if failAt >= 1:
        assert not f.isopen and f.attrs["successfulCompletion"] == False, "an exception closes at once, marked unsuccessful"
    else:
        assert f.isopen and db._openCount == 1, "inner contexts on an open database leave it open"
        db.__exit__(None, None, None)
        assert not f.isopen and f.attrs["successfulCompletion"] == True, "the outermost clean exit closes it, marked successful"
    assert moves == ["case.h5"]


# ----------------------------------------------------------------------------- a whole (small) run with one injected failure
class TimerCtx:
    def __enter__(self):
        return self

    def __exit__(self, *a):
        return False


class Timer:
    """stand-in for the code-timing collaborator of _interactAll"""

    def getTimer(self, msg):
        return TimerCtx()


class Rec(Interface):
    """an arbitrary other interface: every hook changes the reactor state; raises at its k-th hook call if failAt == k"""

    def _hook(self):
        self.r.state = self.r.state + 1
        self.calls = self.calls + 1
        if self.calls == self.failAt:
            self.r.failState = self.r.state
            self.r.failTime = (self.r.p.cycle, self.r.p.timeNode)
            raise RuntimeError("injected failure")

    def interactBOL(self):
        self._hook()

    def interactBOC(self, cycle=None):
        self._hook()

    def interactEveryNode(self, cycle, node):
        self._hook()

    def interactCoupled(self, iteration):
        self._hook()

    def interactEOC(self, cycle=None):
        self._hook()

    def interactEOL(self):
        if self.name == "a":
            self._hook()  # `c` runs after the database has been finalised: outside the property's window

    def interactError(self):
        self.sawError = True


def write_contract(self, reactor, statePointName=None):
    """contract assumed for Database.writeToDB (Layout / h5py parameter packing): requires an open database; gets or
    creates the group of the reactor's current (cycle, node, label) through the REAL getH5Group; h5py refuses to
    create the same datasets twice; the group then holds the state as of now"""
    if self.h5db is None:
        raise AssertionError("Database must be open before writing.")
    g = self.getH5Group(reactor, statePointName)
    if g.state is not None:
        raise ValueError("h5py: name already exists")
    g.state = reactor.state


def no_report(summary):
    return None


def reference(nCycles, steps, tight, failA, failC, s0, skip=()):
    """independent reading of the property: walk the run; returns (snapshots name -> state, marked successful)"""
    snaps = {}
    state = [s0, 0, 0]  # state, calls of a, calls of c

    def other(which, fail):
        state[0] = state[0] + 1
        state[which] = state[which] + 1
        return state[which] == fail

    def event(write=None):
        if other(1, failA):
            return True
        if write is not None:
            snaps[write] = state[0]
        return other(2, failC)

    failed = event()  # BOL
    last = (0, 0)
    for c in range(nCycles):
        if failed:
            break
        last = (c, 0)
        failed = event()  # BOC
        for n in range(steps[c] + 1):
            if failed:
                break
            last = (c, n)
            name = "c%02dn%02d" % (c, n)
            failed = event(None if tight else name)  # EveryNode
            if tight and not failed:
                if c not in skip:
                    failed = event()  # one Coupled iteration (no couplers: converged at once)
                if not failed:
                    snaps[name] = state[0]  # exempt cycles have no coupled iteration, the node is written all the same
        if not failed:
            failed = event()  # EOC
    if not failed:
        last = (nCycles - 1, steps[nCycles - 1])
        failed = other(1, failA)  # EOL: a, then the database interface finalises
        if not failed:
            snaps["c%02dn%02dEOL" % last] = state[0]
    if failed:
        snaps["c%02dn%02derror" % last] = state[0]
    return snaps, not failed


SHAPES = ((0,), (1,), (0, 0), (0, 1), (1, 0), (1, 1))


def run_with_failure(shape, tight, who, k, s0, pf, t0, skipmask=0):
    shape = choose(shape, 0, 5)
    steps = list(SHAPES[shape])
    nCycles = len(steps)
    # hook calls of interface `a` in a complete run (c has one less: its EOL hook lies after the finalisation)
    skip = [c for c in range(nCycles) if (skipmask >> c) & 1]  # cycles exempt from tight coupling
    callsA = 2 + sum([2 + (steps[c] + 1) * (2 if tight and c not in skip else 1) for c in range(nCycles)])
    k = choose(k, 0, 14)
    assume(k <= callsA - (0 if who else 1))  # k = 0: no failure; larger k never fire
    failA = k if who else 0
    failC = 0 if who else k
    f = h5file()
    db = database(f)
    r = new(Holder, state=s0, failState=None, failTime=None,
            p=new(PMap, cycle=0, timeNode=0, time=0.0, cycleLength=0.0, availabilityFactor=1.0, capacityFactor=0.0, stepLength=0.0),
            core=new(Holder, timeOfStart=t0, p=new(PMap, coupledIteration=0, power=0.0, minutesSinceStart=0.0)))
    cs = {"nCycles": nCycles, "power": 100.0, "powerDensity": 0.0, "verbosity": "info", "debugMem": False, "debugDB": False,
          "deferredInterfaceNames": [], "deferredInterfacesCycle": 0, "tightCoupling": tight, "tightCouplingMaxNumIters": 2,
          "cyclesSkipTightCouplingInteraction": skip, "syncDbAfterWrite": False}
    o = new(Operator, r=r, cs=cs, timer=new(Timer), interfaces=[],
            _cycleLengths=[30.0] * nCycles, _availabilityFactors=[1.0] * nCycles, _burnSteps=steps,
            _powerFractions=[[pf] * max(s, 1) for s in steps], _stepLengths=[[30.0] * max(s, 1) for s in steps])
    flags = dict(_enabled=True, _bolForce=False, reverseAtEOL=False, coupler=None, r=r, cs=cs, o=o)
    a = new(Rec, name="a", calls=0, failAt=failA, sawError=False, **flags)
    c = new(Rec, name="c", calls=0, failAt=failC, sawError=False, **flags)
    dbi = new(DatabaseInterface, _db=db, **flags)
    o.interfaces = [a, dbi, c]
    try:
        with o:
            o.operate()
        raised = False
    except RuntimeError:
        raised = True
    snaps, success = reference(nCycles, steps, tight, failA, failC, s0, skip)
    assert raised == (not success), "the failure propagates out of the run"
    assert f.keys() == list(snaps.keys()), "exactly the snapshots completed before the failure (+ failure / end-of-life state), in write order"
    for name in snaps:
        assert f[name].state == snaps[name], "each snapshot holds the state as of its write"
    assert f.attrs["successfulCompletion"] == success, "marked successful exactly for a completed run"
    assert not f.isopen and db._fullPath == "case.h5", "closed and moved to the working directory in either case"
    if raised:
        assert a.sawError and c.sawError, "every interface gets its error hook"
        assert f["c%02dn%02derror" % r.failTime].state == r.failState, "the error snapshot is the state at the failure"


STUBS = {"armi.bookkeeping.db.database:Database.writeToDB": "write_contract",
         "armi.bookkeeping.report.reportingUtils:writeTightCouplingConvergenceSummary": "no_report"}
GEN = {"shape": (0, 5), "k": (0, 14), "s0": (0, 50), "pf": (0.1, 1.0)}


@lemma(overrides=OV, stubs=STUBS, gen=GEN, timeout=120)
def aborted_run_keeps_completed_snapshots_plus_failure_state(shape: int, who: bool, k: int, s0: int, pf: float, t0: float):
    """shapes enumerated completely: 1..2 cycles x 0..1 burn steps each; the failing hook call = the k-th call (every
    hook call of the run, 0 = never) of the interface before (who = a) or after (c) the database interface; state
    values, power fractions and the clock symbolic.  Loose coupling: the database interface writes in its own
    EveryNode hook"""
    run_with_failure(shape, False, who, k, s0, pf, t0)


@lemma(overrides=OV, stubs=STUBS, gen=GEN, timeout=120)
def aborted_tightly_coupled_run_keeps_completed_snapshots_plus_failure_state(shape: int, who: bool, k: int, s0: int, pf: float, t0: float):
    """as above with tight coupling on: the node is written by the operator after the coupled iterations"""
    run_with_failure(shape, True, who, k, s0, pf, t0)


@lemma(overrides=OV, stubs=STUBS, gen=dict(GEN, skipmask=(1, 3)), timeout=120)
def aborted_or_completed_run_with_cycles_exempt_from_coupling_still_holds_every_node(shape: int, who: bool, k: int, s0: int, pf: float, t0: float, skipmask: int):
    """tight coupling on and a non-empty cyclesSkipTightCouplingInteraction (every non-empty subset of the cycles): the
    nodes of an exempt cycle have no coupled iteration but are written all the same - a completed run holds EVERY node"""
    skipmask = choose(skipmask, 1, 3)
    run_with_failure(shape, True, who, k, s0, pf, t0, skipmask)


# ----------------------------------------------------------------------------- history merge for a restart
class SrcFile(H5File):
    """source database file: items() as h5py (name, group) pairs"""

    def items(self):
        return [(k, self.groups[k]) for k in self.groups.keys()]


class DstFile(H5File):
    def copy(self, group, name):
        """contract of h5py Group.copy(source, name): an identical group under that name; refuses an existing name"""
        key = name[1:] if name[:1] == "/" else name
        if key in self.groups:
            raise ValueError("h5py: destination exists")
        self.groups[key] = new(H5Group, name=name, attrs=dict(group.attrs), state=group.state)


MERGE_GRID = ((0, 0), (0, 1), (0, 2), (1, 0), (1, 1), (2, 0))


@lemma(gen={"mask": (1, 63), "at": (0, 5), "v": (0, 99)})
def merge_copies_exactly_the_steps_before_the_restart_point(mask: int, at: int, v: int, extra: bool):
    """source = any non-empty subset (6-bit mask, enumerated) of six time steps over 3 cycles that contains the restart
    step `at` (enumerated), written in reverse order, plus a non-snapshot group; group contents symbolic"""
    mask = choose(mask, 1, 63)
    at = choose(at, 0, 5)
    assume((mask // 2 ** at) % 2 == 1)
    present = [MERGE_GRID[k] for k in range(6) if (mask // 2 ** k) % 2 == 1]
    src = new(SrcFile, groups={}, attrs={}, flushed=0, isopen=True)
    for k, (c, n) in enumerate(reversed(present)):
        g = src.create_group(dbmod.getH5GroupName(c, n))
        g.state = v + 7 * c + n
    if extra:
        src.create_group("inputs")
    dst = new(DstFile, groups={}, attrs={}, flushed=0, isopen=True)
    inputDB = new(Database, h5db=src, _versionMinor=4, _versionMajor=3)
    db = new(Database, h5db=dst)
    startCycle, startNode = MERGE_GRID[at]
    db.mergeHistory(inputDB, startCycle, startNode)
    want = [(c, n) for (c, n) in present if (c, n) < (startCycle, startNode)]
    assert list(db.genTimeSteps()) == want, "exactly the steps before the restart point, nothing else"
    for c, n in want:
        assert dst[dbmod.getH5GroupName(c, n)].state == v + 7 * c + n, "unchanged"
    assert len(dst.groups) == len(want)


# ----------------------------------------------------------------------------- widened hypotheses (assumption review)
@lemma(gen={"mask": (0, 63), "at": (0, 5), "v": (0, 99)})
def merge_copies_exactly_the_steps_before_any_restart_point(mask: int, at: int, v: int, extra: bool, labelled: bool):
    """the lemma above assumes that the restart step is one of the source's steps (the other case was finding F22,
    repaired since).  Here: ANY subset of the six steps - the empty one too - and ANY of the six as the restart point,
    in the source or not; optionally the source also holds a labelled snapshot (cXXnYYerror) of the restart step
    itself, which is not a step before the restart point either"""
    mask = choose(mask, 0, 63)
    at = choose(at, 0, 5)
    present = [MERGE_GRID[k] for k in range(6) if (mask // 2 ** k) % 2 == 1]
    startCycle, startNode = MERGE_GRID[at]
    src = new(SrcFile, groups={}, attrs={}, flushed=0, isopen=True)
    if labelled:
        src.create_group(dbmod.getH5GroupName(startCycle, startNode, "error")).state = v - 1
    for k, (c, n) in enumerate(reversed(present)):
        g = src.create_group(dbmod.getH5GroupName(c, n))
        g.state = v + 7 * c + n
    if extra:
        src.create_group("inputs")
    dst = new(DstFile, groups={}, attrs={}, flushed=0, isopen=True)
    inputDB = new(Database, h5db=src, _versionMinor=4, _versionMajor=3)
    db = new(Database, h5db=dst)
    db.mergeHistory(inputDB, startCycle, startNode)
    want = [(c, n) for (c, n) in present if (c, n) < (startCycle, startNode)]
    assert list(db.genTimeSteps()) == want, "exactly the steps before the restart point, nothing else"
    for c, n in want:
        assert dst[dbmod.getH5GroupName(c, n)].state == v + 7 * c + n, "unchanged"
    assert len(dst.groups) == len(want)
    assert len(src.groups) == len(present) + (1 if extra else 0) + (1 if labelled else 0), "the source is not changed"
