"""C01 - the remaining Composite mutators keep parent pointers and child lists consistent (concrete shapes, symbolic contents).

removeAll / setChildren / sort (and the Assembly.add / insert overrides) loop over the child list, so they are proved
here on REAL objects of every shape up to the stated size (enumerated completely with choose) instead of on the
unbounded heap of C01_tree.py: root with k <= 3..4 children, a grandchild level, an outsider; location indices symbolic.
Together with the heap lemmas (add / insert / remove for any heap) this covers every mutator of Composite.

Objects: real `Composite` / `Assembly` objects allocated with new() (attributes = what Composite.__init__ sets and the
mutators read), real `IndexLocation` objects built by their real constructor, real `AxialGrid` built by the real
fromNCells.  Stand-ins: `GridStub` (the grid a locator belongs to: only identity and `.armiObject` are read),
`PStub` (parameter collection: plain attributes), `BlockStub` (a block of an assembly: real Composite + the three block
methods Assembly.add calls - getHeight / makeName, with their obvious contracts).
"""
from spec import *

Composite = repo("armi.reactor.composites:Composite")
Assembly = repo("armi.reactor.assemblies:Assembly")
IndexLocation = repo("armi.reactor.grids.locations:IndexLocation")
AxialGrid = repo("armi.reactor.grids.axial:AxialGrid")


class GridStub:
    """the spatial grid of the parent: identity, `.armiObject` and `.isAxialOnly` (False: not a 1-D axial grid) only"""


class PStub:
    """parameter collection stand-in: plain attributes"""


def same_seq(xs, ys):
    if len(xs) != len(ys):
        return False
    for k in range(len(xs)):
        if not same(xs[k], ys[k]):
            return False
    return True


def count_in(seq, x):
    n = 0
    for y in seq:
        if same(x, y):
            n += 1
    return n


def mk_root(k, idx, jj, kk):
    """root (owning a grid) with k children located at (idx[c], jj, kk) in that grid; child 0 has two children of its own"""
    root = new(Composite, name="root", parent=None, _children=[], spatialLocator=None, spatialGrid=None, p=new(PStub))
    grid = new(GridStub, armiObject=root, isAxialOnly=False)
    root.spatialGrid = grid
    cs = []
    for c in range(k):
        o = new(Composite, name="c%d" % c, parent=root, _children=[], spatialGrid=None, p=new(PStub))
        o.spatialLocator = IndexLocation(idx[c], jj, kk, grid)
        root._children.append(o)
        cs.append(o)
    return root, grid, cs


def add_grandchildren(c0, g0, g1):
    sub = new(GridStub, armiObject=c0, isAxialOnly=False)
    c0.spatialGrid = sub
    out = []
    for n, i in (("g0", g0), ("g1", g1)):
        g = new(Composite, name=n, parent=c0, _children=[], spatialGrid=None, p=new(PStub))
        g.spatialLocator = IndexLocation(i, 0, 0, sub)
        c0._children.append(g)
        out.append(g)
    return sub, out


@lemma(gen={"k": (0, 4)})
def removeAll_detaches_every_child_and_nothing_else(k: int, i0: int, i1: int, i2: int, i3: int, jj: int, kk: int):
    """k <= 4 children (+ two grandchildren under child 0, + an outsider)"""
    k = choose(k, 0, 4)
    idx = [i0, i1, i2, i3]
    root, grid, cs = mk_root(k, idx, jj, kk)
    if k > 0:
        sub, gs = add_grandchildren(cs[0], 5, 6)
    outsider = new(Composite, name="out", parent=None, _children=[], spatialGrid=None, p=new(PStub))
    outsider.spatialLocator = IndexLocation(9, 9, 9, grid)
    root.removeAll()
    assert len(root) == 0 and same_seq(list(root), []), "no child is listed any more"
    for c in range(k):
        assert cs[c].parent is None, "an object taken out of the model has no parent"
        assert cs[c].spatialLocator.grid is None, "and a detached location"
        assert cs[c].spatialLocator.i == idx[c] and cs[c].spatialLocator.j == jj and cs[c].spatialLocator.k == kk, "at the same indices"
    if k > 0:
        assert same_seq(list(cs[0]), gs) and same(gs[0].parent, cs[0]) and same(gs[1].parent, cs[0]), "the removed subtree stays intact"
        assert same(gs[0].spatialLocator.grid, sub)
    assert outsider.parent is None and same(outsider.spatialLocator.grid, grid), "frame: others untouched"
    assert root.parent is None


@lemma(gen={"k": (0, 2), "m": (0, 3), "s0": (0, 3), "s1": (0, 3), "s2": (0, 3)})
def setChildren_lists_exactly_the_new_items(k: int, m: int, s0: int, s1: int, s2: int):
    """k <= 2 old children; the new item list has m <= 3 DISTINCT entries drawn from the old children and two fresh
    parentless objects (every selection and order enumerated).  Precondition of the edit history (as for add): an item
    is either parentless or already a child of this object."""
    k = choose(k, 0, 2)
    m = choose(m, 0, 3)
    root, grid, cs = mk_root(k, [0, 1], 0, 0)
    fresh = []
    for f in range(2):
        o = new(Composite, name="f%d" % f, parent=None, _children=[], spatialGrid=None, p=new(PStub))
        o.spatialLocator = IndexLocation(f, 7, 7, None)
        fresh.append(o)
    pool = cs + fresh
    raw = [s0, s1, s2]
    sel = []
    for a in range(m):
        s = choose(raw[a], 0, len(pool) - 1)
        for b in range(a):
            assume(s != sel[b])
        sel.append(s)
    items = [pool[s] for s in sel]
    root.setChildren(items)
    assert same_seq(list(root), items), "the child list is exactly the new items, in their order"
    for x in items:
        assert same(x.parent, root), "and this object is the parent of each of them"
    for c in cs:
        if count_in(items, c) == 0:
            assert c.parent is None and c.spatialLocator.grid is None, "a former child that is not re-added: no parent, detached location"
    for x in pool:
        assert count_in(list(root), x) <= 1, "each child listed once"
    for f in fresh:
        if count_in(items, f) == 0:
            assert f.parent is None, "frame"


@lemma(gen={"k": (0, 2), "m": (2, 3), "s0": (0, 3), "s1": (0, 3), "s2": (0, 3)})
def setChildren_with_a_repeated_item_is_refused_and_leaves_a_well_formed_tree(k: int, m: int, s0: int, s1: int, s2: int):
    """the complement of the lemma above: the new item list NAMES AN ITEM TWICE (every selection with a repetition, m = 2..3
    entries from the old children and two fresh objects).  It cannot be honoured (a parent lists a child once): refused
    loudly (RuntimeError), and what is left is still a well-formed tree - each object listed at most once, the object
    the parent of exactly what it lists, everything else parentless with a detached location."""
    k = choose(k, 0, 2)
    m = choose(m, 2, 3)
    root, grid, cs = mk_root(k, [0, 1], 0, 0)
    fresh = []
    for f in range(2):
        o = new(Composite, name="f%d" % f, parent=None, _children=[], spatialGrid=None, p=new(PStub))
        o.spatialLocator = IndexLocation(f, 7, 7, None)
        fresh.append(o)
    pool = cs + fresh
    raw = [s0, s1, s2]
    sel = [choose(raw[a], 0, len(pool) - 1) for a in range(m)]
    assume(len(set(sel)) < m)
    items = [pool[s] for s in sel]
    try:
        root.setChildren(items)
        refused = False
    except RuntimeError:
        refused = True
    assert refused, "a list that names an item twice is refused"
    now = list(root)
    for x in pool:
        assert count_in(now, x) <= 1, "each child listed once"
        if count_in(now, x) == 1:
            assert same(x.parent, root) and count_in(items, x) >= 1, "listed: its parent is this object, and it was asked for"
        else:
            assert x.parent is None, "not listed: no parent"
    for c in cs:
        if count_in(now, c) == 0:
            assert c.spatialLocator.grid is None, "a former child that is out: detached location"


def key_of(loc):
    return (loc.k, loc.j, loc.i)


def lex_le(a, b):
    """a <= b for (k, j, i) triples, lexicographic"""
    return a[0] < b[0] or (a[0] == b[0] and (a[1] < b[1] or (a[1] == b[1] and a[2] <= b[2])))


@lemma(gen={"k": (0, 3), "i0": (-2, 2), "i1": (-2, 2), "i2": (-2, 2), "j0": (0, 1), "j1": (0, 1), "j2": (0, 1), "g0": (0, 2), "g1": (0, 2)})
def sort_permutes_children_into_location_order(k: int, i0: int, i1: int, i2: int, j0: int, j1: int, j2: int, g0: int, g1: int):
    """k <= 3 children with symbolic (i, j) indices in the parent's grid (+ two grandchildren under child 0):
    sort() leaves a permutation of the same children (each once, same parents), in non-decreasing (k, j, i) order,
    equal locations keep their relative order, and the level below is sorted as well"""
    k = choose(k, 0, 3)
    root = new(Composite, name="root", parent=None, _children=[], spatialLocator=None, spatialGrid=None, p=new(PStub))
    grid = new(GridStub, armiObject=root, isAxialOnly=False)
    root.spatialGrid = grid
    ii, jj = [i0, i1, i2], [j0, j1, j2]
    cs = []
    for c in range(k):
        o = new(Composite, name="c%d" % c, parent=root, _children=[], spatialGrid=None, p=new(PStub))
        o.spatialLocator = IndexLocation(ii[c], jj[c], 0, grid)
        root._children.append(o)
        cs.append(o)
    if k > 0:
        sub, gs = add_grandchildren(cs[0], g0, g1)
    root.sort()
    got = list(root)
    assert len(got) == k
    for c in cs:
        assert count_in(got, c) == 1, "a permutation: every child still listed exactly once"
        assert same(c.parent, root), "parents unchanged"
    for a in range(k - 1):
        assert lex_le(key_of(got[a].spatialLocator), key_of(got[a + 1].spatialLocator)), "non-decreasing (k, j, i) order"
    for a in range(k):
        for b in range(a + 1, k):
            # stability: children with equal locations keep their original relative order
            if same(got[a], cs[1]) and same(got[b], cs[0]):
                assert not (ii[0] == ii[1] and jj[0] == jj[1])
            if k > 2 and same(got[a], cs[2]) and same(got[b], cs[1]):
                assert not (ii[1] == ii[2] and jj[1] == jj[2])
            if k > 2 and same(got[a], cs[2]) and same(got[b], cs[0]):
                assert not (ii[0] == ii[2] and jj[0] == jj[2])
    if k > 0:
        sg = list(cs[0])
        assert len(sg) == 2 and count_in(sg, gs[0]) == 1 and count_in(sg, gs[1]) == 1 and same(gs[0].parent, cs[0]) and same(gs[1].parent, cs[0])
        assert sg[0].spatialLocator.i <= sg[1].spatialLocator.i, "recursively sorted"


# ---------------------------------------------------------------------------------------------- Assembly overrides
class BlockStub(Composite):
    """a block of an assembly: a real Composite plus the block methods Assembly.add calls.
    Contracts: getHeight() = p.height; makeName(assemNum, axialIndex) records the assembly number and returns a name."""

    def getHeight(self):
        return self.p.height

    def makeName(self, assemNum, axialIndex):
        self.p.assemNum = assemNum
        return "B%04d-%03d" % (assemNum, axialIndex)


def mk_block(name, h):
    b = new(BlockStub, name=name, parent=None, _children=[], spatialGrid=None, p=new(PStub, height=h, z=0.0, ztop=0.0, zbottom=0.0, assemNum=0))
    b.spatialLocator = IndexLocation(0, 0, 0, None)
    return b


def mk_assembly(k, hs):
    a = new(Assembly, name="A0007", parent=None, _children=[], spatialLocator=None, p=new(PStub, assemNum=7, type="fuel"))  # type: only read when an error message is formatted
    a.spatialGrid = AxialGrid.fromNCells(k)
    a.spatialGrid.armiObject = a
    bs = []
    for n in range(k):
        b = mk_block("b%d" % n, hs[n])
        b.parent = a
        b.spatialLocator = a.spatialGrid[0, 0, n]
        a._children.append(b)
        bs.append(b)
    return a, bs


def well_located(a, blocks):
    """every listed block has this assembly as parent and sits at (0, 0, position) of the assembly's own grid"""
    ok = same_seq(list(a), blocks) and same(a.spatialGrid.armiObject, a)
    for n in range(len(blocks)):
        loc = blocks[n].spatialLocator
        ok = ok and same(blocks[n].parent, a) and same(loc.grid, a.spatialGrid) and loc.i == 0 and loc.j == 0 and loc.k == n
    return ok


@lemma(gen={"k": (0, 2), "h0": [0.0, 0.5, 3.0, 30.0, -1.0], "h1": [0.0, 0.5, 3.0, 30.0, -1.0], "h2": [0.0, 0.5, 3.0, 30.0]})
def assembly_add_appends_and_relocates_every_block(k: int, h0: float, h1: float, h2: float):
    """Assembly.add on an assembly with k <= 2 blocks of symbolic heights: the block is appended, the assembly is its
    parent, and EVERY block sits at (0, 0, position) of the (re-made) axial grid that belongs to the assembly;
    the axial mesh is the running sum of the block heights"""
    k = choose(k, 0, 2)
    hs = [h0, h1, h2]  # no hypothesis on the heights (zero, negative: the tree clauses do not depend on them)
    a, bs = mk_assembly(k, hs)
    assert well_located(a, bs)
    nb = mk_block("new", hs[k])
    a.add(nb)
    assert well_located(a, bs + [nb]), "child list, parents and block locations agree"
    assert len(a) == k + 1
    bottom = 0.0
    for n in range(k + 1):
        b = (bs + [nb])[n]
        assert eq(b.p.zbottom, bottom) and eq(b.p.ztop, bottom + hs[n]), "stacked bottom-up"
        bottom = bottom + hs[n]
    try:
        a.add(nb)
        again = True
    except RuntimeError:
        again = False
    assert not again and len(a) == k + 1, "adding a block twice is refused"


@lemma(gen={"k": (0, 2), "pos": (0, 2)})
def assembly_insert_links_the_block_at_the_position(k: int, pos: int):
    """Assembly.insert(pos, block), 0 <= pos <= k <= 2: listed at pos, assembly is the parent, location (0, 0, pos) of the
    assembly's grid; the other blocks keep their order and parent"""
    k = choose(k, 0, 2)
    pos = choose(pos, 0, k)
    a, bs = mk_assembly(k, [1.0, 1.0, 1.0])
    nb = mk_block("new", 1.0)
    a.insert(pos, nb)
    assert same_seq(list(a), bs[:pos] + [nb] + bs[pos:]), "inserted at the position, the others keep their order"
    assert same(nb.parent, a) and same(nb.spatialLocator.grid, a.spatialGrid) and nb.spatialLocator.k == pos
    for b in bs:
        assert same(b.parent, a)


# ---------------------------------------------------------------------------------------------- Block overrides
Block = repo("armi.reactor.blocks:Block")


class CompStub(Composite):
    """a component of a block: a real Composite plus getDimension (contract: the stored value of the dimension)"""

    def getDimension(self, name):
        return self.dims[name]


def mk_comp(name, mult, i, grid):
    c = new(CompStub, name=name, parent=None, _children=[], spatialGrid=None, cached={}, p=new(PStub), dims={"mult": mult, "op": 1.0})
    c.spatialLocator = IndexLocation(i, 0, 0, grid)
    return c


@lemma(gen={"k": (0, 2), "which": (0, 2), "mult": (1, 3)})
def block_add_and_remove_keep_parent_and_child_list_in_step(k: int, which: int, mult: int):
    """real Block (generic: no pitch-defining component type) with k <= 2 components: Block.add appends and links,
    refuses a second add; Block.remove(c, recomputeAreaFractions=False) of each possible child detaches exactly it"""
    k = choose(k, 0, 2)
    mult = choose(mult, 1, 3)
    b = new(Block, name="b", parent=None, _children=[], spatialLocator=None, cached={"x": 1.0}, derivedMustUpdate=False,
            _pitchDefiningComponent=(None, 0.0), p=new(PStub, percentBuByPin=None, type="fuel"))
    grid = new(GridStub, armiObject=b, isAxialOnly=False)
    b.spatialGrid = grid
    cs = []
    for n in range(k):
        c = mk_comp("c%d" % n, 1, n, grid)
        c.parent = b
        b._children.append(c)
        cs.append(c)
    nc = mk_comp("new", mult, 9, grid)
    b.add(nc)
    assert same_seq(list(b), cs + [nc]) and same(nc.parent, b), "appended and linked"
    assert len(b.cached) == 0 and b.derivedMustUpdate, "derived state invalidated"
    for c in cs:
        assert same(c.parent, b)
    allc = cs + [nc]
    which = choose(which, 0, k)
    victim = allc[which]
    b.remove(victim, recomputeAreaFractions=False)
    assert same_seq(list(b), allc[:which] + allc[which + 1:]), "exactly the removed component is gone, order kept"
    assert victim.parent is None and victim.spatialLocator.grid is None and victim.spatialLocator.i == (9 if which == k else which), "no parent, detached location"
    for c in allc:
        if not same(c, victim):
            assert same(c.parent, b) and same(c.spatialLocator.grid, grid)


# ---------------------------------------------------------------------------------------------- what new() assumes
class PC0:
    """stand-in for the parameter collection class the metaclass attaches (ArmiObject.paramCollectionType)"""


@lemma
def constructor_establishes_what_the_lemmas_assume():
    """the REAL Composite.__init__ / ArmiObject.__init__ leave a parentless, childless object with empty caches,
    no grid and a detached coordinate location - the attribute values given to new() in the C01 / C16 lemmas.
    Symbolically the metaclass-provided `paramCollectionType` is replaced by the stand-in class PC0."""
    if not NATIVE:
        Composite.paramCollectionType = PC0
    c = Composite("node")
    assert c.parent is None and len(c._children) == 0 and len(c) == 0
    assert len(c.cached) == 0 and c._backupCache is None and c.spatialGrid is None
    assert c.spatialLocator.grid is None
    assert c.name == "node" and len(c.childrenByLocator) == 0
    assert same_seq(c.getChildren(deep=True), [])


# ---------------------------------------------------------------------------------------------- pickle / copy hooks
@lemma(gen={"k": (0, 3)})
def pickling_strips_the_parent_and_unpickling_relinks_the_children(k: int, hasGrid: bool, i0: int, i1: int, i2: int):
    """the two hooks copy.deepcopy / pickle call on every composite (the copy machinery itself is outside the subset):
    __getstate__ hands out the attributes with `parent` cut (the live object keeps its parent) and refuses an object
    holding a reactor reference `r`; __setstate__ on the blank clone, given children that arrive parentless with
    detached locations and a grid without owner, makes the clone the parent of every child, the owner of the grid and
    re-attaches the child locations to that grid.  k <= 3 children, with / without a grid."""
    k = choose(k, 0, 3)
    boss = new(Composite, name="boss", parent=None, _children=[], spatialGrid=None, p=new(PStub))
    root, grid, cs = mk_root(k, [i0, i1, i2], 0, 0)
    root.parent = boss
    boss._children.append(root)
    state = root.__getstate__()
    assert state["parent"] is None, "the pickled state does not reach upwards"
    assert same(root.parent, boss) and same_seq(list(boss), [root]), "the live object keeps its parent"
    assert same(state["_children"], root._children) and same(state["spatialGrid"], grid) and state["name"] == "root"
    assert len(state) == len(root.__dict__), "every attribute is part of the state"
    root.r = boss
    try:
        root.__getstate__()
        refused = False
    except RuntimeError:
        refused = True
    assert refused, "an object holding the whole reactor is not pickled"
    # the receiving side
    kids = []
    idx = [i0, i1, i2]
    for n in range(k):
        c = new(Composite, name="k%d" % n, parent=None, _children=[], spatialGrid=None, p=new(PStub))
        c.spatialLocator = IndexLocation(idx[n], 0, 0, None)
        kids.append(c)
    g2 = new(GridStub, armiObject=None, isAxialOnly=False) if hasGrid else None
    clone = new(Composite)
    clone.__setstate__({"name": "root", "parent": None, "_children": kids, "spatialGrid": g2, "spatialLocator": None, "cached": {}, "p": new(PStub)})
    assert clone.parent is None and clone.name == "root" and same_seq(list(clone), kids), "an equal-shaped subtree whose root is detached"
    for n in range(k):
        assert same(kids[n].parent, clone), "children point at the new parent"
        if hasGrid:
            assert same(kids[n].spatialLocator.grid, g2) and kids[n].spatialLocator.i == idx[n], "their locations belong to the new grid"
    if hasGrid:
        assert same(g2.armiObject, clone), "the grid points at its new owner"
    for c in cs:
        assert same(c.parent, root), "the original is untouched"
