"""C09 - the cross-section libraries ISOTXS / GAMISO (and PMATRX, DLAYXS, COMPXS below): which records exist follows the
header flags, whole-file round trips of small libraries and write(read(file)) == file, through the real readWrite code
(armi/nuclearDataIO/cccc/isotxs.py, gamiso.py, ...), the real IsotxsLibrary / XSNuclide / XSCollection / metadata
classes and the real binary records on the in-memory stream (model A4).

ISOTXS file structure (CCCC-IV, quoted in isotxs.py):
    FILE IDENTIFICATION, FILE CONTROL (1D), FILE DATA (2D)        always
    FILE-WIDE CHI DATA (3D)                                       ICHIST > 1
    repeat for all isotopes:
        ISOTOPE CONTROL AND GROUP INDEPENDENT DATA (4D)           always
        PRINCIPAL CROSS SECTIONS (5D)                             always
        ISOTOPE CHI DATA (6D)                                     ICHI(isotope) > 1
        repeat for all scattering blocks N, all sub-blocks M:
            SCATTERING SUB-BLOCK (7D)                             LORD(N) > 0
Stand-ins are named in each lemma.  Collaborators replaced everywhere: XSNuclide.updateBaseNuclide (a look-up in the
global nuclide directory, no file content involved) by a no-op stub; scipy.sparse by DenseSparse (symbolically; natively
the real scipy.sparse is used, so the cross-check also compares the stand-in with scipy).
"""
import struct

import numpy as np

from spec import *

isotxs = repo("armi.nuclearDataIO.cccc.isotxs")
IsotxsIO = repo("armi.nuclearDataIO.cccc.isotxs:IsotxsIO")
IsotxsNuclideIO = repo("armi.nuclearDataIO.cccc.isotxs:_IsotxsNuclideIO")
GamisoIO = repo("armi.nuclearDataIO.cccc.gamiso:_GamisoIO")
GamisoNuclideIO = repo("armi.nuclearDataIO.cccc.gamiso:_GamisoNuclideIO")
IsotxsLibrary = repo("armi.nuclearDataIO.xsLibraries:IsotxsLibrary")
XSNuclide = repo("armi.nuclearDataIO.xsNuclides:XSNuclide")
NuclideMetadata = repo("armi.nuclearDataIO.nuclearFileMetadata:NuclideMetadata")

F32 = [0.5, -1.25, 3.0, 1024.0, 0.0, 7.0]  # exactly representable in single precision


def no_base_lookup(self):
    """contract assumed for XSNuclide.updateBaseNuclide: touches neither the file nor the cross-section data"""
    return None


STUBS = {"armi.nuclearDataIO.xsNuclides:XSNuclide.updateBaseNuclide": "no_base_lookup"}


# ----------------------------------------------------------------------------- ISOTXS: records of one isotope
class NuclideStub:
    """stand-in for the XSNuclide handed to the nuclide reader/writer: only updateBaseNuclide() is used by rwNuclide
    itself; it records that it ran (it needs the 4D data: it must come after the 4D record)"""

    def updateBaseNuclide(self):
        self.trace.append("base")


class NuclideIOProbe(IsotxsNuclideIO):
    """the real _IsotxsNuclideIO.rwNuclide with the record bodies replaced by a trace"""

    def _rw4DRecord(self):
        self._nuclide.trace.append("4D")

    def _rw5DRecord(self):
        self._nuclide.trace.append("5D")

    def _rw6DRecord(self):
        self._nuclide.trace.append("6D")

    def _rw7DRecord(self, blockNumIndex, subBlock):
        self._nuclide.trace.append(("7D", blockNumIndex, subBlock))


@lemma(gen={"nscmax": (0, 3), "nsblok": (1, 3), "ichi": (0, 3), "l0": (0, 2), "l1": (0, 2), "l2": (0, 2)})
def isotxs_isotope_records_follow_the_flags(nscmax: int, nsblok: int, ichi: int, l0: int, l1: int, l2: int):
    """records of one isotope, for every ICHI and LORD(N) (symbolic) and NSCMAX 0..3 x NSBLOK 1..3 (enumerated): 4D, then
    5D, then the isotope chi record iff ICHI > 1, then one scattering record per (block N, sub-block M) with LORD(N) > 0 -
    blocks outer, sub-blocks inner, nothing else, nothing twice.  Stand-ins: NuclideIOProbe (record bodies -> trace),
    NuclideStub."""
    nscmax, nsblok = choose(nscmax, 0, 3), choose(nsblok, 1, 3)
    assume(ichi >= 0 and l0 >= 0 and l1 >= 0 and l2 >= 0)
    lord = [l0, l1, l2][:nscmax]
    meta = NuclideMetadata()
    meta["chiFlag"], meta["ords"] = ichi, lord
    nuc = new(NuclideStub, trace=[])
    io = new(NuclideIOProbe, _nuclide=nuc, _metadata=meta, _maxScatteringBlocks=nscmax, _subblockingControl=nsblok)
    io.rwNuclide()
    expected = ["4D", "base", "5D"]
    if ichi > 1:
        expected.append("6D")
    for n in range(nscmax):
        for m in range(nsblok):
            if lord[n] > 0:
                expected.append(("7D", n, m))
    assert nuc.trace == expected, "records present exactly as the isotope's flags say, in file order"


# ----------------------------------------------------------------------------- ISOTXS / GAMISO: records of the file
class FileNuclideIOProbe:
    """stand-in for _IsotxsNuclideIO as created by readWrite: records which nuclide object is handled"""

    def __init__(self, nuclide, isotxsIO, lib):
        self.nuclide, self.io = nuclide, isotxsIO

    def rwNuclide(self):
        self.io.trace.append(("nuclide", self.nuclide))


class FileProbeBodies:
    """file-level record bodies replaced by a trace; _rw1DRecord / _rw2DRecord hand back the isotope count / names
    like the real ones: those given when writing, those on the file (attribute onFile) when reading"""

    def _fileID(self):
        self.trace.append("ID")

    def _rw1DRecord(self, numNucs):
        self.trace.append(("1D", numNucs))
        return numNucs if self.onFile is None else len(self.onFile)

    def _rw2DRecord(self, numNucs, nucNames):
        self.trace.append(("2D", numNucs, list(nucNames)))
        return nucNames if self.onFile is None else self.onFile

    def _rw3DRecord(self):
        self.trace.append("3D")

    def _getNuclideIO(self):
        return FileNuclideIOProbe


class IsotxsFileProbe(FileProbeBodies, IsotxsIO):
    """the real IsotxsIO.readWrite over FileProbeBodies"""


class GamisoFileProbe(FileProbeBodies, GamisoIO):
    """the real _GamisoIO (readWrite of IsotxsIO) over FileProbeBodies"""


LABELS = ["U235AA", "FE56AA", "NA23AB"]


@lemma(gen={"niso": (0, 3), "ichist": (0, 3)}, stubs=STUBS)
def isotxs_file_records_follow_the_header(niso: int, ichist: int, gamiso: bool, reading: bool):
    """records of an ISOTXS / GAMISO file for every ICHIST (symbolic) and 0..3 isotopes (enumerated), writing and
    reading: identification, 1D, 2D, the file-wide chi record iff ICHIST > 1, then the records of every isotope of the
    library, once each, in the order of the isotope names of the 2D record; when reading each isotope is entered into the
    library under its name, in that order.  Real: readWrite, IsotxsLibrary, XSNuclide.  Stand-ins: FileProbeBodies,
    FileNuclideIOProbe."""
    niso = choose(niso, 0, 3)
    assume(ichist >= 0)
    lib = IsotxsLibrary()
    made = []
    if reading:
        def get(label):
            n = XSNuclide(lib, label)
            made.append(n)
            return n
    else:
        for k in range(niso):
            lib[LABELS[k]] = XSNuclide(lib, LABELS[k])
            made.append(lib[LABELS[k]])

        def get(label):
            return lib[label]
    meta = lib.gamisoMetadata if gamiso else lib.isotxsMetadata
    meta["fileWideChiFlag"] = ichist
    io = new(GamisoFileProbe if gamiso else IsotxsFileProbe, _lib=lib, _metadata=meta, _fileMode="rb" if reading else "wb",
             _fileName="ISOTXS", _getNuclide=get, trace=[], onFile=LABELS[:niso] if reading else None)
    io.readWrite()
    t = io.trace
    assert t[0] == "ID", "identification first"
    assert t[1] == ("1D", 0 if reading else niso), "file control is given the number of isotopes of the library"
    assert t[2] == ("2D", niso, [] if reading else LABELS[:niso]), "file data: isotope count of the 1D record, names of the library"
    assert (t[3] == "3D" if len(t) > 3 else False) == (ichist > 1), "file-wide chi record iff ICHIST > 1"
    first = 3 + (1 if ichist > 1 else 0)
    assert len(t) == first + niso, "then one set of isotope records per isotope, nothing else"
    for k in range(niso):
        assert t[first + k][0] == "nuclide" and same(t[first + k][1], made[k]), "isotopes in the order of the 2D record"
        assert made[k].nucLabel == LABELS[k][:-2]
    assert lib.nuclideLabels == LABELS[:niso], "the library holds exactly the isotopes of the file, in file order"
    for k in range(niso):
        assert same(lib[LABELS[k]], made[k])
