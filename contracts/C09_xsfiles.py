"""C09 - the cross-section libraries ISOTXS / GAMISO (and PMATRX, DLAYXS, COMPXS below): which records exist follows the
header flags, whole-file round trips of small libraries and write(read(file)) == file, through the real readWrite code
(armi/nuclearDataIO/cccc/isotxs.py, gamiso.py, ...), the real IsotxsLibrary / XSNuclide / XSCollection / metadata
classes and the real binary records on the in-memory stream (model A4).

ISOTXS file structure (CCCC-IV, quoted in isotxs.py):
    FILE IDENTIFICATION, FILE CONTROL (1D), FILE DATA (2D)        always
    FILE-WIDE CHI DATA (3D)                                       ICHIST > 1
    repeat for all isotopes:
        ISOTOPE CONTROL AND GROUP INDEPENDENT DATA (4D)           always
        PRINCIPAL CROSS SECTIONS (5D)                             always
        ISOTOPE CHI DATA (6D)                                     ICHI(isotope) > 1
        repeat for all scattering blocks N, all sub-blocks M:
            SCATTERING SUB-BLOCK (7D)                             LORD(N) > 0
Stand-ins are named in each lemma.  Collaborators replaced everywhere: XSNuclide.updateBaseNuclide (a look-up in the
global nuclide directory, no file content involved) by a no-op stub; scipy.sparse by DenseSparse (symbolically; natively
the real scipy.sparse is used, so the cross-check also compares the stand-in with scipy).
"""
import struct

import numpy as np

from spec import *

isotxs = repo("armi.nuclearDataIO.cccc.isotxs")
IsotxsIO = repo("armi.nuclearDataIO.cccc.isotxs:IsotxsIO")
IsotxsNuclideIO = repo("armi.nuclearDataIO.cccc.isotxs:_IsotxsNuclideIO")
GamisoIO = repo("armi.nuclearDataIO.cccc.gamiso:_GamisoIO")
GamisoNuclideIO = repo("armi.nuclearDataIO.cccc.gamiso:_GamisoNuclideIO")
IsotxsLibrary = repo("armi.nuclearDataIO.xsLibraries:IsotxsLibrary")
BinaryRecordReader = repo("armi.nuclearDataIO.cccc.cccc:BinaryRecordReader")
XSNuclide = repo("armi.nuclearDataIO.xsNuclides:XSNuclide")
NuclideMetadata = repo("armi.nuclearDataIO.nuclearFileMetadata:NuclideMetadata")

F32 = [0.5, -1.25, 3.0, 1024.0, 0.0, 7.0]  # exactly representable in single precision


def no_base_lookup(self):
    """contract assumed for XSNuclide.updateBaseNuclide: touches neither the file nor the cross-section data"""
    return None


STUBS = {"armi.nuclearDataIO.xsNuclides:XSNuclide.updateBaseNuclide": "no_base_lookup"}


# ----------------------------------------------------------------------------- ISOTXS: records of one isotope
class NuclideStub:
    """stand-in for the XSNuclide handed to the nuclide reader/writer: only updateBaseNuclide() is used by rwNuclide
    itself; it records that it ran (it needs the 4D data: it must come after the 4D record)"""

    def updateBaseNuclide(self):
        self.trace.append("base")


class NuclideIOProbe(IsotxsNuclideIO):
    """the real _IsotxsNuclideIO.rwNuclide with the record bodies replaced by a trace"""

    def _rw4DRecord(self):
        self._nuclide.trace.append("4D")

    def _rw5DRecord(self):
        self._nuclide.trace.append("5D")

    def _rw6DRecord(self):
        self._nuclide.trace.append("6D")

    def _rw7DRecord(self, blockNumIndex, subBlock):
        self._nuclide.trace.append(("7D", blockNumIndex, subBlock))


@lemma(gen={"nscmax": (0, 3), "nsblok": (1, 3), "ichi": (0, 3), "l0": (0, 2), "l1": (0, 2), "l2": (0, 2)})
def isotxs_isotope_records_follow_the_flags(nscmax: int, nsblok: int, ichi: int, l0: int, l1: int, l2: int):
    """records of one isotope, for every ICHI and LORD(N) (symbolic) and NSCMAX 0..3 x NSBLOK 1..3 (enumerated): 4D, then
    5D, then the isotope chi record iff ICHI > 1, then one scattering record per (block N, sub-block M) with LORD(N) > 0 -
    blocks outer, sub-blocks inner, nothing else, nothing twice.  Stand-ins: NuclideIOProbe (record bodies -> trace),
    NuclideStub."""
    nscmax, nsblok = choose(nscmax, 0, 3), choose(nsblok, 1, 3)
    assume(ichi >= 0 and l0 >= 0 and l1 >= 0 and l2 >= 0)
    lord = [l0, l1, l2][:nscmax]
    meta = NuclideMetadata()
    meta["chiFlag"], meta["ords"] = ichi, lord
    nuc = new(NuclideStub, trace=[])
    io = new(NuclideIOProbe, _nuclide=nuc, _metadata=meta, _maxScatteringBlocks=nscmax, _subblockingControl=nsblok)
    io.rwNuclide()
    expected = ["4D", "base", "5D"]
    if ichi > 1:
        expected.append("6D")
    for n in range(nscmax):
        for m in range(nsblok):
            if lord[n] > 0:
                expected.append(("7D", n, m))
    assert nuc.trace == expected, "records present exactly as the isotope's flags say, in file order"


# ----------------------------------------------------------------------------- ISOTXS / GAMISO: records of the file
class FileNuclideIOProbe:
    """stand-in for _IsotxsNuclideIO as created by readWrite: records which nuclide object is handled"""

    def __init__(self, nuclide, isotxsIO, lib):
        self.nuclide, self.io = nuclide, isotxsIO

    def rwNuclide(self):
        self.io.trace.append(("nuclide", self.nuclide))


class FileProbeBodies:
    """file-level record bodies replaced by a trace; _rw1DRecord / _rw2DRecord hand back the isotope count / names
    like the real ones: those given when writing, those on the file (attribute onFile) when reading"""

    def _fileID(self):
        self.trace.append("ID")

    def _rw1DRecord(self, numNucs):
        self.trace.append(("1D", numNucs))
        return numNucs if self.onFile is None else len(self.onFile)

    def _rw2DRecord(self, numNucs, nucNames):
        self.trace.append(("2D", numNucs, list(nucNames)))
        return nucNames if self.onFile is None else self.onFile

    def _rw3DRecord(self):
        self.trace.append("3D")

    def _getNuclideIO(self):
        return FileNuclideIOProbe


class IsotxsFileProbe(FileProbeBodies, IsotxsIO):
    """the real IsotxsIO.readWrite over FileProbeBodies"""


class GamisoFileProbe(FileProbeBodies, GamisoIO):
    """the real _GamisoIO (readWrite of IsotxsIO) over FileProbeBodies"""


LABELS = ["U235AA", "FE56AA", "NA23AB"]


@lemma(gen={"niso": (0, 3), "ichist": (0, 3)}, stubs=STUBS)
def isotxs_file_records_follow_the_header(niso: int, ichist: int, gamiso: bool, reading: bool):
    """records of an ISOTXS / GAMISO file for every ICHIST (symbolic) and 0..3 isotopes (enumerated), writing and
    reading: identification, 1D, 2D, the file-wide chi record iff ICHIST > 1, then the records of every isotope of the
    library, once each, in the order of the isotope names of the 2D record; when reading each isotope is entered into the
    library under its name, in that order.  Real: readWrite, IsotxsLibrary, XSNuclide.  Stand-ins: FileProbeBodies,
    FileNuclideIOProbe."""
    niso = choose(niso, 0, 3)
    assume(ichist >= 0)
    lib = IsotxsLibrary()
    made = []
    if reading:
        def get(label):
            n = XSNuclide(lib, label)
            made.append(n)
            return n
    else:
        for k in range(niso):
            lib[LABELS[k]] = XSNuclide(lib, LABELS[k])
            made.append(lib[LABELS[k]])

        def get(label):
            return lib[label]
    meta = lib.gamisoMetadata if gamiso else lib.isotxsMetadata
    meta["fileWideChiFlag"] = ichist
    io = new(GamisoFileProbe if gamiso else IsotxsFileProbe, _lib=lib, _metadata=meta, _fileMode="rb" if reading else "wb",
             _fileName="ISOTXS", _getNuclide=get, trace=[], onFile=LABELS[:niso] if reading else None)
    io.readWrite()
    t = io.trace
    assert t[0] == "ID", "identification first"
    assert t[1] == ("1D", 0 if reading else niso), "file control is given the number of isotopes of the library"
    assert t[2] == ("2D", niso, [] if reading else LABELS[:niso]), "file data: isotope count of the 1D record, names of the library"
    assert (t[3] == "3D" if len(t) > 3 else False) == (ichist > 1), "file-wide chi record iff ICHIST > 1"
    first = 3 + (1 if ichist > 1 else 0)
    assert len(t) == first + niso, "then one set of isotope records per isotope, nothing else"
    for k in range(niso):
        assert t[first + k][0] == "nuclide" and same(t[first + k][1], made[k]), "isotopes in the order of the 2D record"
        assert made[k].nucLabel == LABELS[k][:-2]
    assert lib.nuclideLabels == LABELS[:niso], "the library holds exactly the isotopes of the file, in file order"
    for k in range(niso):
        assert same(lib[LABELS[k]], made[k])


# ----------------------------------------------------------------------------- ISOTXS / GAMISO: whole library through the real records
class Mat:
    """stand-in for a scipy.sparse matrix, held dense: toarray(), eliminate_zeros()"""

    def __init__(self, a):
        self.a = a

    def toarray(self):
        return self.a

    def eliminate_zeros(self):
        return None


if NATIVE:
    import scipy.sparse as DenseSparse

    def matrix(rows):
        return DenseSparse.csr_matrix(np.array(rows))
else:
    class DenseSparse:
        """stand-in for the module scipy.sparse as used by _rw7DRecord: csr_matrix((data, indices, indptr), shape) is
        the matrix with data[k] added at (row r, column indices[k]) for indptr[r] <= k < indptr[r + 1]; an index
        pointer whose length is not rows + 1 is refused (ValueError) as scipy does"""

        @staticmethod
        def csr_matrix(triple, shape):
            data, indices, indptr = triple
            if len(indptr) != shape[0] + 1:
                raise ValueError("index pointer size %d should be %d" % (len(indptr), shape[0] + 1))
            rows = [[0.0 for c in range(shape[1])] for r in range(shape[0])]
            for r in range(shape[0]):
                for k in range(indptr[r], indptr[r + 1]):
                    rows[r][indices[k]] = rows[r][indices[k]] + data[k]
            return Mat(np.array(rows))

    def matrix(rows):
        return Mat(np.array(rows))


OVERRIDES = {"armi.nuclearDataIO.cccc.isotxs:sparse": "DenseSparse"}

# band layouts (JJ, JBAND) per group for 1 and 2 groups: in-group only / with down-scatter / with up- and down-scatter
BANDS = {1: [[(1, 1)]], 2: [[(1, 1), (1, 1)], [(1, 1), (1, 2)], [(2, 2), (1, 2)]]}
SCAT_IDS = [100, 200, 300]            # elastic P0, inelastic, n2n (IDSCT)
SCAT_ATTR = ["elasticScatter", "inelasticScatter", "n2nScatter"]
FILE_KEYS = ["label", "fileId", "numGroups", "maxUpScatterGroups", "maxDownScatterGroups", "maxScatteringOrder", "fileWideChiFlag",
             "maxScatteringBlocks", "subblockingControl", "libraryLabel"]
NUC_STR = ["nuclideId", "libName", "isoIdent"]
NUC_REAL = ["amass", "efiss", "ecapt", "temp", "sigPot", "adens"]
NUC_INT = ["classif", "chiFlag", "fisFlag", "nalph", "np", "n2n", "nd", "nt", "ltot", "ltrn", "strpd"]
VECTORS = ["nGamma", "fission", "neutronsPerFission", "chi", "nalph", "np", "n2n", "nd", "nt"]


def in_band(g, h, band):
    jj, jb = band[g]
    return g + jj - jb <= h and h < g + jj


def xs_library(gamiso, ng, niso, ichist, nscmax, layout, fis, x, w):
    """a library as a reader leaves it / a user builds it: niso isotopes x ng groups, nscmax scattering blocks of order
    1 each with the band layout `layout`, one sub-block; isotope k is fissile iff fis[k]; the first fissile isotope uses
    the file-wide chi vector if there is one (ICHIST = 1), else its own; symbolic reals from x (file) and w (isotopes)"""
    lib = IsotxsLibrary()
    meta = lib.gamisoMetadata if gamiso else lib.isotxsMetadata
    vals = {"label": "ISOTXS", "fileId": 1, "numGroups": ng, "maxUpScatterGroups": 1, "maxDownScatterGroups": 1,
            "maxScatteringOrder": 1, "fileWideChiFlag": ichist, "maxScatteringBlocks": nscmax, "subblockingControl": 1,
            "libraryLabel": "LIB"}
    for key in vals:
        meta[key] = vals[key]
    meta["minimumNeutronEnergy"] = x[0]
    if ichist == 1:
        meta["chi"] = np.array([x[1], x[2]][:ng])
    if gamiso:
        meta["gammaVelocity..NOT"] = np.array([x[3], x[4]][:ng])
        lib.gammaEnergyUpperBounds = np.array([x[5], x[6]][:ng])
    else:
        lib.neutronVelocity = np.array([x[3], x[4]][:ng])
        lib.neutronEnergyUpperBounds = np.array([x[5], x[6]][:ng])
    band = BANDS[ng][layout]
    for k in range(niso):
        nuc = XSNuclide(lib, LABELS[k])
        lib[LABELS[k]] = nuc
        nm = nuc.gamisoMetadata if gamiso else nuc.isotxsMetadata
        mic = nuc.gammaXS if gamiso else nuc.micros
        for key in NUC_STR:
            nm[key] = LABELS[k][:-2]
        for i in range(len(NUC_REAL)):
            nm[NUC_REAL[i]] = w[k][i]
        chiFlag = 1 if (fis[k] and (ichist != 1 or k > 0)) else 0
        flags = {"classif": 2, "chiFlag": chiFlag, "fisFlag": 1 if fis[k] else 0, "nalph": 1, "np": 0, "n2n": 1, "nd": 0, "nt": 0, "ltot": 1,
                 "ltrn": 1, "strpd": k}
        for key in flags:
            nm[key] = flags[key]
        nm["scatFlag"] = np.array(SCAT_IDS[:nscmax])
        nm["ords"] = np.array([1, 0, 1][:nscmax])        # the second block is announced as absent (LORD = 0)
        nm["jband"] = {(g, n): band[g][1] for n in range(nscmax) for g in range(ng)}
        nm["jj"] = {(g, n): band[g][0] for n in range(nscmax) for g in range(ng)}
        mic.transport = np.array([[w[k][6]], [w[k][7]]][:ng])
        mic.total = np.array([[w[k][8]], [w[k][9]]][:ng])
        mic.nGamma = np.array([w[k][10], w[k][11]][:ng])
        if fis[k]:
            mic.fission = np.array([w[k][12], w[k][13]][:ng])
            mic.neutronsPerFission = np.array([w[k][14], w[k][15]][:ng])
            mic.chi = np.array([w[k][16], w[k][17]][:ng]) if chiFlag == 1 else meta["chi"]
        mic.nalph = np.array([w[k][18], w[k][19]][:ng])
        mic.n2n = np.array([w[k][20], w[k][21]][:ng])
        if k > 0:
            mic.strpd = np.array([[w[k][22]], [w[k][23]]][:ng])
        for n in range(nscmax):
            if n != 1:
                rows = [[(w[k][24 + 4 * (n // 2) + 2 * g + h] if in_band(g, h, band) else 0.0) for h in range(ng)] for g in range(ng)]
                setattr(mic, SCAT_ATTR[n], matrix(rows))
    return lib, vals


def xs_io(gamiso, mode, st, lib):
    cls = GamisoIO if gamiso else IsotxsIO
    meta = lib.gamisoMetadata if gamiso else lib.isotxsMetadata
    if "r" in mode:
        get = lambda label: XSNuclide(lib, label)
    else:
        get = lambda label: lib[label]
    return new(cls, _fileName="ISOTXS", _fileMode=mode, _stream=st, _lib=lib, _metadata=meta, _getNuclide=get)


def records_of(niso, nscmax):
    return 3 + niso * (2 + len([n for n in range(nscmax) if n != 1]))


def record_sizes(ng, niso, ichist, nscmax, layout, fis):
    """payload length of every record in file order, from the file structure: 8-character names, 4-byte integers and
    single-precision reals; 4D: 3 names, 6 reals, 11 integers, IDSCT and LORD per block, JBAND and IJJ per block and group;
    5D: transport, total, n-gamma [fission, nu: fissile] [chi: ICHI = 1] n-alpha, n2n [STRPD blocks]; 7D: the band of every
    group, once per order"""
    band = BANDS[ng][layout]
    sizes = [24 + 4, 4 * 8, 96 + 8 * niso + 4 * ((ng if ichist == 1 else 0) + 2 * ng + 1) + 4 * niso]
    for k in range(niso):
        ichi = 1 if (fis[k] and (ichist != 1 or k > 0)) else 0
        sizes.append(3 * 8 + 6 * 4 + 11 * 4 + 2 * 4 * nscmax + 2 * 4 * nscmax * ng)
        sizes.append(4 * ng * (3 + (2 if fis[k] else 0) + ichi + 2 + k))
        for n in range(nscmax):
            if n != 1:
                sizes.append(4 * sum([band[g][1] for g in range(ng)]))
    return sizes


def check_sizes(st, sizes):
    assert st.nwrites() == 3 * len(sizes), "exactly the records the flags announce"
    for r in range(len(sizes)):
        (count,) = struct.unpack("i", st.written(3 * r))
        assert count == sizes[r], "record length as the file structure prescribes"


def read_loca(st, ng, niso, ichist):
    """the isotope record offsets LOCA(I) of the 2D record, read field by field with a real BinaryRecordReader"""
    st.seek(0)
    with BinaryRecordReader(st) as r:
        r.rwString(None, 24)
        r.rwInt(None)
    with BinaryRecordReader(st) as r:
        r.rwList(None, "int", 8)
    with BinaryRecordReader(st) as r:
        r.rwString(None, 96)
        r.rwList(None, "string", niso, 8)
        r.rwList(None, "float", (ng if ichist == 1 else 0) + 2 * ng + 1)
        loca = r.rwList(None, "int", niso)
    return loca


def same_array(a, b):
    fa, fb = a.flatten(), b.flatten()
    return a.shape == b.shape and all([eq(fa[i], fb[i]) for i in range(a.size)])


def check_library(back, lib, vals, gamiso, ng, niso, nscmax, fis, x):
    bm, m = (back.gamisoMetadata, lib.gamisoMetadata) if gamiso else (back.isotxsMetadata, lib.isotxsMetadata)
    for key in FILE_KEYS:
        assert bm[key] == vals[key], "file control entry read back"
    assert eq(bm["minimumNeutronEnergy"], x[0])
    if vals["fileWideChiFlag"] == 1:
        assert same_array(bm["chi"], m["chi"]), "file-wide chi read back"
    else:
        assert bm["chi"] is None
    if gamiso:
        assert same_array(bm["gammaVelocity..NOT"], m["gammaVelocity..NOT"]) and same_array(back.gammaEnergyUpperBounds, lib.gammaEnergyUpperBounds)
    else:
        assert same_array(back.neutronVelocity, lib.neutronVelocity) and same_array(back.neutronEnergyUpperBounds, lib.neutronEnergyUpperBounds)
    assert back.nuclideLabels == LABELS[:niso], "the isotopes of the file, in file order"
    for k in range(niso):
        b, a = back[LABELS[k]], lib[LABELS[k]]
        bn, an = (b.gamisoMetadata, a.gamisoMetadata) if gamiso else (b.isotxsMetadata, a.isotxsMetadata)
        bx, ax = (b.gammaXS, a.gammaXS) if gamiso else (b.micros, a.micros)
        for key in NUC_STR + NUC_INT:
            assert bn[key] == an[key], "isotope control entry read back"
        for key in NUC_REAL:
            assert eq(bn[key], an[key]), "isotope constant read back"
        assert list(bn["scatFlag"]) == list(an["scatFlag"]) and list(bn["ords"]) == list(an["ords"])
        assert bn["jband"] == an["jband"] and bn["jj"] == an["jj"], "band widths and in-group positions read back"
        assert same_array(bx.transport, ax.transport) and same_array(bx.total, ax.total)
        for name in VECTORS:
            if ax[name] is not None:
                assert same_array(bx[name], ax[name]), "principal cross section read back"
            else:
                assert bx[name].shape == (ng,) and all([eq(v, 0.0) for v in bx[name]]), "a cross section the isotope does not have reads as zeros"
        if k > 0:
            assert same_array(bx.strpd, ax.strpd)
        for n in range(nscmax):
            if n != 1:
                assert same_array(bx[SCAT_ATTR[n]].toarray(), ax[SCAT_ATTR[n]].toarray()), "scattering matrix read back"
            else:
                assert bx[SCAT_ATTR[n]] is None, "a block announced as absent is not read"
        for n in range(nscmax, 3):
            assert bx[SCAT_ATTR[n]] is None


G_XS = {"ng": (1, 2), "niso": (1, 2), "ichist": (0, 1), "sc": (0, 3), "fp": (0, 2), "gamiso": [False, True]}
for _k in range(7):
    G_XS["x%d" % _k] = F32
for _k in range(32):
    G_XS["w%d" % _k] = F32
SCAT_CFG = [(0, 0), (1, 0), (2, 1), (3, 2)]   # (NSCMAX, band layout; layout 0 when there is one group only)
FISSILE = [[False, False], [True, False], [True, True]]


@lemma(gen=G_XS, stubs=STUBS, overrides=OVERRIDES)
def isotxs_library_round_trip(ng: int, niso: int, ichist: int, sc: int, fp: int,
                              x0: float, x1: float, x2: float, x3: float, x4: float, x5: float, x6: float,
                              w0: float, w1: float, w2: float, w3: float, w4: float, w5: float, w6: float, w7: float,
                              w8: float, w9: float, w10: float, w11: float, w12: float, w13: float, w14: float, w15: float,
                              w16: float, w17: float, w18: float, w19: float, w20: float, w21: float, w22: float, w23: float,
                              w24: float, w25: float, w26: float, w27: float, w28: float, w29: float, w30: float, w31: float):
    """a whole ISOTXS library written by the real IsotxsIO.readWrite (1D, 2D, and per isotope 4D, 5D, 7D through the real
    _IsotxsNuclideIO) and read back into an empty IsotxsLibrary: the number of records is the one the flags announce; the
    isotope offsets LOCA(I) of the 2D record count the records actually written;
    every file control entry, the group structure, the file-wide chi (ICHIST = 1), and per isotope every 4D entry, band
    layout, principal cross section (fission data iff fissile, chi from the isotope or the file), the STRPD block and
    every announced scattering matrix are read back; absent data read as zeros / None.
    Enumerated: 1..2 groups x 1..2 isotopes x ICHIST 0..1 x (NSCMAX 0 / 1 in-group band / 2 with down-scatter, block 2 with
    LORD = 0 / 3 with up- and down-scatter) x fissile pattern (none / first / both); LORD <= 1 and NSBLOK = 1 (the other
    layouts and the file label are in contracts/pending/C09_xsfiles_finding.py); all reals symbolic (the second isotope
    carries the first one's values + 1)."""
    ng, niso, ichist = choose(ng, 1, 2), choose(niso, 1, 2), choose(ichist, 0, 1)
    nscmax, layout = SCAT_CFG[choose(sc, 0, 3)]
    layout = layout if ng == 2 else 0
    fis = FISSILE[choose(fp, 0, 2)]
    x = [x0, x1, x2, x3, x4, x5, x6]
    w = [w0, w1, w2, w3, w4, w5, w6, w7, w8, w9, w10, w11, w12, w13, w14, w15, w16, w17, w18, w19, w20, w21, w22, w23, w24, w25, w26, w27, w28, w29, w30, w31]
    lib, vals = xs_library(False, ng, niso, ichist, nscmax, layout, fis, x, [w, [v + 1.0 for v in w]])
    st = memstream()
    xs_io(False, "wb", st, lib).readWrite()
    assert st.nwrites() == 3 * records_of(niso, nscmax), "exactly the records the flags announce"
    check_sizes(st, record_sizes(ng, niso, ichist, nscmax, layout, fis))
    loca = read_loca(st, ng, niso, ichist)
    for k in range(niso):
        assert loca[k] == k * (records_of(1, nscmax) - 3), "LOCA(I) = number of records before the records of isotope I"
    st.seek(0)
    back = IsotxsLibrary()
    xs_io(False, "rb", st, back).readWrite()
    # compared with a second library built from the same values (writing may not have changed the first; if it did, that shows here)
    ref, vals = xs_library(False, ng, niso, ichist, nscmax, layout, fis, x, [w, [v + 1.0 for v in w]])
    check_library(back, ref, vals, False, ng, niso, nscmax, fis, x)


G_GAM = {"ng": (1, 2), "niso": (1, 2), "ichist": (0, 1), "sc": (0, 1), "fp": (0, 1)}
for _k in range(7):
    G_GAM["x%d" % _k] = F32
for _k in range(32):
    G_GAM["w%d" % _k] = F32


@lemma(gen=G_GAM, stubs=STUBS, overrides=OVERRIDES)
def gamiso_library_round_trip(ng: int, niso: int, ichist: int, sc: int, fp: int,
                              x0: float, x1: float, x2: float, x3: float, x4: float, x5: float, x6: float,
                              w0: float, w1: float, w2: float, w3: float, w4: float, w5: float, w6: float, w7: float,
                              w8: float, w9: float, w10: float, w11: float, w12: float, w13: float, w14: float, w15: float,
                              w16: float, w17: float, w18: float, w19: float, w20: float, w21: float, w22: float, w23: float,
                              w24: float, w25: float, w26: float, w27: float, w28: float, w29: float, w30: float, w31: float):
    """the same for GAMISO: the real _GamisoIO / _GamisoNuclideIO (gamma velocities and gamma group bounds in the 2D
    record, data in gamisoMetadata / gammaXS): everything written is read back and nothing lands in the neutron data of
    the library.  Enumerated: 1..2 groups x 1..2 isotopes x ICHIST 0..1 x NSCMAX in {0, 3 (up- and down-scatter)} x
    fissile pattern (none / first); reals symbolic."""
    ng, niso, ichist = choose(ng, 1, 2), choose(niso, 1, 2), choose(ichist, 0, 1)
    nscmax, layout = SCAT_CFG[3 * choose(sc, 0, 1)]
    layout = layout if ng == 2 else 0
    fis = FISSILE[choose(fp, 0, 1)]
    x = [x0, x1, x2, x3, x4, x5, x6]
    w = [w0, w1, w2, w3, w4, w5, w6, w7, w8, w9, w10, w11, w12, w13, w14, w15, w16, w17, w18, w19, w20, w21, w22, w23, w24, w25, w26, w27, w28, w29, w30, w31]
    lib, vals = xs_library(True, ng, niso, ichist, nscmax, layout, fis, x, [w, [v + 1.0 for v in w]])
    st = memstream()
    xs_io(True, "wb", st, lib).readWrite()
    assert st.nwrites() == 3 * records_of(niso, nscmax), "exactly the records the flags announce"
    check_sizes(st, record_sizes(ng, niso, ichist, nscmax, layout, fis))
    st.seek(0)
    back = IsotxsLibrary()
    xs_io(True, "rb", st, back).readWrite()
    ref, vals = xs_library(True, ng, niso, ichist, nscmax, layout, fis, x, [w, [v + 1.0 for v in w]])
    check_library(back, ref, vals, True, ng, niso, nscmax, fis, x)
    assert len(back.isotxsMetadata) == 0, "no neutron file data from a gamma file"
    for k in range(niso):
        assert len(back[LABELS[k]].isotxsMetadata) == 0 and back[LABELS[k]].micros.nGamma is None


@lemma(gen=G_XS, stubs=STUBS, overrides=OVERRIDES)
def isotxs_rewrite_of_what_was_read_is_the_same_file(ng: int, niso: int, ichist: int, sc: int, fp: int, gamiso: bool,
                                                     x0: float, x1: float, x2: float, x3: float, x4: float, x5: float, x6: float,
                                                     w0: float, w1: float, w2: float, w3: float, w4: float, w5: float, w6: float, w7: float,
                                                     w8: float, w9: float, w10: float, w11: float, w12: float, w13: float, w14: float, w15: float,
                                                     w16: float, w17: float, w18: float, w19: float, w20: float, w21: float, w22: float, w23: float,
                                                     w24: float, w25: float, w26: float, w27: float, w28: float, w29: float, w30: float, w31: float):
    """write(read(file)) == file for ISOTXS and GAMISO: the library read from a file and written again by the real code
    produces the same sequence of stream writes (leading count, payload fields, trailing count of every record), field
    by field equal bytes - including the banded, reversed scatter rows and the isotope offsets.  Same enumeration as
    isotxs_library_round_trip for ISOTXS; GAMISO with the fissile pattern 'first' only."""
    ng, niso, ichist = choose(ng, 1, 2), choose(niso, 1, 2), choose(ichist, 0, 1)
    nscmax, layout = SCAT_CFG[choose(sc, 0, 3)]
    layout = layout if ng == 2 else 0
    fis = FISSILE[choose(fp, 0, 2)]
    assume(implies(gamiso, fp == 1))  # GAMISO: one fissile pattern (the code paths that differ do not depend on it)
    x = [x0, x1, x2, x3, x4, x5, x6]
    w = [w0, w1, w2, w3, w4, w5, w6, w7, w8, w9, w10, w11, w12, w13, w14, w15, w16, w17, w18, w19, w20, w21, w22, w23, w24, w25, w26, w27, w28, w29, w30, w31]
    lib, vals = xs_library(gamiso, ng, niso, ichist, nscmax, layout, fis, x, [w, [v + 1.0 for v in w]])
    st = memstream()
    xs_io(gamiso, "wb", st, lib).readWrite()
    st.seek(0)
    back = IsotxsLibrary()
    xs_io(gamiso, "rb", st, back).readWrite()
    st2 = memstream()
    xs_io(gamiso, "wb", st2, back).readWrite()
    assert st2.nwrites() == st.nwrites(), "same number of records"
    for k in range(st.nwrites()):
        assert st2.written(k) == st.written(k), "same bytes"


@lemma(gen={"ichist": (0, 3), "ichi": (0, 3), "x0": F32, "w0": F32}, stubs=STUBS, overrides=OVERRIDES)
def isotxs_chi_matrix_records_are_refused_not_skipped(ichist: int, ichi: int, x0: float, w0: float):
    """armi has no body for the file-wide (3D) and isotope (6D) chi MATRIX records: a library that announces one
    (ICHIST > 1 or ICHI > 1) is refused when writing (OSError) - the record is never silently left out of the file; every
    other header (ICHIST, ICHI in 0..1, symbolic) is written.  1 group, 1 non-fissile isotope."""
    assume(0 <= ichist and 0 <= ichi)
    lib, vals = xs_library(False, 1, 1, 0, 0, 0, [False, False], [x0] * 7, [[w0] * 32, [w0] * 32])
    lib.isotxsMetadata["fileWideChiFlag"] = ichist
    lib.isotxsMetadata["chi"] = np.array([1.0])
    lib[LABELS[0]].isotxsMetadata["chiFlag"] = ichi
    lib[LABELS[0]].micros.chi = np.array([1.0])
    st = memstream()
    try:
        xs_io(False, "wb", st, lib).readWrite()
        refused = False
    except OSError:
        refused = True
    assert refused == (ichist > 1 or ichi > 1), "refused iff a chi matrix record is announced"
    if not refused:
        assert st.nwrites() == 3 * 5


G_BAND = {"gamiso": [False, True]}
for _k in range(7):
    G_BAND["x%d" % _k] = F32
for _k in range(32):
    G_BAND["w%d" % _k] = F32


@lemma(gen=G_BAND, stubs=STUBS, overrides=OVERRIDES)
def isotxs_scatter_rows_are_stored_banded_and_reversed(gamiso: bool, x0: float, x1: float, x2: float, x3: float, x4: float, x5: float, x6: float,
                                                       w0: float, w1: float, w2: float, w3: float, w4: float, w5: float, w6: float, w7: float,
                                                       w8: float, w9: float, w10: float, w11: float, w12: float, w13: float, w14: float, w15: float,
                                                       w16: float, w17: float, w18: float, w19: float, w20: float, w21: float, w22: float, w23: float,
                                                       w24: float, w25: float, w26: float, w27: float, w28: float, w29: float, w30: float, w31: float):
    """layout of the scattering sub-block on the file (not only that reader and writer agree): for every sink group J in
    turn, JBAND(J) values, starting with the source group J + IJJ(J) - 1 and descending - read back field by field from
    the 7D record of a file written by the real code (2 groups, one isotope, one block with up- and down-scatter: IJJ =
    (2, 1), JBAND = (2, 2)); the 4D record carries IDSCT, LORD, then JBAND and IJJ for every (block, group)."""
    x = [x0, x1, x2, x3, x4, x5, x6]
    w = [w0, w1, w2, w3, w4, w5, w6, w7, w8, w9, w10, w11, w12, w13, w14, w15, w16, w17, w18, w19, w20, w21, w22, w23, w24, w25, w26, w27, w28, w29, w30, w31]
    lib, vals = xs_library(gamiso, 2, 1, 0, 1, 2, [False, False], x, [w, w])
    st = memstream()
    xs_io(gamiso, "wb", st, lib).readWrite()
    read_loca(st, 2, 1, 0)  # leaves the stream behind the 2D record
    with BinaryRecordReader(st) as r:
        r.rwList(None, "string", 3, 8)
        r.rwList(None, "float", 6)
        r.rwList(None, "int", 11)
        idsct, lord = r.rwInt(None), r.rwInt(None)
        jband = r.rwList(None, "int", 2)
        ijj = r.rwList(None, "int", 2)
    assert idsct == 100 and lord == 1 and list(jband) == [2, 2] and list(ijj) == [2, 1]
    with BinaryRecordReader(st) as r:
        r.rwList(None, "float", 5 * 2)
    with BinaryRecordReader(st) as r:
        band = r.rwList(None, "float", 4)
    m = [[w24, w25], [w26, w27]]  # m[sink][source]
    assert eq(band[0], m[0][1]) and eq(band[1], m[0][0]), "sink group 1: from group 2 (up-scatter), then in-group"
    assert eq(band[2], m[1][1]) and eq(band[3], m[1][0]), "sink group 2: in-group, then from group 1 (down-scatter)"


# ----------------------------------------------------------------------------- ISOTXS: fields of the principal cross section record
class FieldProbe:
    """stand-in for a binary record in writing mode (with-protocol, rwMatrix): notes the shape of every block"""

    def __init__(self):
        self.trace = []

    def __enter__(self):
        return self

    def __exit__(self, a, b, c):
        return None

    def rwMatrix(self, contents, *shape):
        self.trace.append((contents, shape))
        return contents


class RecordSource:
    """stand-in for IsotxsIO as seen by _rw5DRecord: createRecord() hands out the one FieldProbe"""

    def createRecord(self):
        return self.rec


class MicroStub:
    """stand-in for the XSCollection of the isotope: every block is a name (the probe never looks inside);
    getDefaultXs as the real one: the block an isotope does not have"""

    def getDefaultXs(self, numGroups):
        return "default"


@lemma(gen={"ng": (1, 4), "ltrn": (1, 2), "ltot": (1, 2), "ifis": (0, 1), "ichi": (0, 2), "ichist": (0, 1), "ialf": (0, 1), "inp": (0, 1),
            "in2n": (0, 1), "ind": (0, 1), "int_": (0, 1), "istrpd": (0, 2)})
def isotxs_principal_record_fields_follow_the_flags(ng: int, ltrn: int, ltot: int, ifis: int, ichi: int, ichist: int, ialf: int, inp: int,
                                                    in2n: int, ind: int, int_: int, istrpd: int):
    """fields of the PRINCIPAL CROSS SECTIONS (5D) record for EVERY flag combination of the isotope control record (all
    symbolic, nothing enumerated): transport (LTRN x groups), total (LTOT x groups), n-gamma; fission and nu iff IFIS > 0;
    chi iff ICHI = 1; n-alpha, n-p, n-2n, n-d, n-t each iff its flag is set; the directional transport block (ISTRPD x
    groups) iff ISTRPD > 0 - in this order.  A fissile isotope with neither its own nor a file-wide chi vector is refused
    (OSError).  Real _rw5DRecord; stand-ins: FieldProbe, RecordSource, MicroStub."""
    assume(ng >= 1 and ltrn >= 1 and ltot >= 1 and ifis >= 0 and ichi >= 0 and ichist >= 0)
    assume(ialf >= 0 and inp >= 0 and in2n >= 0 and ind >= 0 and int_ >= 0 and istrpd >= 0)
    meta = NuclideMetadata()
    flags = {"ltrn": ltrn, "ltot": ltot, "fisFlag": ifis, "chiFlag": ichi, "nalph": ialf, "np": inp, "n2n": in2n, "nd": ind, "nt": int_, "strpd": istrpd}
    for key in flags:
        meta[key] = flags[key]
    mic = new(MicroStub, transport="transport", total="total", nGamma="nGamma", fission="fission", neutronsPerFission="nu", chi="chi",
              nalph="nalph", np="np", n2n="n2n", nd="nd", nt="nt", strpd="strpd")
    rec = FieldProbe()
    nuc = new(NuclideStub, micros=mic, trace=[])
    io = new(IsotxsNuclideIO, _nuclide=nuc, _metadata=meta, _isotxsIO=new(RecordSource, rec=rec), _numGroups=ng, _fileWideChiFlag=ichist,
             _fileWideChi="file-wide chi")
    try:
        io._rw5DRecord()
        refused = False
    except OSError:
        refused = True
    assert refused == (ifis > 0 and ichi != 1 and ichist != 1), "refused iff fissile without any chi vector"
    expected = [("transport", (ltrn, ng)), ("total", (ltot, ng)), ("nGamma", (ng,))]
    if ifis > 0:
        expected = expected + [("fission", (ng,)), ("nu", (ng,))]
    if ichi == 1:
        expected.append(("chi", (ng,)))
    if not refused:
        for name, flag in [("nalph", ialf), ("np", inp), ("n2n", in2n), ("nd", ind), ("nt", int_)]:
            if flag > 0:
                expected.append((name, (ng,)))
        if istrpd > 0:
            expected.append(("strpd", (istrpd, ng)))
        # what the isotope ends up with: its own blocks where the flags say so, the default (zeros) elsewhere
        assert mic.fission == ("fission" if ifis > 0 else "default") and mic.neutronsPerFission == ("nu" if ifis > 0 else "default")
        assert mic.chi == ("chi" if ichi == 1 else ("file-wide chi" if ifis > 0 else "default"))
        assert mic.nalph == ("nalph" if ialf > 0 else "default") and mic.nt == ("nt" if int_ > 0 else "default")
        assert mic.strpd == ("strpd" if istrpd > 0 else "default")
    assert rec.trace == expected, "fields exactly as the flags announce, in file order"
