"""C05 (last clause) - flag sets keep their meaning through bytes and when the set of defined flags is extended or
re-ordered between writing and reading.

The lemmas run the real armi/utils/flags.py (metaclass `_FlagMeta.__new__`, `Flag.__init__/_flagsOn/__or__/to_bytes/
from_bytes/extend/_registerField/_resolveAutos/sortedFields/width/fields`) and the real
armi/reactor/composites.py `FlagSerializer._packImpl/_unpackImpl/_remapBits/pack/unpack`.  Flag classes are made
with the REAL metaclass: `type(Flag)(name, (Flag,), {field: auto(), ...})` (the engine executes `_FlagMeta.__new__`,
see pyvc/metaclass.py), the real `armi.reactor.flags.Flags` class (66 fields) is used as it is.

A flag set MEANS the set of field names that are on.  The expected names are the harness's own list of the names it
switched on (`subset`), never something read back from the bits.

What is enumerated: the number of fields n (1..10, stated per lemma), the ORDER of the reader's fields (stated per
lemma) and EVERY SUBSET of the n fields (all 2^n flag sets, concrete bits).  Bits are concrete, so the obligations
are discharged by evaluation of the real code inside the engine; for the enumerated sizes and orders this is a
complete proof (there is no other flag set of such a class).

Transport: between pack and unpack the rows go through an HDF5 uint8 dataset and the `flag_order` attribute through
Database._writeAttrs/_resolveAttrs; the harness function `stored` is that transport's contract (same bytes, same list
of names).  The engine's set model iterates in insertion order; CPython's order of a set of strings is arbitrary -
the assertions below are about names only and do not depend on it.
"""
import numpy as np

from spec import *

Flag = repo("armi.utils.flags:Flag")
auto = repo("armi.utils.flags:auto")
FlagSerializer = repo("armi.reactor.composites:FlagSerializer")
Flags = repo("armi.reactor.flags:Flags")

NAMES = ["ALPHA", "B", "CORE", "DUCT", "E", "FUEL", "G", "H", "INNER", "J"]
NEW = ["X1", "X2", "X3"]
CHUNK = 64  # flag sets per pack() call (the comprehension over the data is executed recursively by the engine)


def mk(names):
    """a Flag class with these auto() fields, made by the real metaclass"""
    return type(Flag)("W", (Flag,), {n: auto() for n in names})


def subset(names, mask):
    """the names switched on in flag set number `mask` (bit i of the NUMBER of the subset <-> i-th name of the list)"""
    return [names[i] for i in range(len(names)) if (mask // (2 ** i)) % 2 == 1]


def flag_of(cls, on):
    """the flag set with exactly these names on, built through the class's own fields and `|`"""
    f = cls(0)
    for nm in on:
        f = f | getattr(cls, nm)
    return f


def names_on(f):
    return sorted(f._flagsOn())


def all_sets(cls, names):
    """-> (subs, flags): subs[m] = the names on in flag set number m (= subset(names, m)), flags[m] = that flag set of
    cls, for ALL m < 2^len(names).  Built by doubling: the sets with field i are the sets without it, each `|` the field
    (the real Flag.__or__ on the class's own field objects), so every flag set is made with one `|`."""
    subs, flags = [[]], [cls(0)]
    for nm in names:
        field = getattr(cls, nm)
        subs = subs + [on + [nm] for on in subs]
        flags = flags + [f | field for f in flags]
    return subs, flags


def stored(npa, attrs):
    """transport contract of the dataset + attributes: the same rows of bytes, the same list of names"""
    return npa, {"flag_order": list(attrs["flag_order"])}


def is_power_of_two(v):
    k = 1
    for _ in range(80):
        if k == v:
            return True
        k = k * 2
    return False


def check_class_invariant(cls, names):
    """what every reader / writer below relies on"""
    fields = cls.fields()
    assert sorted(fields.keys()) == sorted(names), "exactly the defined names"
    vals = [fields[nm] for nm in names]
    for v in vals:
        assert is_power_of_two(v), "every field is a single bit"
    assert len(set(vals)) == len(vals), "no two fields share a bit"
    assert cls.width() * 8 >= len(names) and (cls.width() - 1) * 8 < len(names), "width = bytes needed for one bit per field"
    for v in vals:
        assert v < 256 ** cls.width(), "every bit fits into width() bytes"
    srt = cls.sortedFields()
    assert sorted(srt) == sorted(names) and len(srt) == len(names)
    for a in range(len(srt) - 1):
        assert fields[srt[a]] < fields[srt[a + 1]], "sortedFields: by increasing bit"
    for nm in names:
        assert names_on(getattr(cls, nm)) == [nm], "the class attribute of a field is the set holding just that field"


# ----------------------------------------------------------------------------- the class itself
@lemma(gen={"n": (1, 10), "k": (0, 3)})
def every_field_has_its_own_bit_and_the_width_covers_all_of_them(n: int, k: int):
    """n = 1..10 auto() fields, then k = 0..3 more through the real extension API Flag.extend: every field is one bit,
    no bit is shared, width() is the number of bytes needed, the old fields keep their bits, a second class made from
    the same names is not affected (class state is per class)"""
    n = choose(n, 1, 10)
    k = choose(k, 0, 3)
    W = mk(NAMES[:n])
    other = mk(NAMES[:n])
    check_class_invariant(W, NAMES[:n])
    assert W.sortedFields() == NAMES[:n], "auto() fields get their bits in definition order"
    before = dict(W.fields())
    W.extend({nm: auto() for nm in NEW[:k]})
    check_class_invariant(W, NAMES[:n] + NEW[:k])
    for nm in NAMES[:n]:
        assert W.fields()[nm] == before[nm], "extending keeps the existing bits"
    check_class_invariant(other, NAMES[:n])


# ----------------------------------------------------------------------------- bytes
@lemma(gen={"n": (1, 10)})
def every_flag_set_survives_to_bytes_and_from_bytes(n: int):
    """n = 1..10 fields, ALL 2^n flag sets, both byte orders: to_bytes gives width() bytes and from_bytes gives back an
    equal flag set with the same names on"""
    n = choose(n, 1, 10)
    names = NAMES[:n]
    W = mk(names)
    subs, flags = all_sets(W, names)
    assert len(flags) == 2 ** n and subs[2 ** n - 1] == names and subs[1] == names[:1] and sorted(subs[2 ** (n - 1)]) == names[n - 1:]
    for m in (0, 1, 2 ** n - 1, (2 ** n) // 3):
        assert subs[m] == subset(names, m) and flags[m] == flag_of(W, subs[m]), "the table of all sets is what it says"
    bad = []
    for mask in range(2 ** n):
        f = flags[mask]
        if names_on(f) != sorted(subs[mask]):
            bad.append((mask, "made"))
        for order in ("little", "big"):
            b = f.to_bytes(order)
            g = W.from_bytes(b, order)
            if not (len(b) == W.width() and g == f and names_on(g) == sorted(subs[mask])):
                bad.append((mask, order))
        if int(W.from_bytes(f.to_bytes())) != int(f):
            bad.append((mask, "default"))
    assert bad == [], "same flag set, same names, width() bytes"


# ----------------------------------------------------------------------------- pack -> stored -> unpack
def round_trip(writer, wnames, reader, n, lo=0, hi=None):
    """every flag set number lo..hi-1 over the writer's first n names: written by `writer`, read by `reader`.
    -> list of the flag-set numbers whose names came back different (must be empty)"""
    bad = []
    hi = 2 ** n if hi is None else hi
    subs, flags = all_sets(writer, wnames[:n])
    for start in range(lo, hi, CHUNK):
        masks = list(range(start, min(start + CHUNK, hi)))
        data = flags[start:min(start + CHUNK, hi)]
        npa, attrs = FlagSerializer._packImpl(data, writer)
        assert tuple(npa.shape) == (len(masks), writer.width()), "one row of width() bytes per object"
        npa, attrs = stored(npa, attrs)
        back = FlagSerializer._unpackImpl(npa, FlagSerializer.version, attrs, reader)
        assert len(back) == len(masks), "one flag set per object"
        for q in range(len(masks)):
            if not (isinstance(back[q], reader) and names_on(back[q]) == sorted(subs[masks[q]])):
                bad.append(masks[q])
    return bad


@lemma(gen={"n": (1, 10)})
def packed_flag_sets_read_back_with_the_same_names(n: int):
    """writer and reader have the same n = 1..10 fields in the same order: ALL 2^n flag sets through
    _packImpl -> stored -> _unpackImpl"""
    n = choose(n, 1, 10)
    W = mk(NAMES[:n])
    assert round_trip(W, NAMES, W, n) == [], "same names on after the round trip"


def permutations(items):
    """all orders of the items (n! of them)"""
    if len(items) <= 1:
        return [list(items)]
    out = []
    for k in range(len(items)):
        for rest in permutations(items[:k] + items[k + 1:]):
            out.append([items[k]] + rest)
    return out


def permutation(n, p):
    perms = permutations(list(range(n)))
    assert len(perms) == NPERM[n] and len(set(tuple(q) for q in perms)) == NPERM[n], "the enumeration of orders is complete"
    return perms[p]


NPERM = {1: 1, 2: 2, 3: 6, 4: 24}


@lemma(gen={"n": (1, 4), "p": (0, 23), "ins": (-1, 4)})
def reordered_reader_gets_the_same_names_up_to_4_fields(n: int, p: int, ins: int):
    """the reader's class defines the writer's n = 1..4 fields in ANY other order (all n! permutations) and, for
    ins >= 0, one NEW field at position ins (every position 0..n): ALL 2^n flag sets come back with the same names"""
    n = choose(n, 1, 4)
    p = choose(p, 0, NPERM[n] - 1)
    ins = choose(ins, -1, n)
    wnames = NAMES[:n]
    rnames = [wnames[i] for i in permutation(n, p)]
    if ins >= 0:
        rnames = rnames[:ins] + ["X1"] + rnames[ins:]
    W, R = mk(wnames), mk(rnames)
    assert round_trip(W, wnames, R, n) == [], "same names on, whatever the reader's order"
    check_class_invariant(R, rnames)


def reorder(names, how, r):
    """how 0: rotate left by r; 1: reverse, then rotate by r; 2: swap neighbours (2i, 2i+1), then rotate by r"""
    n = len(names)
    if how == 1:
        names = names[::-1]
    elif how == 2:
        names = [names[i + 1] if i % 2 == 0 and i + 1 < n else (names[i - 1] if i % 2 == 1 else names[i]) for i in range(n)]
    return names[r % n:] + names[:r % n]


def big_case(n, how, r, extra):
    wnames = NAMES[:n]
    rnames = reorder(wnames, how, r)
    if extra == 1:
        rnames = ["X1"] + rnames
    elif extra == 2:
        rnames = rnames[:n // 2] + ["X1", "X2"] + rnames[n // 2:] + ["X3"]
    W, R = mk(wnames), mk(rnames)
    assert round_trip(W, wnames, R, n) == [], "same names on, whatever the reader's order"


@lemma(gen={"n": (5, 6), "how": (0, 2), "r": (0, 5), "extra": (0, 2)})
def reordered_and_extended_reader_gets_the_same_names_5_and_6_fields(n: int, how: int, r: int, extra: int):
    """n = 5, 6 fields, ALL 2^n flag sets; reader order = rotation by r (EVERY r = 0..n-1), reversal + rotation,
    neighbour swaps + rotation; extra 0: no new field, 1: one new field in front, 2: three new fields (middle, end)"""
    n = choose(n, 5, 6)
    how = choose(how, 0, 2)
    r = choose(r, 0, n - 1)
    extra = choose(extra, 0, 2)
    big_case(n, how, r, extra)


@lemma(gen={"n": (7, 8), "how": (0, 2), "back": (0, 1), "grow": (0, 1)})
def reordered_and_extended_reader_gets_the_same_names_7_and_8_fields(n: int, how: int, back: int, grow: int):
    """n = 7, 8 fields (a full byte), ALL 2^n flag sets; rotations r in {1, n-1} x the three kinds of re-ordering x
    {no new field, three new fields: the reader then needs two bytes}"""
    n = choose(n, 7, 8)
    how = choose(how, 0, 2)
    r = [1, n - 1][choose(back, 0, 1)]
    extra = [0, 2][choose(grow, 0, 1)]
    big_case(n, how, r, extra)


COMBOS = [(0, 1, 0), (1, 0, 2), (2, 4, 1), (0, 8, 2)]  # (how, r, extra)


@lemma(gen={"c": (0, 3)})
def reordered_and_extended_reader_gets_the_same_names_9_fields(c: int):
    """n = 9 fields (two bytes: the bits cross the byte boundary), ALL 512 flag sets; four reader orders: rotation by 1,
    reversal + three new fields, neighbour swaps rotated by 4 + one new field in front, rotation by 8 + three new"""
    c = choose(c, 0, 3)
    big_case(9, COMBOS[c][0], COMBOS[c][1], COMBOS[c][2])


@lemma(gen={"c": (0, 1)})
def reordered_and_extended_reader_gets_the_same_names_10_fields(c: int):
    """n = 10 fields, ALL 1024 flag sets, the first two of the four reader orders"""
    c = choose(c, 0, 1)
    big_case(10, COMBOS[c][0], COMBOS[c][1], COMBOS[c][2])


@lemma(gen={"c": (2, 3)})
def reordered_and_extended_reader_gets_the_same_names_10_fields_other_orders(c: int):
    """n = 10 fields, ALL 1024 flag sets, the other two reader orders"""
    c = choose(c, 2, 3)
    big_case(10, COMBOS[c][0], COMBOS[c][1], COMBOS[c][2])


@lemma(gen={"n": (1, 10), "many": (0, 1)})
def flags_added_after_writing_do_not_change_what_is_read(n: int, many: int):
    """the file is written, THEN the application's flags are extended through the real API (Flag.extend, k = 1 or 3 new
    fields; with n = 6..8 the width grows from one to two bytes) and the file is read: ALL 2^n flag sets keep their
    names, and none of the new names is on"""
    n = choose(n, 1, 10)
    k = [1, 3][choose(many, 0, 1)]
    names = NAMES[:n]
    W = mk(names)
    subs, flags = all_sets(W, names)
    bad = []
    for start in range(0, 2 ** n, CHUNK):
        masks = list(range(start, min(start + CHUNK, 2 ** n)))
        npa, attrs = stored(*FlagSerializer._packImpl(flags[start:start + CHUNK], W))
        R = mk(names)  # the application at read time: the same definitions ...
        R.extend({nm: auto() for nm in NEW[:k]})  # ... plus a plugin's flags
        back = FlagSerializer._unpackImpl(npa, FlagSerializer.version, attrs, R)
        bad = bad + [m for q, m in enumerate(masks) if names_on(back[q]) != sorted(subs[m])]
    assert bad == [], "same names on; new flags are off"


@lemma(gen={"n": (2, 6), "gone": (1, 7), "p": (0, 2)})
def a_stored_flag_the_reader_does_not_define_is_refused_or_keeps_its_name(n: int, gone: int, p: int):
    """the reader's application lacks some of the stored names (`gone`: any non-empty proper or improper subset of the
    first 3 names, n = 2..6 fields; the remaining ones rotated by p): reading is either refused with an error or every
    flag set comes back with the SAME names (the current code adds the missing names to the reader's class and warns) -
    never with other names and never silently without them"""
    n = choose(n, 2, 6)
    gone = choose(gone, 1, 2 ** min(n, 3) - 1)
    p = choose(p, 0, 2)
    wnames = NAMES[:n]
    missing = [nm for nm in subset(wnames[:3], gone)]
    assert len(missing) > 0
    rest = [nm for nm in wnames if nm not in missing]
    rnames = (rest[p % len(rest):] + rest[:p % len(rest)]) if rest else []
    rnames = rnames + ["X1"]
    W, R = mk(wnames), mk(rnames)
    try:
        bad = round_trip(W, wnames, R, n)
        refused = False
    except (ValueError, KeyError):
        refused = True
        bad = []
        cover("refused")
    assert refused or bad == [], "refused loudly, or the same names"


@lemma(gen={"n": (1, 10)})
def a_file_of_another_serializer_version_is_refused(n: int):
    """rows written under a different FlagSerializer version are not interpreted: ValueError"""
    n = choose(n, 1, 10)
    W = mk(NAMES[:n])
    npa, attrs = stored(*FlagSerializer._packImpl([W(0), flag_of(W, NAMES[:n])], W))
    for version in ("0", "2", "", None):
        try:
            FlagSerializer._unpackImpl(npa, version, attrs, W)
            raised = False
        except ValueError:
            raised = True
        assert raised, "refused, not read as something"


# ----------------------------------------------------------------------------- the bit mapper itself
def shift_map(n, kind, s):
    """kind 0: bit b -> b + s; 1: b -> n - 1 - b + s (reversal); 2: b -> 2 * b + s (spread out)"""
    if kind == 0:
        return {b: b + s for b in range(n)}
    if kind == 1:
        return {b: n - 1 - b + s for b in range(n)}
    return {b: 2 * b + s for b in range(n)}


REMAPS = [(0, 0), (0, 3), (1, 0), (1, 9), (2, 1)]  # (kind, s)


@lemma(gen={"n": (1, 10), "c": (0, 4)})
def remapped_bits_are_exactly_the_images_of_the_bits_that_were_on(n: int, c: int):
    """FlagSerializer._remapBits(inp, mapping) for EVERY inp < 2^n (n = 1..10) and five injective mappings (identity,
    shift by 3, reversal, reversal + shift by 9, spreading b -> 2b + 1): the result has bit mapping[b] on iff bit b of
    inp was on, and no other bit (oracle: the harness's own sum of 2^mapping[b] over the positions that are on, built
    by doubling)"""
    n = choose(n, 1, 10)
    c = choose(c, 0, 4)
    mapping = shift_map(n, REMAPS[c][0], REMAPS[c][1])
    assert len(set(mapping.values())) == n, "injective"
    want = [0]
    for b in range(n):
        want = want + [w + 2 ** mapping[b] for w in want]
    assert want[2 ** n - 1] == sum(2 ** mapping[b] for b in range(n)) and want[1] == 2 ** mapping[0]
    bad = []
    for inp in range(2 ** n):
        if FlagSerializer._remapBits(inp, mapping) != want[inp]:
            bad.append(inp)
    assert bad == []


# ----------------------------------------------------------------------------- the real Flags class
def real_sets(names):
    """every single flag, every pair of neighbours in definition order, the empty and the full set"""
    n = len(names)
    return [[]] + [[nm] for nm in names] + [[names[i], names[i + 1]] for i in range(n - 1)] + [[names[0], names[n - 1]], list(names)]


@lemma(gen={"part": (0, 2)})
def real_flags_round_trip_through_the_public_serializer(part: int):
    """the real armi.reactor.flags.Flags (66 fields, 9 bytes; class made by executing the metaclass on the real class
    body) through the PUBLIC FlagSerializer.pack -> stored -> FlagSerializer.unpack: the empty set, every single flag,
    every pair of neighbouring fields, first+last and the full set (134 sets, in three parts) keep their names"""
    part = choose(part, 0, 2)
    names = Flags.sortedFields()
    assert len(names) == len(Flags.fields()) and len(names) >= 66 and Flags.width() * 8 >= len(names)
    sets = real_sets(names)
    sets = sets[part * 45:(part + 1) * 45]
    data = [flag_of(Flags, on) for on in sets]
    npa, attrs = stored(*FlagSerializer.pack(data))
    assert tuple(npa.shape) == (len(sets), Flags.width())
    back = FlagSerializer.unpack(npa, FlagSerializer.version, attrs)
    assert len(back) == len(sets)
    bad = [q for q in range(len(sets)) if names_on(back[q]) != sorted(sets[q])]
    assert bad == [], "same names on"


def old_file_row(order, on, width):
    """the stored form the serializer documents: little-endian bytes of the number whose bit i is on iff the i-th name
    of the stored flag_order is on"""
    v = sum(2 ** i for i in range(len(order)) if order[i] in on)
    return [(v // (256 ** b)) % 256 for b in range(width)]


REAL_ORDERS = [(0, 1), (0, 33), (1, 0), (2, 7)]  # (how, r)


@lemma(gen={"part": (0, 2), "c": (0, 3)})
def files_written_under_another_order_of_the_real_flags_keep_their_names(part: int, c: int):
    """an "old file" whose flag_order is the real Flags' names in another order (rotation by 1, rotation by 33, reversal,
    neighbour swaps rotated by 7) with rows built by the harness from the documented format, read by the PUBLIC
    FlagSerializer.unpack into today's Flags: the same 134 sets (three parts) come back with the same names.  The
    format itself is tied to pack() by `pack_writes_the_documented_format`."""
    part = choose(part, 0, 2)
    c = choose(c, 0, 3)
    names = Flags.sortedFields()
    order = reorder(names, REAL_ORDERS[c][0], REAL_ORDERS[c][1])
    assert order != names and sorted(order) == sorted(names)
    sets = real_sets(names)[part * 45:(part + 1) * 45]
    rows = np.array([old_file_row(order, on, Flags.width()) for on in sets], dtype=np.uint8)
    back = FlagSerializer.unpack(rows, FlagSerializer.version, {"flag_order": order})
    assert len(back) == len(sets)
    bad = [q for q in range(len(sets)) if names_on(back[q]) != sorted(sets[q])]
    assert bad == [], "same names on"


@lemma(gen={"n": (1, 10)})
def pack_writes_the_documented_format(n: int):
    """what pack() stores is what the hand-built old files assume: flag_order = the names by increasing bit, row = the
    little-endian bytes of the number with bit i on iff the i-th name of flag_order is on (n = 1..10, ALL 2^n sets)"""
    n = choose(n, 1, 10)
    names = NAMES[:n]
    W = mk(names)
    subs, flags = all_sets(W, names)
    bad = []
    for start in range(0, 2 ** n, CHUNK):
        masks = list(range(start, min(start + CHUNK, 2 ** n)))
        npa, attrs = FlagSerializer._packImpl(flags[start:start + CHUNK], W)
        order = list(attrs["flag_order"])
        assert order == names
        for q, m in enumerate(masks):
            if [int(x) for x in npa[q]] != old_file_row(order, subs[m], W.width()):
                bad.append(m)
    assert bad == []


# ----------------------------------------------------------------------------- the engine's models against python / numpy
@lemma(gen={"n": (1, 4)})
def engine_models_agree_with_python_on_what_the_lemmas_use(n: int):
    """cross-check of the trusted models added for these lemmas: every assertion is evaluated by the engine's model
    (symbolic run) and by python / numpy themselves (native run):
    int.to_bytes / int.from_bytes, iteration over bytes, uint8 arrays (reshape, rows, tobytes), a loop over
    itertools.count() left by break, int(obj) through __int__, classes made by calling the metaclass"""
    import itertools

    n = choose(n, 1, 4)
    for v in (0, 1, 255, 256, 513, 65535, 2 ** 24 + 7):
        for order in ("little", "big"):
            try:
                b = v.to_bytes(n, order)
                fits = True
            except OverflowError:
                fits = False
            assert fits == (v < 256 ** n), "OverflowError exactly when the value needs more bytes"
            if fits:
                assert len(b) == n and int.from_bytes(b, order) == v and int.from_bytes(b, byteorder=order) == v
                digits = [(v // (256 ** k)) % 256 for k in range(n)]
                assert list(b) == (digits if order == "little" else digits[::-1]), "iterating bytes yields the base-256 digits"
                assert [q for q in b] == list(b)
    a = np.array([1, 2, 3, 250, 0, 255], dtype=np.uint8).reshape((3, 2))
    assert tuple(a.shape) == (3, 2) and int(a[1][1]) == 250 and a[2].tobytes() == b"\x00\xff" and a.tobytes() == b"\x01\x02\x03\xfa\x00\xff"
    assert [r.tobytes() for r in a] == [b"\x01\x02", b"\x03\xfa", b"\x00\xff"]
    assert int.from_bytes(a[1].tobytes(), byteorder="little") == 3 + 250 * 256
    seen = []
    for k in itertools.count():
        if k * k > 50:
            break
        seen.append(k)
    assert seen == list(range(8))
    W = mk(["P", "Q", "R"])
    assert type(W) is type(Flag) and isinstance(W.Q, W) and isinstance(W.Q, Flag) and not isinstance(Flags.FUEL, W)
    assert int(W.R) == 4 and int(W.P | W.R) == 5 and W["Q"] == W.Q and W.__name__ == "W"
    assert W.fields() == {"P": 1, "Q": 2, "R": 4} and Flag.fields() == {} and Flag.width() == 0 and W._autoAt == 8
    V = mk(["P"])
    assert V.fields() == {"P": 1} and W.fields() is not V.fields() and len(W.fields()) == 3, "class state is per class"
    assert Flags.width() == (len(Flags.fields()) + 7) // 8 and names_on(Flags.FUEL | Flags.CLAD) == ["CLAD", "FUEL"]
    assert Flags["DUCT"] == Flags.DUCT and int(Flags.PRIMARY) == 1 and int(Flags.SECONDARY) == 2


# ----------------------------------------------------------------------------- declaration order is not bit order
def mk_mixed(order, explicit):
    """a Flag class declared in `order`; the names in `explicit` get that explicit bit value, the others auto():
    auto() takes the free bits in declaration order, so the bit order differs from the declaration order while the bit
    values stay gap-free (1, 2, 4, ...)"""
    return type(Flag)("M", (Flag,), {n: (explicit[n] if n in explicit else auto()) for n in order})


MIXED = [(["FUEL", "CLAD"], {"CLAD": 1}), (["X", "Y", "Z"], {"Z": 1}), (["X", "Y", "Z"], {"Y": 1}), (["P", "Q", "R", "S"], {"S": 1, "R": 2})]


@lemma(gen={"c": (0, 3), "r": (0, 3)})
def classes_declared_in_another_order_than_their_bits_keep_their_names(c: int, r: int):
    """Flag classes whose DECLARATION order differs from their bit order (explicit low bits declared last, auto() for the
    rest: gap-free values): every flag set written and read with the same class - and read with a class declaring the
    same fields in yet another way - comes back with the same names (the stored flag_order must describe the bit
    positions the rows are written in)."""
    c = choose(c, 0, 3)
    r = choose(r, 0, 3)
    order, explicit = MIXED[c]
    W = mk_mixed(order, explicit)
    bits = sorted([int(getattr(W, n)) for n in order])
    assert bits == [2 ** k for k in range(len(order))], "gap-free bit values"
    assert round_trip(W, order, W, len(order)) == [], "same class: same names on after the round trip"
    if len(MIXED[r][0]) == len(order):
        order2, explicit2 = MIXED[r]
        if sorted(order2) == sorted(order):
            R = mk_mixed(order2, explicit2)
            assert round_trip(W, order, R, len(order)) == [], "another declaration of the same fields: same names"
    R2 = mk(sorted(order))
    assert round_trip(W, order, R2, len(order)) == [], "an all-auto reader with the same fields: same names"
    assert round_trip(R2, sorted(order), W, len(order)) == [], "and the other way round"
