"""C19 - FINDING (refuted on the unchanged tree; kept out of ./check): a nuclide refused by the directory because its
MCNP id is already taken stays half-registered.

addGlobalNuclide checks name / database name / label BEFORE touching the maps, but the MCNP id only AFTER it has
appended the nuclide to `instances` and stored it in byName / byDBName / byLabel.  Two nuclides of one element whose
mass numbers are 100 apart with states 1 and 2 (U-200m: 200+400, U-100m2: 100+500) share the MCNP id 92600: the
second constructor call raises ValueError, yet the nuclide remains in instances, byName, byDBName, byLabel while
byMcnpId[its id] is the OTHER nuclide, byAAAZZZSId does not know it and its element does not list it.
Property text: 'every nuclide of the directory can be retrieved through each identifier it has, each lookup returns
that same nuclide'.  (No such pair exists in the shipped nuclides.dat; reachable through user-defined nuclides.)

Run: python3-vt -m pyvc.run contracts/pending/C19_ids_finding.py -v
     PYTHONPATH=/repo:contracts /venv/bin/python contracts/native_runner.py cross contracts/pending/C19_ids_finding.py --n 5
"""
from spec import *

nuclideBases = repo("armi.nucDirectory.nuclideBases")
NuclideBase = repo("armi.nucDirectory.nuclideBases:NuclideBase")
Element = repo("armi.nucDirectory.elements:Element")

DIR_INSTANCES = []
DIR_BY_NAME = {}
DIR_BY_DBNAME = {}
DIR_BY_LABEL = {}
DIR_BY_MCNP = {}
DIR_BY_AZS = {}
URANIUM = new(Element, symbol="U", z=92, name="uranium", nuclides=[])
ELEMENTS_BY_NAME = {"uranium": URANIUM}
DIRECTORY = {
    "armi.nucDirectory.nuclideBases:instances": "DIR_INSTANCES", "armi.nucDirectory.nuclideBases:byName": "DIR_BY_NAME",
    "armi.nucDirectory.nuclideBases:byDBName": "DIR_BY_DBNAME", "armi.nucDirectory.nuclideBases:byLabel": "DIR_BY_LABEL",
    "armi.nucDirectory.nuclideBases:byMcnpId": "DIR_BY_MCNP", "armi.nucDirectory.nuclideBases:byAAAZZZSId": "DIR_BY_AZS",
    "armi.nucDirectory.elements:byName": "ELEMENTS_BY_NAME",
}


@lemma(overrides=DIRECTORY)
def a_nuclide_refused_for_its_mcnp_id_leaves_no_trace():
    for d in (DIR_BY_NAME, DIR_BY_DBNAME, DIR_BY_LABEL, DIR_BY_MCNP, DIR_BY_AZS):
        d.clear()
    del DIR_INSTANCES[:]
    URANIUM.nuclides = []
    el = ELEMENTS_BY_NAME["uranium"]
    first = NuclideBase(el, 200, 200.0, 0.0, 1, 1.0)
    assert first.getMcnpId() == "92600"
    try:
        NuclideBase(el, 100, 100.0, 0.0, 2, 1.0)
        refused = False
    except ValueError:
        refused = True
    assert refused, "two nuclides may not share the MCNP id 92600"
    assert len(nuclideBases.instances) == 1, "the refused nuclide is not an instance of the directory"
    assert "U100M2" not in nuclideBases.byName and "nU100m2" not in nuclideBases.byDBName and "U10K" not in nuclideBases.byLabel, "nor retrievable by name / label"
    for n in nuclideBases.instances:
        assert same(nuclideBases.byMcnpId[n.getMcnpId()], n), "each lookup returns that same nuclide"
