"""C07 - locator OBJECTS and cell indices are mutually inverse (the object side of the bijection).

Real code executed: StructuredGrid.__getitem__, LocationBase.__init__ / __getitem__ / __eq__ / __len__ / i / j / k /
grid, IndexLocation.indices / __add__ / __sub__ / detachedCopy / getCompleteIndices.  All integers i, j, k (symbolic):
the locator a grid hands out for (i, j, k) carries exactly these indices and this grid, equals the tuple (i, j, k) and
no other tuple, equals a locator of the SAME grid only for the same indices and never a locator of another grid;
addition and subtraction of index triples are inverse on the indices and give a locator tied to no grid; a detached copy
keeps the indices and drops the grid.  `hash` is not stated here (Python's hash of a tuple is outside the encoding).
"""
import numpy as np

from spec import *

HexGrid = repo("armi.reactor.grids.hexagonal:HexGrid")
IndexLocation = repo("armi.reactor.grids.locations:IndexLocation")


def hexgrid(pitch, cornersUp):
    us = HexGrid._getRawUnitSteps(pitch, cornersUp)
    return new(
        HexGrid,
        _unitSteps=np.array(us),
        _bounds=(None, None, None),
        _stepDims=((0, 1, 2),),
        _boundDims=((),),
        _offset=np.array((0.0, 0.0, 0.0)),
        _unitStepLimits=((-3, 3), (-3, 3), (0, 1)),
        _locations={},
        armiObject=None,
    )


@lemma(gen={"i": (-40, 40), "j": (-40, 40), "k": (-5, 5), "a": (-40, 40), "b": (-40, 40), "c": (-5, 5)})
def a_locator_carries_its_indices_and_its_grid(i: int, j: int, k: int, a: int, b: int, c: int, cornersUp: bool):
    g = hexgrid(1.0, cornersUp)
    h = hexgrid(1.0, cornersUp)
    loc = g[i, j, k]
    assert (loc.i, loc.j, loc.k) == (i, j, k) and loc.grid is g, "the locator for (i, j, k) holds i, j, k and its grid"
    assert len(loc) == 3
    assert (loc[0], loc[1], loc[2]) == (i, j, k) and loc[3] is g
    ind = loc.indices
    assert (ind[0], ind[1], ind[2]) == (i, j, k), "indices are the triple"
    assert loc.getCompleteIndices() == (i, j, k), "in a grid without a parent the complete indices are its own"
    assert g[i, j, k] is loc, "asking again gives the same object"
    assert loc == (i, j, k), "a locator equals its index triple"
    assert (loc == (a, b, c)) == ((a, b, c) == (i, j, k)), "and no other triple"
    other = g[a, b, c]
    assert (loc == other) == ((a, b, c) == (i, j, k)), "locators of one grid are equal exactly for equal indices"
    assert (other is loc) == ((a, b, c) == (i, j, k)), "one object per cell"
    foreign = h[i, j, k]
    assert not (loc == foreign), "a locator of another grid is never equal, even with equal indices"


@lemma(gen={"i": (-40, 40), "j": (-40, 40), "k": (-5, 5), "a": (-40, 40), "b": (-40, 40), "c": (-5, 5)})
def adding_and_subtracting_index_triples_are_inverse(i: int, j: int, k: int, a: int, b: int, c: int, cornersUp: bool):
    g = hexgrid(1.0, cornersUp)
    loc = g[i, j, k]
    that = g[a, b, c]
    s = loc + that
    assert (s.i, s.j, s.k) == (i + a, j + b, k + c) and s.grid is None, "sum of the indices, tied to no grid"
    s2 = loc + (a, b, c)
    assert (s2.i, s2.j, s2.k) == (i + a, j + b, k + c) and s2.grid is None, "a plain triple adds the same way"
    d = s - that
    assert (d.i, d.j, d.k) == (i, j, k) and d.grid is None, "subtraction undoes addition"
    d2 = (loc - that) + that
    assert (d2.i, d2.j, d2.k) == (i, j, k)
    assert (loc.i, loc.j, loc.k, that.i, that.j, that.k) == (i, j, k, a, b, c), "the operands are untouched"
    assert loc.grid is g and that.grid is g
    z = loc + (0, 0, 0)
    assert z == (i, j, k) and z is not loc, "adding the zero basis copies"


@lemma(gen={"i": (-40, 40), "j": (-40, 40), "k": (-5, 5)})
def a_detached_copy_keeps_the_indices_and_drops_the_grid(i: int, j: int, k: int, cornersUp: bool):
    g = hexgrid(1.0, cornersUp)
    loc = g[i, j, k]
    cp = loc.detachedCopy()
    assert cp is not loc and cp.grid is None and (cp.i, cp.j, cp.k) == (i, j, k)
    assert cp == (i, j, k)
    assert not (cp == loc), "equality of locators includes the grid"
    assert loc.grid is g and g[i, j, k] is loc, "the original stays in its grid"
    assert isinstance(cp, IndexLocation)


MultiIndexLocation = repo("armi.reactor.grids.locations:MultiIndexLocation")


@lemma(gen={"i": (-40, 40), "j": (-40, 40), "k": (-5, 5), "a": (-40, 40), "b": (-40, 40), "c": (-5, 5)})
def a_list_of_index_triples_gives_the_locators_of_these_cells_in_order(i: int, j: int, k: int, a: int, b: int, c: int, cornersUp: bool):
    """grid[[t1, t2]] (the locator of a component with multiplicity 2): a MultiIndexLocation of this grid whose members
    are THE locators of the two cells (one object per cell), in the order given; `indices` lists the two triples;
    a detached copy keeps both triples in order, drops the grid from the collection and from every member, and leaves the
    original attached; associate(grid) ties the collection and every member to the grid."""
    g = hexgrid(1.0, cornersUp)
    h = hexgrid(1.0, cornersUp)
    m = g[[(i, j, k), (a, b, c)]]
    assert isinstance(m, MultiIndexLocation) and m.grid is g and len(m) == 2
    assert m[0] is g[i, j, k] and m[1] is g[a, b, c], "the members are the grid's locators of these cells, in order"
    ind = m.indices
    assert len(ind) == 2
    assert (ind[0][0], ind[0][1], ind[0][2]) == (i, j, k) and (ind[1][0], ind[1][1], ind[1][2]) == (a, b, c)
    n = 0
    for loc in m:
        assert loc.grid is g
        n += 1
    assert n == 2
    cp = m.detachedCopy()
    assert cp is not m and cp.grid is None and len(cp) == 2
    assert (cp[0].i, cp[0].j, cp[0].k) == (i, j, k) and (cp[1].i, cp[1].j, cp[1].k) == (a, b, c)
    assert cp[0].grid is None and cp[1].grid is None, "every member is detached too"
    assert cp[0] is not m[0] and cp[1] is not m[1]
    assert m.grid is g and m[0].grid is g and m[1].grid is g and len(m) == 2, "the original stays attached"
    cp.associate(h)
    assert cp.grid is h and cp[0].grid is h and cp[1].grid is h, "associate ties the collection and its members"
    assert (cp[0].i, cp[0].j, cp[0].k) == (i, j, k) and (cp[1].i, cp[1].j, cp[1].k) == (a, b, c)
    assert m[0].grid is g and m[1].grid is g


def hexdist(i, j):
    return max(abs(i), abs(j), abs(i + j))


@lemma(gen={"ring": (1, 40), "pos": (1, 240), "k": (-5, 5)})
def ring_and_position_lead_to_the_locator_and_back(ring: int, pos: int, k: int, cornersUp: bool):
    """(ring, position, k) -> locator object -> (ring, position): getLocatorFromRingAndPos hands out THE locator of the
    cell getIndicesFromRingAndPos names (axial index k), and the locator's own getRingPos reads (ring, position) back;
    the cell lies ring - 1 hex steps from the centre.  All rings >= 1 and all positions the ring has."""
    assume(ring >= 1)
    assume(1 <= pos)
    assume(pos <= (1 if ring == 1 else 6 * (ring - 1)))
    g = hexgrid(1.0, cornersUp)
    loc = g.getLocatorFromRingAndPos(ring, pos, k)
    i, j = g.getIndicesFromRingAndPos(ring, pos)
    assert (loc.i, loc.j, loc.k) == (i, j, k) and loc.grid is g
    assert loc is g[i, j, k], "the grid's one locator of that cell"
    assert hexdist(loc.i, loc.j) == ring - 1
    assert loc.getRingPos() == (ring, pos), "the locator reads its ring and position back"


@lemma(gen={"i": (-40, 40), "j": (-40, 40), "k": (-5, 5)})
def a_locator_reads_its_ring_and_position_and_leads_back_to_itself(i: int, j: int, k: int, cornersUp: bool):
    """locator object -> (ring, position) -> locator object, for ALL integer indices"""
    g = hexgrid(1.0, cornersUp)
    loc = g[i, j, k]
    ring, pos = loc.getRingPos()
    assert ring == hexdist(i, j) + 1, "ring = hex distance + 1"
    assert 1 <= pos and pos <= (1 if ring == 1 else 6 * (ring - 1))
    assert g.getLocatorFromRingAndPos(ring, pos, k) is loc, "ring and position name the same locator object"
    up, down = g.getAboveAndBelowCellIndices((i, j, k))
    assert up == (i, j, k + 1) and down == (i, j, k - 1), "the axial neighbours are one index above and below"


AxialGrid = repo("armi.reactor.grids.axial:AxialGrid")


@lemma(gen={"n": (1, 5)})
def a_unit_axial_grid_has_one_centimetre_cells(n: int):
    """AxialGrid.fromNCells(n), n = 1..5 enumerated: n + 1 bounds 0, 1, .., n (floats - integers would truncate the
    midpoints); cell k has base k, top k + 1 and centre k + 1/2; the grid is axial-only, getBounds returns what the
    constructor stored, and the locator of cell k carries (0, 0, k)."""
    n = choose(n, 1, 5)
    g = AxialGrid.fromNCells(n)
    assert g.isAxialOnly
    assert len(g) == n + 1
    b = g.getBounds()
    assert b[0] is None and b[1] is None and len(b[2]) == n + 1
    for k in range(n):
        assert eq(b[2][k], k) and eq(b[2][k + 1], k + 1)
        assert eq(g.getCellBase((0, 0, k))[2], k)
        assert eq(g.getCellTop((0, 0, k))[2], k + 1)
        assert eq(g.getCoordinates((0, 0, k))[2], k + 0.5), "the centre is the midpoint, not a truncated integer"
        loc = g[0, 0, k]
        assert (loc.i, loc.j, loc.k) == (0, 0, k) and loc.grid is g
        assert eq(loc.getLocalCoordinates()[2], k + 0.5)


@lemma(gen={"pitch": (0.05, 40.0), "i": (-40, 40), "j": (-40, 40), "k": (0, 4)})
def locator_distance_to_each_neighbour_is_one_pitch(i: int, j: int, k: int, pitch: float, cornersUp: bool):
    """the same geometric fact through the locator OBJECTS: IndexLocation.distanceTo between the locator of a cell
    and the locator of each of its six listed neighbours is the pitch, the distance to itself is zero and the distance is
    symmetric (distanceTo goes through getGlobalCoordinates of both locators)"""
    assume(pitch > 0)
    g = hexgrid(pitch, cornersUp)
    loc = g[i, j, k]
    d0 = loc.distanceTo(loc)
    assert eq(d0 * d0, 0.0)
    for n in g.getNeighboringCellIndices(i, j, k):
        other = g[n]
        d = loc.distanceTo(other)
        assert d >= 0
        assert eq(d * d, pitch * pitch), "a listed neighbour is one pitch away"
        d2 = other.distanceTo(loc)
        assert eq(d2 * d2, d * d), "distance is symmetric"


Composite = repo("armi.reactor.composites:Composite")
CoordinateLocation = repo("armi.reactor.grids.locations:CoordinateLocation")


@lemma(gen={"pitch": (0.05, 40.0), "i": (-40, 40), "j": (-40, 40), "k": (0, 4)})
def locator_distance_is_taken_between_global_positions(i: int, j: int, k: int, pitch: float, cornersUp: bool, rx: float, ry: float, rz: float):
    """the grid is anchored to an object that sits at the free coordinate (rx, ry, rz) of its parent: both locators are
    displaced by the same vector, so the distance to each listed neighbour is still one pitch - for every displacement
    (a distance mixing a global with a local position would depend on rx, ry, rz)"""
    assume(pitch > 0)
    reactor = new(Composite, parent=None, spatialLocator=None)
    core = new(Composite, parent=reactor)
    core.spatialLocator = CoordinateLocation(rx, ry, rz, None)
    g = hexgrid(pitch, cornersUp)
    g.armiObject = core
    g._isAxialOnly = False
    loc = g[i, j, k]
    c = loc.getGlobalCoordinates()
    lc = loc.getLocalCoordinates()
    assert eq(c[0], lc[0] + rx) and eq(c[1], lc[1] + ry) and eq(c[2], lc[2] + rz), "global = local + the anchor's position"
    for n in g.getNeighboringCellIndices(i, j, k):
        other = g[n]
        d = loc.distanceTo(other)
        assert d >= 0 and eq(d * d, pitch * pitch), "one pitch away whatever the displacement of the grid"


@lemma(gen={"i": (-40, 40), "j": (-40, 40), "k": (-5, 5), "a": (-40, 40), "b": (-40, 40), "c": (-5, 5)})
def the_grid_lists_exactly_the_locators_it_handed_out(i: int, j: int, k: int, a: int, b: int, c: int, cornersUp: bool):
    """StructuredGrid.items(): the (index triple, locator) pairs of the locators handed out so far - each cell once
    (asking twice for one cell adds nothing), every triple paired with THE locator of that cell; a list request adds its
    member cells and nothing for the collection itself."""
    g = hexgrid(1.0, cornersUp)
    assert len(list(g.items())) == 0
    loc = g[i, j, k]
    other = g[a, b, c]
    again = g[i, j, k]
    pairs = list(g.items())
    same_cell = (a, b, c) == (i, j, k)
    assert len(pairs) == (1 if same_cell else 2), "one entry per cell"
    for key, val in pairs:
        assert (val.i, val.j, val.k) == key and val.grid is g, "every triple is paired with the locator of that cell"
        assert val is loc or val is other
    assert pairs[0][1] is loc and (same_cell or pairs[1][1] is other), "in the order of first request"
    m = g[[(i, j, k), (a, b, c)]]
    assert len(list(g.items())) == len(pairs), "a multi-index locator of known cells adds nothing"
