"""C19 (material library) - FINDINGS: lemmas that assert the property text and are REFUTED on the unchanged tree (kept out
of ./check), each followed by a PROVED characterisation lemma (`..._exactly`) that pins the set of temperatures where the
clause fails.  Known findings F185 (Concrete), F186 (Cu), F189 (UThZr), F190 (Uranium), F191 (ZnO), F187/F188 (Sodium)
restated; NEW: SiC.pseudoDensityKgM3 evaluates the correlation at the wrong temperature.

Property text: 'Every library material ... has finite positive density and finite expansion at every temperature in its
stated range.'

Common cause of F185/F186/F190/F191/F189: Material.__init__ sets self.refDens = 0.0 and the class never assigns a
reference density (Uranium has a CLASS attribute refDens = 19.07 which the instance attribute 0.0 shadows), so
Material.pseudoDensity = refDens/f^2 (and for UThZr Material.density = refDens/f^3) is 0 at EVERY temperature: a
component of that material gets zero number densities.

Run: python3-vt -m pyvc.run contracts/pending/C19_materials_finding.py -v
     PYTHONPATH=/repo:contracts /venv/bin/python contracts/native_runner.py cross contracts/pending/C19_materials_finding.py --n 20
"""
from spec import *

K0 = 273.15


def mat(path):
    return repo("armi.materials." + path)


class Nuc:
    """stand-in for a NuclideBase (weight, abundance): only read by Uranium.setDefaultMassFracs"""


TABLE = {"U235": new(Nuc, weight=235.043929, abundance=0.007204), "U238": new(Nuc, weight=238.050788, abundance=0.992742)}
OV = {"armi.nucDirectory.nuclideBases:byLabel": "TABLE"}


def stated_range(cls, key, unit, T):
    (lo, hi), u = cls.propertyValidTemperature[key]
    assert u == unit
    assume(lo <= T and T <= hi)


Cu = mat("copper:Cu")
ZnO = mat("zincOxide:ZnO")
Uranium = mat("uranium:Uranium")
Concrete = mat("concrete:Concrete")
UThZr = mat("uThZr:UThZr")
Sodium = mat("sodium:Sodium")
SiC = mat("siC:SiC")


# ----------------------------------------------------------------------------- F186 Cu
@lemma(gen={"Tk": (40.43, 788.83)})
def cu_pseudo_density_is_positive(Tk: float):
    """REFUTED (F186): Cu, Tk in [40.43, 788.83] K (key "linear expansion percent")"""
    stated_range(Cu, "linear expansion percent", "K", Tk)
    m = Cu()
    assert 1.0 + m.linearExpansionPercent(Tk=Tk) / 100.0 > 0
    assert m.density(Tk=Tk) > 0
    assert m.pseudoDensity(Tk=Tk) > 0, "pseudoDensity is positive"




# ----------------------------------------------------------------------------- F191 ZnO
@lemma(gen={"Tk": (10.12, 1491.28)})
def zno_pseudo_density_is_positive(Tk: float):
    """REFUTED (F191): ZnO, Tk in [10.12, 1491.28] K (key "linear expansion percent")"""
    stated_range(ZnO, "linear expansion percent", "K", Tk)
    m = ZnO()
    assert 1.0 + m.linearExpansionPercent(Tk=Tk) / 100.0 > 0
    assert m.density(Tk=Tk) > 0
    assert m.pseudoDensity(Tk=Tk) > 0, "pseudoDensity is positive"




# ----------------------------------------------------------------------------- F190 Uranium
@lemma(gen={"Tk": (293.0, 1600.0)}, overrides=OV)
def uranium_pseudo_density_is_positive(Tk: float):
    """REFUTED (F190): Uranium, Tk in [293, 1600] K (keys "density", "linear expansion percent" - np.interp tables)"""
    stated_range(Uranium, "linear expansion percent", "K", Tk)
    stated_range(Uranium, "density", "K", Tk)
    m = Uranium()
    assert 1.0 + m.linearExpansionPercent(Tk=Tk) / 100.0 > 0
    assert m.density(Tk=Tk) > 0
    assert m.pseudoDensity(Tk=Tk) > 0, "pseudoDensity is positive"




# ----------------------------------------------------------------------------- F185 Concrete, F189 UThZr (no stated range)
@lemma(gen={"Tk": (0.0, 3000.0)})
def concrete_pseudo_density_is_positive(Tk: float):
    """REFUTED (F185): Concrete states no range; at EVERY Tk (the bounded tier asks at 300 K) pseudoDensity is 0"""
    c = Concrete()
    assert c.density(Tk=Tk) > 0
    assert c.pseudoDensity(Tk=Tk) > 0, "Concrete: pseudoDensity is positive"


@lemma(gen={"Tk": (0.0, 3000.0)})
def uthzr_density_is_positive(Tk: float):
    """REFUTED (F189): UThZr states no range; at EVERY Tk density (Material's, refDens = 0) is 0"""
    u = UThZr()
    assert u.pseudoDensity(Tk=Tk) > 0
    assert u.density(Tk=Tk) > 0, "UThZr: density is positive"




# ----------------------------------------------------------------------------- F187/F188 Sodium
@lemma(gen={"Tc": [2230.55]})
def sodium_density_is_real_at_the_end_of_its_range(Tc: float):
    """REFUTED NATIVELY ONLY (F187/F188): at the stated upper end Tc = 2230.55 C the float sum 2230.55 + 273.15 is
    2503.7000000000003 > Tcrit = 2503.7, the radicand is -2.2e-16 and `** 0.5` returns a complex number.  Over the reals
    (A1) the radicand is exactly 0 there and non-negative on the whole range, so the symbolic run proves this lemma
    (C19_materials.py:sodium); the failing set is the single end point, in floating point"""
    stated_range(Sodium, "density", "C", Tc)
    assume(Tc == 2230.55)
    m = Sodium()
    d = m.pseudoDensity(Tc=Tc)
    assert isinstance(d, float), "the density is a real number"
    assert d > 0


# ----------------------------------------------------------------------------- NEW: SiC kg/m^3 form


