"""C09 - GEODST: whole-file write-then-read round trip and 'writing what was read reproduces the file' through the real
GeodstStream.readWrite, every real record body (_rwFileID, _rw1DRecord .. _rw7DRecord) and the real binary record
classes on the in-memory stream (model A4).  Which records exist for which header is the lemma
geodst_records_follow_the_header in C09_cccc.py (every header); here the records carry data.

Shapes are enumerated with choose (stated per lemma); mesh coordinates, volumes, bucklings, boundary constants are
symbolic reals, interval counts / zone numbers / region numbers symbolic integers (within the 4-byte / 2-byte integer
range of the file format and of the int16 region arrays).
"""
import struct

import numpy as np

from spec import *

geodst = repo("armi.nuclearDataIO.cccc.geodst")
GeodstStream = repo("armi.nuclearDataIO.cccc.geodst:GeodstStream")
GeodstData = repo("armi.nuclearDataIO.cccc.geodst:GeodstData")

F32 = [0.5, -1.25, 3.0, 1024.0, 0.0, 7.0]  # exactly representable in single precision
IGOMS = [0, 1, 3, 6, 11, 12, 18]   # 0-d, 1-d (2D record), 2-d (3D record), 3-d (4D record) geometries: both ends of each range
I16 = (-99, 99)
MESHES = [(1, 1, 1), (2, 1, 2), (1, 2, 2), (2, 2, 1)]  # (NCINTI, NCINTJ, NCINTK)


def stream(mode, st, data):
    return new(GeodstStream, _fileName="GEODST", _fileMode=mode, _stream=st, _data=data, _metadata=data.metadata)


def in_int16(vals):
    return all([-32768 <= v and v <= 32767 for v in vals])


def geodst_data(igom, nrass, nbs, nci, ncj, nck, x, ints, reals, regs):
    """a GeodstData as a user (or the reader) fills it: NCINTI x NCINTJ x NCINTK coarse meshes with 1 fine mesh each
    in i, 2 in j, 1 in k; NREG = 2 regions, NZONE = 1, NBCS = 1, NIBCS = 0, NZWBB = 1"""
    d = GeodstData()
    d.metadata["label"] = "GEODST"
    for key in geodst.FILE_SPEC_1D_KEYS:
        d.metadata[key] = 0
    head = {"IGOM": igom, "NZONE": 1, "NREG": 2, "NZCL": 1, "NCINTI": nci, "NCINTJ": ncj, "NCINTK": nck,
            "NINTI": nci, "NINTJ": 2 * ncj, "NINTK": nck, "IMB1": ints[0], "KMB2": ints[1], "NBS": nbs, "NBCS": 1, "NIBCS": 0,
            "NZWBB": 1, "NTRIAG": ints[2], "NRASS": nrass, "NGOP4": ints[3]}
    for key in head:
        d.metadata[key] = head[key]
    d.xmesh = [x[0], x[1], x[2]][:nci + 1]
    d.ymesh = [x[3], x[4], x[5]][:ncj + 1]
    d.zmesh = [x[6], x[7], x[8]][:nck + 1]
    d.iintervals = [1, 1][:nci]
    d.jintervals = [2, 2][:ncj]
    d.kintervals = [1, 1][:nck]
    d.regionVolumes = [reals[0], reals[1]]
    d.bucklings = [reals[2]][:nbs]
    d.boundaryConstants = [reals[3]]
    d.internalBlackBoundaryConstants = []
    d.zonesWithBlackAbs = [ints[4]]
    d.zoneClassifications = [ints[5]]
    d.regionZoneNumber = [ints[6], ints[7]]
    if nrass == 0:
        d.coarseMeshRegions = np.array([[[regs[((i * ncj + j) * nck + k) % 8] for k in range(nck)] for j in range(ncj)] for i in range(nci)])
    if nrass == 1:
        d.fineMeshRegions = np.array([[[regs[((i * 2 * ncj + j) * nck + k) % 8] for k in range(nck)] for j in range(2 * ncj)] for i in range(nci)])
    return d, head


def expected_record_sizes(igom, nrass, nbs, nci, ncj, nck):
    """payload length of every record the GEODST file specification prescribes for this header, in file order"""
    sizes = [28, 4 * 27]
    if 1 <= igom and igom <= 3:
        sizes.append(8 * (nci + 1) + 4 * nci)
    elif 6 <= igom and igom <= 11:
        sizes.append(8 * (nci + 1 + ncj + 1) + 4 * (nci + ncj))
    elif igom >= 12:
        sizes.append(8 * (nci + 1 + ncj + 1 + nck + 1) + 4 * (nci + ncj + nck))
    if igom > 0 or nbs > 0:
        sizes.append(4 * (2 + nbs + 1 + 0) + 4 * (1 + 1 + 2))
    if igom > 0 and nrass == 0:
        sizes.extend([4 * nci * ncj] * nck)      # one record per coarse axial interval
    if igom > 0 and nrass == 1:
        sizes.extend([4 * nci * 2 * ncj] * nck)  # one record per fine axial interval
    return sizes


def check_read_back(back, d, head, igom, nrass, nbs, nci, ncj, nck, x, ints, reals, regs):
    assert back.metadata["label"] == "GEODST"
    for key in geodst.FILE_SPEC_1D_KEYS:
        assert back.metadata[key] == (head[key] if key in head else 0), "file specification integer read back"
    dims = 0 if igom == 0 else (1 if igom <= 3 else (2 if igom <= 11 else 3))
    if dims >= 1:
        assert len(back.xmesh) == nci + 1 and len(back.iintervals) == nci
        for i in range(nci + 1):
            assert eq(back.xmesh[i], x[i]), "coarse mesh boundary read back"
        for i in range(nci):
            assert back.iintervals[i] == 1
    else:
        assert back.xmesh is None and back.iintervals is None, "no mesh record, nothing read"
    if dims >= 2:
        assert len(back.ymesh) == ncj + 1 and len(back.jintervals) == ncj
        for j in range(ncj + 1):
            assert eq(back.ymesh[j], x[3 + j])
        for j in range(ncj):
            assert back.jintervals[j] == 2
    else:
        assert back.ymesh is None and back.jintervals is None
    if dims >= 3:
        assert len(back.zmesh) == nck + 1 and len(back.kintervals) == nck
        for k in range(nck + 1):
            assert eq(back.zmesh[k], x[6 + k])
        for k in range(nck):
            assert back.kintervals[k] == 1
    else:
        assert back.zmesh is None and back.kintervals is None
    if igom > 0 or nbs > 0:
        assert len(back.regionVolumes) == 2 and eq(back.regionVolumes[0], reals[0]) and eq(back.regionVolumes[1], reals[1])
        assert len(back.bucklings) == nbs
        if nbs > 0:
            assert eq(back.bucklings[0], reals[2]), "buckling read back"
        assert len(back.boundaryConstants) == 1 and eq(back.boundaryConstants[0], reals[3])
        assert len(back.internalBlackBoundaryConstants) == 0
        assert len(back.zonesWithBlackAbs) == 1 and back.zonesWithBlackAbs[0] == ints[4]
        assert len(back.zoneClassifications) == 1 and back.zoneClassifications[0] == ints[5]
        assert len(back.regionZoneNumber) == 2 and back.regionZoneNumber[0] == ints[6] and back.regionZoneNumber[1] == ints[7]
    else:
        assert back.regionVolumes is None and back.regionZoneNumber is None
    if igom > 0 and nrass == 0:
        assert back.coarseMeshRegions.shape == (nci, ncj, nck)
        for i in range(nci):
            for j in range(ncj):
                for k in range(nck):
                    assert back.coarseMeshRegions[i, j, k] == regs[((i * ncj + j) * nck + k) % 8], "coarse-mesh region number read back"
    else:
        assert back.coarseMeshRegions is None
    if igom > 0 and nrass == 1:
        assert back.fineMeshRegions.shape == (nci, 2 * ncj, nck)
        for i in range(nci):
            for j in range(2 * ncj):
                for k in range(nck):
                    assert back.fineMeshRegions[i, j, k] == regs[((i * 2 * ncj + j) * nck + k) % 8], "fine-mesh region number read back"
    else:
        assert back.fineMeshRegions is None


GEN = {"g": (0, 6), "nrass": (0, 2), "nbs": (0, 1), "sh": (0, 3),
       "x0": (0.0, 9.0), "x1": (0.0, 9.0), "x2": (0.0, 9.0), "v0": F32, "v1": F32, "b0": F32, "c0": F32,
       "i0": (-99, 99), "i1": (-99, 99), "i2": (-99, 99), "i3": (-99, 99), "z0": (0, 9), "z1": (0, 9), "z2": (0, 9), "z3": (0, 9),
       "r0": I16, "r1": I16, "r2": I16, "r3": I16, "r4": I16, "r5": I16, "r6": I16, "r7": I16}


def int32(vals):
    return all([-2147483648 <= v and v <= 2147483647 for v in vals])


@lemma(gen=GEN)
def geodst_file_round_trip(g: int, nrass: int, nbs: int, sh: int, x0: float, x1: float, x2: float,
                           v0: float, v1: float, b0: float, c0: float, i0: int, i1: int, i2: int, i3: int,
                           z0: int, z1: int, z2: int, z3: int,
                           r0: int, r1: int, r2: int, r3: int, r4: int, r5: int, r6: int, r7: int):
    """a whole GEODST file through the real GeodstStream.readWrite and record bodies: the records on the stream are
    exactly those the file specification prescribes for the header, each framed with its payload length (8-byte mesh
    boundaries, 4-byte integers and reals), one 6D / 7D record per axial interval; reading gives back the label, the
    27 specification integers, the meshes, the 5D geometry data and the region map (shape and every entry); data of
    records that are not on the file stay unset.  Enumerated: IGOM in {0,1,3,6,11,12,18}, NRASS 0..2, NBS 0..1,
    (NCINTI, NCINTJ, NCINTK) in {(1,1,1),(2,1,2),(1,2,2),(2,2,1)} (168 shapes; 2 regions, 1 zone; the
    region map holds 8 symbolic numbers, repeated when it has more cells); all values symbolic."""
    g = choose(g, 0, 6)
    igom = IGOMS[g]
    nrass, nbs = choose(nrass, 0, 2), choose(nbs, 0, 1)
    nci, ncj, nck = MESHES[choose(sh, 0, 3)]
    x = [x0, x1, x2, x0 + 1.0, x1 + 1.0, x2 + 1.0, x0 + 2.0, x1 + 2.0, x2 + 2.0]
    ints = [i0, i1, i2, i3, z0, z1, z2, z3]
    reals = [v0, v1, b0, c0]
    regs = [r0, r1, r2, r3, r4, r5, r6, r7]
    assume(int32(ints) and in_int16(regs))
    d, head = geodst_data(igom, nrass, nbs, nci, ncj, nck, x, ints, reals, regs)
    st = memstream()
    stream("wb", st, d).readWrite()
    sizes = expected_record_sizes(igom, nrass, nbs, nci, ncj, nck)
    assert st.nwrites() == 3 * len(sizes), "exactly the records the header announces"
    for r in range(len(sizes)):
        (count,) = struct.unpack("i", st.written(3 * r))
        (tail,) = struct.unpack("i", st.written(3 * r + 2))
        assert count == sizes[r] and tail == count, "record length as specified, framed by identical counts"
    st.seek(0)
    back = GeodstData()
    stream("rb", st, back).readWrite()
    check_read_back(back, d, head, igom, nrass, nbs, nci, ncj, nck, x, ints, reals, regs)


@lemma(gen=GEN)
def geodst_rewrite_of_what_was_read_is_the_same_file(g: int, nrass: int, nbs: int, sh: int, x0: float, x1: float, x2: float,
                                                     v0: float, v1: float, b0: float, c0: float, i0: int, i1: int, i2: int, i3: int,
                                                     z0: int, z1: int, z2: int, z3: int,
                                                     r0: int, r1: int, r2: int, r3: int, r4: int, r5: int, r6: int, r7: int):
    """write(read(file)) == file: the container read from a GEODST file, written again by the real code, produces the
    same sequence of stream writes (leading count, payload fields, trailing count of every record) - field by field
    equal bytes.  Same enumeration as geodst_file_round_trip."""
    g = choose(g, 0, 6)
    igom = IGOMS[g]
    nrass, nbs = choose(nrass, 0, 2), choose(nbs, 0, 1)
    nci, ncj, nck = MESHES[choose(sh, 0, 3)]
    x = [x0, x1, x2, x0 + 1.0, x1 + 1.0, x2 + 1.0, x0 + 2.0, x1 + 2.0, x2 + 2.0]
    ints = [i0, i1, i2, i3, z0, z1, z2, z3]
    regs = [r0, r1, r2, r3, r4, r5, r6, r7]
    assume(int32(ints) and in_int16(regs))
    d, head = geodst_data(igom, nrass, nbs, nci, ncj, nck, x, ints, [v0, v1, b0, c0], regs)
    st = memstream()
    stream("wb", st, d).readWrite()
    st.seek(0)
    back = GeodstData()
    stream("rb", st, back).readWrite()
    st2 = memstream()
    stream("wb", st2, back).readWrite()
    assert st2.nwrites() == st.nwrites(), "same number of records"
    for k in range(st.nwrites()):
        assert st2.written(k) == st.written(k), "same bytes"


# ----------------------------------------------------------------------------- widened hypotheses (assumption review)
BIG = [-2147483648, -40000, -32769, 32768, 70000, 2147483647, 5, 0]
GEN_BIG = dict(GEN, g=(1, 5), nrass=(0, 1), **{"r%d" % k: BIG for k in range(8)})


@lemma(gen=GEN_BIG)
def geodst_region_numbers_beyond_16_bits_round_trip(g: int, nrass: int, x0: float, x1: float, x2: float,
                                                    v0: float, v1: float, b0: float, c0: float, i0: int, i1: int, i2: int, i3: int,
                                                    z0: int, z1: int, z2: int, z3: int,
                                                    r0: int, r1: int, r2: int, r3: int, r4: int, r5: int, r6: int, r7: int):
    """the two lemmas above assume region numbers of 16 bits (a reading defect - finding F103 - that has been repaired:
    the map is a 4-byte integer field like every other integer of the file).  Here the region map holds ANY 4-byte
    integers: fine-mesh (NRASS = 0) and coarse-mesh (NRASS = 1) maps, IGOM in {1, 3, 6, 11, 12}, mesh (2, 1, 2):
    read back and written again byte for byte"""
    g = choose(g, 1, 5)
    igom = IGOMS[g]
    nrass, nbs = choose(nrass, 0, 1), 0
    nci, ncj, nck = MESHES[1]
    x = [x0, x1, x2, x0 + 1.0, x1 + 1.0, x2 + 1.0, x0 + 2.0, x1 + 2.0, x2 + 2.0]
    ints = [i0, i1, i2, i3, z0, z1, z2, z3]
    reals = [v0, v1, b0, c0]
    regs = [r0, r1, r2, r3, r4, r5, r6, r7]
    assume(int32(ints) and int32(regs))  # (P) the integers of the file are 4-byte fields
    d, head = geodst_data(igom, nrass, nbs, nci, ncj, nck, x, ints, reals, regs)
    st = memstream()
    stream("wb", st, d).readWrite()
    st.seek(0)
    back = GeodstData()
    stream("rb", st, back).readWrite()
    check_read_back(back, d, head, igom, nrass, nbs, nci, ncj, nck, x, ints, reals, regs)
    st2 = memstream()
    stream("wb", st2, back).readWrite()
    assert st2.nwrites() == st.nwrites(), "same number of records"
    for k in range(st.nwrites()):
        assert st2.written(k) == st.written(k), "same bytes"
