"""C13 - clauses of the scaling contracts that the UNCHANGED armi tree violates (both are KNOWN findings of the bounded
tier, here decided deductively at their root).  Not picked up by ./check.
Run:  python3-vt -m pyvc.run contracts/pending/C13_scaling_finding.py -v      (stand-ins as in contracts/C13_scaling.py)

F28  _scaleParamsInBlock uses `+` on list-valued volume-integrated parameters that are not multigroup fluxes: the two
     halves are concatenated ([r1, r2, s1, s2]) instead of summed group by group.
F24 (root)  _generateListOfParamsToScale keeps only definitions whose `assigned` flag says "since the last geometry
     transformation": a volume-integrated parameter whose flag was cleared (e.g. by addEdgeAssemblies) is not scaled by
     the converters although the property demands EVERY volume-integrated total to be x3 / restored.
"""
from spec import *

ThirdCoreHexToFullCoreChanger = repo("armi.reactor.converters.geometryConverters:ThirdCoreHexToFullCoreChanger")
EdgeAssemblyChanger = repo("armi.reactor.converters.geometryConverters:EdgeAssemblyChanger")
gc = repo("armi.reactor.converters.geometryConverters")
Assembly = repo("armi.reactor.assemblies:Assembly")
ParamLocation = repo("armi.reactor.parameters.parameterDefinitions:ParamLocation")
Category = repo("armi.reactor.parameters.parameterDefinitions:Category")


class PMap:
    def __getitem__(self, k):
        return getattr(self, k)

    def __setitem__(self, k, v):
        setattr(self, k, v)


class PDef:
    pass


class PDefs:
    """parameter definitions of the block type (see module docstring for the contract)"""

    def atLocation(self, loc):
        return new(PDefs, defs=[d for d in self.defs if d.volumeIntegrated and loc is ParamLocation.VOLUME_INTEGRATED])

    def inCategory(self, cat):
        return new(PDefs, defs=[d for d in self.defs if cat in d.categories])

    def since(self, mask):
        return new(PDefs, defs=[d for d in self.defs if d.assignedSinceTransformation and mask == 8])

    @property
    def names(self):
        return [d.name for d in self.defs]

    def __iter__(self):
        return iter(self.defs)


class BlockStub:
    def getVolume(self):
        return self.volume

    def getSymmetryFactor(self):
        return self.symmetryFactor

    def hasFlags(self, spec, exact=False):
        return True


def pdef(name, volInt, cats=(), assigned=True):
    return new(PDef, name=name, volumeIntegrated=volInt, categories=cats, assignedSinceTransformation=assigned)


FLUXCATS = (Category.fluxQuantities, Category.multiGroupQuantities)


def blockdefs(assigned=True):
    return new(PDefs, defs=[pdef("power", True, (), assigned), pdef("mgFlux", True, FLUXCATS, assigned), pdef("adjMgFlux", True, FLUXCATS, assigned),
                            pdef("reactionRates", True, (), assigned), pdef("unset", True, (), assigned), pdef("label", True, (), assigned),
                            pdef("flux", False, (Category.fluxQuantities,), assigned), pdef("temperature", False, (), assigned)])


def block(power, f1, f2, g1, g2, r1, r2, flux, temperature, volume, factor, defs):
    p = new(PMap, power=power, mgFlux=[f1, f2], adjMgFlux=[g1, g2], reactionRates=[r1, r2], unset=None, label="fuel", flux=flux,
            fluxAdj=0.0, fluxGamma=0.0, temperature=temperature, paramDefs=defs)
    return new(BlockStub, p=p, volume=volume, symmetryFactor=factor)


GENV = {"power": (0.0, 1e6), "f1": (0.0, 1e14), "f2": (0.0, 1e14), "g1": (0.0, 10.0), "g2": (0.0, 10.0), "r1": (0.0, 5.0), "r2": (0.0, 5.0),
        "flux": (0.0, 1e12), "temperature": (300.0, 900.0), "s1": [1.0, 2.0, 3.0], "s2": [1.0, 2.0, 3.0], "v": (1.0, 500.0), "vs": (1.0, 500.0)}


@lemma(gen=dict(GENV, s1=(0.0, 5.0), s2=(0.0, 5.0)))
def list_valued_halves_are_summed_element_by_element(r1: float, r2: float, s1: float, s2: float):
    assume(r1 != 0 or r2 != 0)
    b = block(1.0, 0.0, 0.0, 0.0, 0.0, r1, r2, 1.0, 300.0, 5.0, 2.0, blockdefs())
    t = block(1.0, 0.0, 0.0, 0.0, 0.0, s1, s2, 1.0, 300.0, 5.0, 2.0, blockdefs())
    gc._scaleParamsInBlock(b, t, (["reactionRates"], ["mgFlux"]))
    assert len(b.p.reactionRates) == 2, "still one value per group"
    assert eq(b.p.reactionRates[0], r1 + s1) and eq(b.p.reactionRates[1], r2 + s2), "full hexagon = the two halves"


class CoreStub:
    def getFirstBlock(self):
        return self.first


@lemma
def every_volume_integrated_parameter_is_scaled_whatever_its_assignment_flag(assigned: bool):
    b = block(1.0, 1.0, 1.0, 1.0, 1.0, 1.0, 1.0, 1.0, 300.0, 1.0, 1.0, blockdefs(assigned))
    vol, flx = gc._generateListOfParamsToScale(new(CoreStub, first=b), [])
    assert vol == ["power", "mgFlux", "adjMgFlux", "reactionRates", "unset", "label"], "every volume-integrated parameter"
