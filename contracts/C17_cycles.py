"""C17 / C15 - the cycle-history settings inside a real Settings object: the `cycles` list and the six flat settings
(cycleLength(s), availabilityFactor(s), powerFractions, burnSteps) pass through their REAL schemas (defineSettings() of
armi/settings/fwSettings/globalSettings.py is executed from the source text), survive dump -> load, reject what the
schema cannot hold leaving the previous value in place, cannot be read in the flat form once a detailed history is
given, and give the same history through armi.utils as the raw input.

Real code executed: globalSettings.defineSettings (all framework setting definitions), _isMonotonicIncreasing,
_mutuallyExclusiveCyclesInputs, Setting.__init__ / _setSchema / setValue / value / default / dump,
Settings.__getitem__ / __setitem__ / _directAccessOfSettingAllowed, Inspector._assignCS / _correctCyclesToZeroBurnup /
_checkForBothSimpleAndDetailedCyclesInputs, armi.utils getStepLengths / getCycleLengths / getBurnSteps /
getNodesPerCycle / getAvailabilityFactors / getPowerFractions / getCycleNames, mathematics.expandRepeatedFloats /
getStepsFromValues / isMonotonic.
Stand-ins: `Vol` for the voluptuous package (contract as in C17_xs_settings.py plus: Any(a, b, ...) = the first
alternative that accepts; Range(min, max, min_included, max_included) bounds a number; a schema None accepts only
None; a dict schema with plain text keys accepts those keys only, none required); natively the REAL voluptuous is used
(`Vol` is the package itself), so the cross-check compares the stand-in with it.  `Os` for os.path.join and RES_DIR
for armi.context.RES (one default file name in defineSettings).  The Settings object is allocated with new() around
the real definitions (its __init__ goes through the plugin manager).
"""
from spec import *

gs = repo("armi.settings.fwSettings.globalSettings")
utils = repo("armi.utils")
Settings = repo("armi.settings.caseSettings:Settings")
Inspector = repo("armi.settings.settingsValidation:Inspector")

if NATIVE:
    import voluptuous as Vol

    Invalid = Vol.Invalid
else:

    class Invalid(Exception):
        pass

    class VolError:
        Invalid = Invalid

    def _validate(schema, v):
        if isinstance(schema, dict):
            return _validate_mapping(schema, v)
        if isinstance(schema, list):
            if not isinstance(v, list):
                raise Invalid("expected a list")
            out = []
            for x in v:
                done = False
                for alt in schema:
                    if not done:
                        try:
                            y = _validate(alt, x)
                            done = True
                        except Invalid:
                            pass
                if not done:
                    raise Invalid("invalid list value")
                out.append(y)
            return out
        if schema is None:
            if v is not None:
                raise Invalid("not a valid value")
            return v
        if schema is str or schema is bool or schema is int or schema is float:
            if not isinstance(v, schema):
                raise Invalid("expected " + schema.__name__)
            return v
        return schema(v)

    def _validate_mapping(schema, data):
        if not isinstance(data, dict):
            raise Invalid("expected a dictionary")
        out = {}
        for key, value in data.items():
            if key not in schema:
                raise Invalid("extra keys not allowed")
            out[key] = _validate(schema[key], value)
        return out

    class Schema:
        def __init__(self, schema):
            self.schema = schema

        def __call__(self, v):
            return _validate(self.schema, v)

    class All:
        def __init__(self, *validators):
            self.validators = validators

        def __call__(self, v):
            for s in self.validators:
                v = _validate(s, v)
            return v

    class Any:
        def __init__(self, *validators, msg=None):
            self.validators = validators

        def __call__(self, v):
            for s in self.validators:
                try:
                    return _validate(s, v)
                except Invalid:
                    pass
            raise Invalid("no valid value found")

    class In:
        def __init__(self, container):
            self.container = container

        def __call__(self, v):
            if v not in self.container:
                raise Invalid("value is not allowed")
            return v

    class Range:
        def __init__(self, min=None, max=None, min_included=True, max_included=True):
            self.min = min
            self.max = max
            self.min_included = min_included
            self.max_included = max_included

        def __call__(self, v):
            if self.min is not None:
                if self.min_included and not v >= self.min:
                    raise Invalid("value must be at least min")
                if not self.min_included and not v > self.min:
                    raise Invalid("value must be higher than min")
            if self.max is not None:
                if self.max_included and not v <= self.max:
                    raise Invalid("value must be at most max")
                if not self.max_included and not v < self.max:
                    raise Invalid("value must be lower than max")
            return v

    class Coerce:
        def __init__(self, type):
            self.type = type

        def __call__(self, v):
            try:
                return self.type(v)
            except (ValueError, TypeError):
                raise Invalid("expected " + self.type.__name__)

    class Vol:
        error = VolError
        Invalid = Invalid
        Schema = Schema
        All = All
        Any = Any
        In = In
        Range = Range
        Coerce = Coerce


if NATIVE:
    import os as Os
else:

    class OsPath:
        @staticmethod
        def join(*parts):
            return "/".join(parts)

    class Os:
        """stand-in for the os module as far as defineSettings uses it: os.path.join for one default file name"""

        path = OsPath


RES_DIR = "/res"
OV = {"armi.settings.fwSettings.globalSettings:vol": "Vol", "armi.settings.setting:vol": "Vol", "armi.context:RES": "RES_DIR",
      "armi.settings.fwSettings.globalSettings:os": "Os"}


SIMPLE = ("availabilityFactor", "availabilityFactors", "powerFractions", "burnSteps", "cycleLength", "cycleLengths")


def settings():
    return new(Settings, _Settings__settings={s.name: s for s in gs.defineSettings()}, path="", _failOnLoad=False, filelessBP=False)


def cycle_entry(kind, n, L, a, d):
    """kind 0 = cycle length + burn steps, 1 = step days (text after the schema: concrete days), 2 = cumulative days"""
    if kind == 0:
        return {"cycle length": L, "burn steps": n, "availability factor": a}
    if kind == 1:
        return {"step days": [10.5, "1R", 30][:n], "availability factor": a, "name": "second"}
    return {"cumulative days": [sum(d[: i + 1]) for i in range(n)]}


@lemma(overrides=OV, gen={"k0": (0, 2), "k1": (0, 2), "n": (1, 3), "L": (0.0, 500.0), "a": (0.0, 1.0), "d0": (0.5, 90.0), "d1": (0.5, 90.0),
                          "d2": (0.5, 90.0)})
def a_detailed_history_survives_assignment_dump_and_load(k0: int, k1: int, n: int, L: float, a: float, d0: float, d1: float, d2: float):
    """cs['cycles'] = two cycles, each in one of the 3 ways with n = 1..3 steps; cycle length, availability and
    cumulative days symbolic (whatever the real schema admits: no hypothesis on L and a), step days concrete because
    the schema turns them into text"""
    k0 = choose(k0, 0, 2)
    k1 = choose(k1, 0, 2)
    n = choose(n, 1, 3)
    assume(d0 > 0 and d1 > 0 and d2 > 0)
    raw = [cycle_entry(k0, n, L, a, [d0, d1, d2]), cycle_entry(k1, n, L, a, [d0, d1, d2])]
    cs = settings()
    try:
        cs["cycles"] = raw
        accepted = True
    except Invalid:
        accepted = False
    usesLA = k0 != 2 or k1 != 2
    usesL = k0 == 0 or k1 == 0
    assert accepted == ((not usesLA or (0 <= a and a <= 1)) and (not usesL or L >= 0)), \
        "accepted exactly when availability is in [0, 1] and the cycle length is not negative"
    if not accepted:
        assert cs["cycles"] == [], "a rejected value leaves the previous value in place"
    else:
        stored = cs["cycles"]
        assert len(stored) == 2
        for c in range(2):
            kind = (k0, k1)[c]
            assert sorted(stored[c].keys()) == sorted(raw[c].keys()), "the same entries"
            if kind == 0:
                assert eq(stored[c]["cycle length"], L) and stored[c]["burn steps"] == n and eq(stored[c]["availability factor"], a)
            elif kind == 1:
                assert stored[c]["step days"] == ["10.5", "1R", "30"][:n] and stored[c]["name"] == "second"
            else:
                assert eq(stored[c]["cumulative days"], raw[c]["cumulative days"])
        written = cs._Settings__settings["cycles"].dump()
        assert written is stored, "what is written is the stored value"
        cs2 = settings()
        cs2["cycles"] = written
        assert cs2["cycles"] == stored, "reading the written form back gives an equal value"
        assume(a > 0 and (n > 0))
        assert eq(utils.getStepLengths(cs2), utils.getStepLengths({"cycles": raw})), "and the same history"
        assert utils.getNodesPerCycle(cs2) == [n + 1, n + 1]
        assert utils.getCycleNames(cs2) == [("second" if k == 1 else None) for k in (k0, k1)]


@lemma(overrides=OV, gen={"k0": (0, 2), "k1": (0, 2), "n": (1, 3), "L": (0.0, 500.0), "a": (0.0, 1.0), "d0": (-20.0, 90.0), "d1": (-5.0, 90.0),
                          "d2": (-5.0, 90.0)})
def a_detailed_history_with_any_cumulative_days_survives_or_is_rejected(k0: int, k1: int, n: int, L: float, a: float, d0: float, d1: float, d2: float):
    """cs['cycles'] = two cycles, each in one of the 3 ways with n = 1..3 steps; cycle length, availability and
    cumulative days symbolic.  Like a_detailed_history_survives_assignment_dump_and_load WITHOUT its hypothesis that
    the day increments d0, d1, d2 are positive: the first cumulative day may be zero or negative (the schema only asks
    for strictly increasing days), a non-increasing list is rejected and leaves the previous value"""
    k0 = choose(k0, 0, 2)
    k1 = choose(k1, 0, 2)
    n = choose(n, 1, 3)
    raw = [cycle_entry(k0, n, L, a, [d0, d1, d2]), cycle_entry(k1, n, L, a, [d0, d1, d2])]
    cs = settings()
    try:
        cs["cycles"] = raw
        accepted = True
    except Invalid:
        accepted = False
    usesLA = k0 != 2 or k1 != 2
    usesL = k0 == 0 or k1 == 0
    usesCum = k0 == 2 or k1 == 2
    increasing = all([d0, d1, d2][i] > 0 for i in range(1, n))
    assert accepted == ((not usesLA or (0 <= a and a <= 1)) and (not usesL or L >= 0) and (not usesCum or increasing)), \
        "accepted exactly when availability is in [0, 1], the cycle length is not negative and cumulative days increase strictly"
    if not accepted:
        assert cs["cycles"] == [], "a rejected value leaves the previous value in place"
    else:
        stored = cs["cycles"]
        assert len(stored) == 2
        for c in range(2):
            kind = (k0, k1)[c]
            assert sorted(stored[c].keys()) == sorted(raw[c].keys()), "the same entries"
            if kind == 0:
                assert eq(stored[c]["cycle length"], L) and stored[c]["burn steps"] == n and eq(stored[c]["availability factor"], a)
            elif kind == 1:
                assert stored[c]["step days"] == ["10.5", "1R", "30"][:n] and stored[c]["name"] == "second"
            else:
                assert eq(stored[c]["cumulative days"], raw[c]["cumulative days"])
        written = cs._Settings__settings["cycles"].dump()
        assert written is stored, "what is written is the stored value"
        cs2 = settings()
        cs2["cycles"] = written
        assert cs2["cycles"] == stored, "reading the written form back gives an equal value"
        # (P) the history functions below are consumers outside the round-trip clause: with availability 0 and a cycle
        # given by its steps, utils._getStepAndCycleLengths divides the step sum by the availability (ZeroDivisionError)
        assume(a > 0)
        assert eq(utils.getStepLengths(cs2), utils.getStepLengths({"cycles": raw})), "and the same history"
        assert utils.getNodesPerCycle(cs2) == [n + 1, n + 1]
        assert utils.getCycleNames(cs2) == [("second" if k == 1 else None) for k in (k0, k1)]


@lemma(overrides=OV, gen={"case": (0, 13), "L": (1.0, 500.0), "d0": (0.5, 90.0), "d1": (0.5, 90.0)})
def a_history_the_schema_cannot_hold_is_rejected(case: int, L: float, d0: float, d1: float):
    """one near-miss per clause of the `cycles` schema (14 cases); the valid first cycle stays in place"""
    case = choose(case, 0, 13)
    assume(L >= 0 and d0 > 0 and d1 > 0)
    cs = settings()
    good = {"cycle length": L, "burn steps": 2}
    cs["cycles"] = [good]
    before = cs["cycles"]
    bad = (
        {"step days": [d0, d1], "cumulative days": [d0, d0 + d1]},  # two ways at once
        {"step days": [10, 20], "cycle length": L, "burn steps": 2},
        {"cumulative days": [d0, d0 + d1], "burn steps": 2},
        {"name": "no time at all"},
        {"cumulative days": [d0 + d1, d0]},  # decreasing
        {"cumulative days": [d0, d0]},  # not strictly increasing
        {"cycle length": L, "burn steps": 2, "availability factor": 1 + d0},  # availability above 1
        {"cycle length": -1 - L, "burn steps": 2},  # negative length
        {"cycle length": L, "burn steps": -2},  # negative step count
        {"cycle length": L, "burn steps": 2, "repetitions": 3},  # unknown entry
        {"cycle length": L, "burn steps": "two"},  # text for a number
        {"cumulative days": ["1", "2"]},  # text for days
        {"cycle length": L, "burn steps": 2, "name": 7},  # a number for the name
        "not a cycle",
    )[case]
    for value in ([bad], [good, bad], [bad, good], bad):
        try:
            cs["cycles"] = value
            ok = True
        except Invalid:
            ok = False
        assert not ok, "a history the schema does not admit is rejected with an error"
        assert cs["cycles"] is before and len(before) == 1 and eq(before[0]["cycle length"], L), "and leaves the previous value in place"


@lemma(overrides=OV, gen={"detailed": (0, 1), "k": (0, 5), "L": (1.0, 500.0)})
def flat_history_settings_cannot_be_read_beside_a_detailed_history(detailed: int, k: int, L: float):
    """each of the six flat history settings x detailed history given or not"""
    detailed = choose(detailed, 0, 1)
    k = choose(k, 0, 5)
    assume(L >= 0)
    cs = settings()
    if detailed:
        cs["cycles"] = [{"cycle length": L, "burn steps": 2}]
    try:
        v = cs[SIMPLE[k]]
        ok = True
    except ValueError:
        ok = False
    assert ok == (not detailed), "a flat history setting is refused exactly when a detailed history is entered"
    if ok:
        assert v == (1.0, [], [], 4, 365.242199, [])[k], "settings left at default stay at default"
    assert cs["nCycles"] == 1 and (cs["cycles"] == []) == (not detailed), "other settings stay readable"
    cs[SIMPLE[k]] = (0.5, ["0.5"], ["0.5"], 3, 100.0, ["100.0"])[k]
    assert cs._Settings__settings[SIMPLE[k]].value == (0.5, ["0.5"], ["0.5"], 3, 100.0, ["100.0"])[k], "assignment is not blocked"
    if detailed:
        steps = utils.getStepLengths(cs)
        assert len(steps) == 1 and eq(sum(steps[0]), L), "the history functions never read the flat settings then"


@lemma(overrides=OV, gen={"nCycles": (-1, 4), "burnSteps": (-1, 5), "L": (-1.0, 500.0), "a": (-0.2, 1.3)})
def a_flat_history_the_schemas_admit_converts_consistently(nCycles: int, burnSteps: int, L: float, a: float):
    """flat input through the real schemas: nCycles, burnSteps (symbolic integers), cycleLength, availabilityFactor
    (symbolic reals) - NO hypotheses: what the schemas reject is rejected and leaves the default, what they admit gives
    a history with step lengths summing to availability x cycle length.  Shapes enumerated up to 3 cycles x 4 steps
    after acceptance."""
    cs = settings()
    okN = okB = okL = okA = True
    try:
        cs["nCycles"] = nCycles
    except Invalid:
        okN = False
    try:
        cs["burnSteps"] = burnSteps
    except Invalid:
        okB = False
    try:
        cs["cycleLength"] = L
    except Invalid:
        okL = False
    try:
        cs["availabilityFactor"] = a
    except Invalid:
        okA = False
    assert okN == (nCycles >= 1) and okB == (burnSteps >= 0) and okL == (L > 0) and okA == (a >= 0), "the bounds of the four schemas"
    assert cs["nCycles"] == (nCycles if okN else 1) and cs["burnSteps"] == (burnSteps if okB else 4), "rejected: previous value in place"
    assert eq(cs["cycleLength"], L if okL else 365.242199) and eq(cs["availabilityFactor"], a if okA else 1.0)
    assume(okN and okB and okL and okA)
    assume(nCycles <= 3 and 1 <= burnSteps and burnSteps <= 4)
    nCycles = choose(nCycles, 1, 3)
    burnSteps = choose(burnSteps, 1, 4)
    cs["nCycles"] = nCycles  # the same values, now as enumerated shapes
    cs["burnSteps"] = burnSteps
    steps = utils.getStepLengths(cs)
    lengths = utils.getCycleLengths(cs)
    assert len(steps) == nCycles and len(lengths) == nCycles and utils.getNodesPerCycle(cs) == [burnSteps + 1] * nCycles
    for c in range(nCycles):
        assert len(steps[c]) == burnSteps and eq(sum(steps[c]), a * L) and eq(lengths[c], L), "step lengths sum to availability x cycle length"
    assert eq(utils.getAvailabilityFactors(cs), [a] * nCycles) and eq(utils.getPowerFractions(cs), [[1.0] * burnSteps] * nCycles)


@lemma(overrides=OV, gen={"mask": (0, 63), "detailed": (0, 1), "L": (1.0, 500.0), "a": (0.0, 1.0), "n": (0, 6)})
def both_kinds_of_history_at_once_are_detected(mask: int, detailed: int, L: float, a: float, n: int):
    """Inspector._checkForBothSimpleAndDetailedCyclesInputs for every subset (2^6) of the flat history settings moved
    off their defaults (scalar values symbolic) x detailed history given or not"""
    mask = choose(mask, 0, 63)
    detailed = choose(detailed, 0, 1)
    assume(L > 0 and L != 365.242199 and a >= 0 and a != 1.0 and n >= 0 and n != 4)
    cs = settings()
    values = (a, ["0.5"], ["0.5"], n, L, ["100.0"])
    for k in range(6):
        if (mask // 2 ** k) % 2 == 1:
            cs[SIMPLE[k]] = values[k]
    if detailed:
        cs["cycles"] = [{"cycle length": L, "burn steps": 2}]
    insp = new(Inspector, cs=cs, queries=[])
    assert insp._checkForBothSimpleAndDetailedCyclesInputs() == (detailed == 1 and mask != 0), \
        "reported exactly when a detailed history is entered and some flat history setting is off its default"


@lemma(overrides=OV, gen={"nCycles": (1, 5), "detailed": (0, 1), "L": (1.0, 500.0)})
def correction_to_a_single_static_cycle(nCycles: int, detailed: int, L: float):
    """Inspector._correctCyclesToZeroBurnup from a flat or a detailed history: afterwards one cycle, no burn steps, no
    detailed history - and the history functions agree: one node, no steps"""
    detailed = choose(detailed, 0, 1)
    assume(nCycles >= 1 and L > 0)
    cs = settings()
    cs["nCycles"] = nCycles
    if detailed:
        cs["cycles"] = [{"cycle length": L, "burn steps": 2}]
    else:
        cs["cycleLength"] = L
    insp = new(Inspector, cs=cs, queries=[])
    insp._correctCyclesToZeroBurnup()
    assert cs["nCycles"] == 1 and cs["burnSteps"] == 0 and cs["cycles"] == []
    assert cs["cycleLength"] is None and cs["availabilityFactor"] is None
    assert utils.getBurnSteps(cs) == [0] and utils.getNodesPerCycle(cs) == [1] and utils.getStepLengths(cs) == [[]]
    assert utils.getCycleLengths(cs) == [0] and utils.getAvailabilityFactors(cs) == [1] and utils.getPowerFractions(cs) == [[]]
    assert not insp._checkForBothSimpleAndDetailedCyclesInputs()
