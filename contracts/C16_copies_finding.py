"""C16 findings (refuted on the unchanged tree): two routes by which two LIVE objects end up with the same serial number.

C16: "a deep copy receives a fresh serial number and serial numbers are never shared by two live objects".

1. unpickled_collection_has_a_serial_number_of_its_own - deductive restatement of known finding F176 (bounded id
   serial.shared-after-pickle): ParameterCollection.__reduce__ rebuilds the clone with getParameterCollection() (which
   draws a fresh number) and then __setstate__ overwrites `_p_serialNum` with the pickled one.
     import armi, pickle; armi.configure(permissive=True)
     from armi.reactor.composites import Composite
     c = Composite("c"); d = pickle.loads(pickle.dumps(c)); print(c.p.serialNum, d.p.serialNum)   # observed 0 0; expected different

2. copyParamsFrom_leaves_serial_numbers_unique - NEW: ArmiObject.copyParamsFrom creates a new collection (fresh number)
   and then copies EVERY assigned parameter of the other object into it, serialNum included.
     from armi.reactor.components.basicShapes import Circle
     a = Circle("fuel", "UZr", 25.0, 600.0, od=0.8, id=0.0, mult=1); b = Circle("fuel2", "UZr", 25.0, 600.0, od=0.9, id=0.0, mult=1)
     print(a.p.serialNum, b.p.serialNum)    # 0 1
     b.copyParamsFrom(a)
     print(a.p.serialNum, b.p.serialNum)    # observed 0 0; expected two different numbers
   (The copied values are also the very same objects: `a.p.numberDensities is b.p.numberDensities` is True afterwards.)

Not picked up by ./check (directory contracts/pending).  Run:
  python3-vt -m pyvc.run contracts/pending/C16_copies_finding.py
Set-up as in contracts/C16_copies.py.
"""
import pickle

from spec import *

ParameterCollection = repo("armi.reactor.parameters.parameterCollections:ParameterCollection")
Parameter = repo("armi.reactor.parameters.parameterDefinitions:Parameter")
PDC = repo("armi.reactor.parameters.parameterDefinitions:ParameterDefinitionCollection")
NoDefault = repo("armi.reactor.parameters.parameterDefinitions:NoDefault")
SINCE_ANYTHING = repo("armi.reactor.parameters.parameterDefinitions:SINCE_ANYTHING")
Composite = repo("armi.reactor.composites:Composite")
pcmod = repo("armi.reactor.parameters.parameterCollections")


class PCS(ParameterCollection):
    """the parameter collection class of the stand-in composite (class attributes set up by mk_class)"""


class Owner(Composite):
    """the composite class the collection belongs to (mk_class sets paramCollectionType = PCS, as the composite metaclass does)"""


NAMES = ("serialNum", "power", "mgFlux")
DEFAULTS = {"serialNum": NoDefault, "power": 0.0, "mgFlux": None}


def mk_class():
    pdc = PDC()
    defs = []
    for nm in NAMES:
        pd = Parameter(nm, "", "a parameter of the stand-in class", None, True, DEFAULTS[nm], NoDefault, set())
        pd.collectionType = PCS
        pd.assigned = SINCE_ANYTHING  # every definition has been assigned at least once (serialNum: by every constructor)
        pdc.add(pd)
        setattr(PCS, nm, pd)
        defs.append(pd)
    pdc.lock()
    PCS.pDefs = pdc
    PCS._allFields = sorted(["_backup", "_hist", "assigned"] + [pd.fieldName for pd in defs])
    PCS._slots = set(PCS._allFields) | set(NAMES) | {"readOnly"}
    PCS._ArmiObject = Owner
    Owner.paramCollectionType = PCS
    return defs


def mk_coll(serial, pw, flux):
    return new(PCS, _backup=None, _hist={}, assigned=0, readOnly=False, _p_serialNum=serial, _p_power=pw, _p_mgFlux=flux)


def mk_node(name, pc):
    return new(Owner, name=name, parent=None, cached={}, _backupCache=None, p=pc, _lumpedFissionProducts=None, spatialGrid=None, spatialLocator=None, _children=[])


GEN = {"g0": (200, 1000), "s0": (0, 100), "s1": (101, 200)}


@lemma(gen=GEN)
def unpickled_collection_has_a_serial_number_of_its_own(g0: int, s0: int, pw: float, f0: float):
    """pickle.loads(pickle.dumps(collection)); the original stays alive next to the clone"""
    assume(s0 <= g0)
    mk_class()
    pcmod.GLOBAL_SERIAL_NUM = g0
    pc = mk_coll(s0, pw, [f0])
    clone = pickle.loads(pickle.dumps(pc))
    assert clone.power == pw
    assert clone.serialNum != pc.serialNum, "two live collections never share a serial number"


@lemma(gen=GEN)
def copyParamsFrom_leaves_serial_numbers_unique(g0: int, s0: int, s1: int, pw: float, f0: float, q: float):
    assume(s0 <= g0 and s1 <= g0 and s0 != s1)
    mk_class()
    pcmod.GLOBAL_SERIAL_NUM = g0
    a = mk_node("a", mk_coll(s0, pw, [f0]))
    b = mk_node("b", mk_coll(s1, q, None))
    b.copyParamsFrom(a)
    assert b.p.power == pw, "the values are other's"
    assert b.p.serialNum != a.p.serialNum, "two live objects never share a serial number"
