"""C10 - lemmas that assert the property text / the documented contract and are REFUTED on the unchanged tree
(findings; not picked up by ./check).  Stand-ins as in contracts/C10_macro.py and contracts/C10_files.py."""
import numpy as np

from spec import *

xsc = repo("armi.nuclearDataIO.xsCollections")
xsl = repo("armi.nuclearDataIO.xsLibraries")
XSCollection = repo("armi.nuclearDataIO.xsCollections:XSCollection")

SFX = "AA"


class Micro:
    """stand-in for the microscopic XSCollection of one nuclide"""


class Nuclide:
    """stand-in for XSNuclide"""


class SizedLibrary:
    """stand-in for IsotxsLibrary: getNuclide(name, suffix) = the nuclide stored under name + suffix (KeyError
    otherwise); len() = number of nuclides (_XSLibrary.__len__)"""

    def getNuclide(self, name, suffix):
        return self.nuclides[name + suffix]

    def __len__(self):
        return len(self.nuclides)


# ----------------------------------------------------------------------------- file selection with a directory
POOL = ["ISOAA", "ISOAB", "ISOBA", "ISOAA-n2", "ISOBA-n2", "ISOAB-n1", "ISOTXS", "ISOAA.ascii", "ISOTXS-n2", "ISOBA.BCD"]
WANTED = ["", "-n2", "-n1"]


def base_name(path):
    return path.split("/")[-1]


def expected_files(suffix, files):
    """per XS id the file carrying the requested suffix if there is one, else the file without suffix; never the
    merged ISOTXS file or a text version; files with another suffix are not touched"""
    libs = [f for f in files if "ISOTXS" not in f and ".ascii" not in f and "BCD" not in f]
    plain = [f for f in libs if "-" not in base_name(f)]
    if suffix == "":
        return sorted(plain)
    with_suffix = [f for f in libs if base_name(f).endswith(suffix) and len(base_name(f)) == 5 + len(suffix)]
    replaced = [base_name(f)[:5] for f in with_suffix]
    return sorted([f for f in plain if base_name(f) not in replaced] + with_suffix)




# ----------------------------------------------------------------------------- empty multiplier library


# ----------------------------------------------------------------------------- higher-order scatter data
class Mat:
    """stand-in for a scipy.sparse matrix: only equality of its entries matters here"""

    def __init__(self, a):
        self.a = a


class DenseSparse:
    @staticmethod
    def issparse(x):
        return isinstance(x, Mat)




@lemma
def collection_merge_keeps_higher_order_scatter_data(x: float, a1: float, aFirst: bool):
    """XSCollection.merge of a collection holding only higher-order scatter data (entry x) with one holding a vector
    reaction, in either order: the result holds both (or the merge is refused).  REFUTED: higherOrderScatter is left
    out of the 'is anything assigned' test, so the side that only holds such data counts as empty - its data are
    overwritten by the other side's empty dict (A.merge(B)) or never copied (B.merge(A)), without any error."""
    A, B = XSCollection(parent="A"), XSCollection(parent="B")
    A.higherOrderScatter = {1: x}
    B.fission = np.array([a1, a1 + 1.0])
    T = A if aFirst else B
    try:
        T.merge(B if aFirst else A)
        refused = False
    except AttributeError:
        refused = True
    if not refused:
        assert T.fission is not None and eq(T.fission[0], a1)
        assert 1 in T.higherOrderScatter and eq(T.higherOrderScatter[1], x), "the merged collection holds the union of the data"


# ----------------------------------------------------------------------------- merging the files of a directory
DummyNuclideBase = repo("armi.nucDirectory.nuclideBases:DummyNuclideBase")


class FileNuc:
    """nuclide of a library that was read: only `_base` is looked at (is there a dummy nuclide?)"""


class FileLib:
    """a library as returned by isotxs.readBinary (stand-in, see read_contract)"""


class FileMeta:
    pass


class TargetLib:
    """the library the files are merged into: merge(other) is recorded (its content: C10_libmerge.py)"""

    def merge(self, other):
        self.merged.append(other.path)


class GlobStandIn:
    """stand-in for the module glob: glob(pattern) = the directory listing given by the lemma, each name with the
    directory in front (what glob.glob(os.path.join(baseDir, 'ISO*')) returns)"""

    listing = []

    @staticmethod
    def glob(pattern):
        assert pattern.endswith("/ISO*")
        return [pattern[:-4] + name for name in GlobStandIn.listing if name.startswith("ISO")]


def read_contract(path):
    """contract assumed for isotxs.readBinary(path): a library read from that file; it remembers the path, carries a
    neutron velocity that depends on the file only (uninterpreted function of the XS id in the file NAME), and
    already holds a dummy nuclide (so that no dummy data have to be added and written)"""
    name = path.split("/")[-1]
    nuc = new(FileNuc, _base=new(DummyNuclideBase))
    return new(FileLib, path=path, neutronVelocity=uf("velocity", POOL.index(name)) if not NATIVE else float(POOL.index(name)), nuclides=[nuc])


def read_contract_cls(cls, path):
    return read_contract(path)


# isotxs.readBinary is the module-level alias `readBinary = IsotxsIO.readBinary` of the class method Stream.readBinary:
# the engine replaces the function behind the alias (second entry), the native run the alias itself (first entry)
READ_STUBS = {"armi.nuclearDataIO.cccc.isotxs:readBinary": "read_contract",
              "armi.nuclearDataIO.cccc.cccc:Stream.readBinary": "read_contract_cls"}


def merge_directory_case(directory, mask, w, have=0):
    names = [POOL[i] for i in range(len(POOL)) if (mask // (2 ** i)) % 2 == 1]
    GlobStandIn.listing = names
    known = [directory + "/" + POOL[have - 1]] if have else []
    lib = new(TargetLib, merged=[], isotxsMetadata=new(FileMeta, fileNames=known))
    velocities = xsl.mergeXSLibrariesInWorkingDirectory(lib, xsLibrarySuffix=WANTED[w], alternateDirectory=directory)
    want = [n for n in expected_files(WANTED[w], names) if directory + "/" + n not in known]
    assert sorted(lib.merged) == sorted(directory + "/" + n for n in want), "exactly the chosen files are merged, each once"
    assert sorted(velocities.keys()) == sorted(n[3:5] for n in want), "one neutron velocity per XS id, under that id"
    for n in want:
        v = uf("velocity", POOL.index(n)) if not NATIVE else float(POOL.index(n))
        assert eq(velocities[n[3:5]], v), "the velocity of the file of that XS id"




