"""C08 - grid symmetry and rotation agree with the physical geometry: lemmas over the real armi code."""
import math

import numpy as np

from spec import *

HexGrid = repo("armi.reactor.grids.hexagonal:HexGrid")
CartesianGrid = repo("armi.reactor.grids.cartesian:CartesianGrid")
IndexLocation = repo("armi.reactor.grids.locations:IndexLocation")
MultiIndexLocation = repo("armi.reactor.grids.locations:MultiIndexLocation")
CoordinateLocation = repo("armi.reactor.grids.locations:CoordinateLocation")
HexBlock = repo("armi.reactor.blocks:HexBlock")
Composite = repo("armi.reactor.composites:Composite")
hexagon = repo("armi.utils.hexagon")
iterables = repo("armi.utils.iterables")
constants = repo("armi.reactor.grids.constants")

SQRT3 = hexagon.SQRT3


def hexgrid(pitch, cornersUp, symmetry=""):
    us = HexGrid._getRawUnitSteps(pitch, cornersUp)
    return new(
        HexGrid,
        _unitSteps=np.array(us),
        _bounds=(None, None, None),
        _stepDims=((0, 1, 2),),
        _boundDims=((),),
        _offset=np.zeros(3),
        _unitStepLimits=((-3, 3), (-3, 3), (0, 1)),
        _symmetry=symmetry,
        _isAxialOnly=False,
        armiObject=None,
        _locations={},
    )


def xy(g, i, j):
    c = g.getCoordinates((i, j, 0))
    return c[0], c[1]


def rot60(x, y):
    """coordinates rotated by 60 degrees counter-clockwise"""
    return x / 2.0 - SQRT3 / 2.0 * y, SQRT3 / 2.0 * x + y / 2.0


def rot120(x, y):
    return -x / 2.0 - SQRT3 / 2.0 * y, SQRT3 / 2.0 * x - y / 2.0


def rot240(x, y):
    return -x / 2.0 + SQRT3 / 2.0 * y, -SQRT3 / 2.0 * x - y / 2.0


def hexdist(i, j):
    return max(abs(i), abs(j), abs(i + j))


# ----------------------------------------------------------------------------- third-core images
@lemma(gen={"pitch": (0.05, 40.0), "i": (-40, 40), "j": (-40, 40)})
def third_equivalents_are_120_240_images(i: int, j: int, pitch: float, cornersUp: bool):
    assume(pitch > 0)
    g = hexgrid(pitch, cornersUp, "third periodic")
    eqs = g.getSymmetricEquivalents((i, j, 0))
    if i == 0 and j == 0:
        assert len(eqs) == 0
    else:
        assert len(eqs) == 2
        x, y = xy(g, i, j)
        x1, y1 = xy(g, eqs[0][0], eqs[0][1])
        x2, y2 = xy(g, eqs[1][0], eqs[1][1])
        e1 = rot120(x, y)
        e2 = rot240(x, y)
        assert eq(x1, e1[0]) and eq(y1, e1[1]), "first equivalent is the 120-degree image"
        assert eq(x2, e2[0]) and eq(y2, e2[1]), "second equivalent is the 240-degree image"
        # ring preserved; the three are distinct cells
        assert hexdist(eqs[0][0], eqs[0][1]) == hexdist(i, j) and hexdist(eqs[1][0], eqs[1][1]) == hexdist(i, j)
        assert eqs[0] != (i, j) and eqs[1] != (i, j) and eqs[0] != eqs[1]


@lemma
def symmetric_equivalents_dispatch(i: int, j: int):
    full = hexgrid(1.0, False, "full")
    assert len(full.getSymmetricEquivalents((i, j, 0))) == 0
    other = hexgrid(1.0, False, "quarter reflective")
    try:
        other.getSymmetricEquivalents((i, j, 0))
        ok = True
    except NotImplementedError:
        ok = False
    assert not ok, "a hex grid with a symmetry it cannot represent refuses"


def in_first_third_closed_form(i, j, top):
    return (i == 0 and j == 0) or (i + 2 * j >= 0 and (2 * i + j > 0 or (top and 2 * i + j == 0 and j > 0)))


@lemma(gen={"i": (-40, 40), "j": (-40, 40)})
def first_third_membership_matches_coordinates(i: int, j: int, top: bool):
    g = hexgrid(1.0, False, "third periodic")
    loc = IndexLocation(i, j, 0, g)
    inside = g.isInFirstThird(loc, top)
    assert inside == in_first_third_closed_form(i, j, top)
    # coordinates (flats up): polar angle in [0, 120) degrees (closed at 120 with the top edge)
    x, y = xy(g, i, j)
    on120 = eq(SQRT3 * x + y, 0.0) and y > 0
    geometric = (i == 0 and j == 0) or (y >= 0 and (SQRT3 * x + y > 0 or (top and on120)))
    assert inside == geometric
    assert g.locatorInDomain(loc, top) == inside
    assert hexgrid(1.0, False, "full").locatorInDomain(loc, top)


@lemma(gen={"i": (-40, 40), "j": (-40, 40)})
def exactly_one_orbit_member_in_domain(i: int, j: int):
    assume(not (i == 0 and j == 0))
    g = hexgrid(1.0, False, "third periodic")
    a, b = g.getSymmetricEquivalents((i, j, 0))
    n = 0
    for cell in ((i, j), a, b):
        if g.isInFirstThird(IndexLocation(cell[0], cell[1], 0, g), False):
            n += 1
    assert n == 1


@lemma(gen={"i": (-40, 40), "j": (-40, 40)})
def symmetry_line_classification(i: int, j: int):
    g = hexgrid(1.0, False, "third periodic")
    line = g.overlapsWhichSymmetryLine((i, j))
    x, y = xy(g, i, j)
    if i == 0 and j == 0:
        assert line == constants.BOUNDARY_CENTER
    elif eq(y, 0.0) and x > 0:
        assert line == constants.BOUNDARY_0_DEGREES
    elif eq(y, SQRT3 * x) and x > 0:
        assert line == constants.BOUNDARY_60_DEGREES
    elif eq(y, -SQRT3 * x) and x < 0:
        assert line == constants.BOUNDARY_120_DEGREES
    else:
        assert line is None


# ----------------------------------------------------------------------------- index rotation
@lemma(gen={"pitch": (0.05, 40.0), "i": (-40, 40), "j": (-40, 40), "k": (0, 4)})
def rotate_index_one_step_is_60_degrees_ccw(i: int, j: int, k: int, pitch: float, cornersUp: bool):
    assume(pitch > 0)
    g = hexgrid(pitch, cornersUp)
    loc = IndexLocation(i, j, k, None)
    r = g.rotateIndex(loc, 1)
    x, y = xy(g, i, j)
    xr, yr = xy(g, r.i, r.j)
    e = rot60(x, y)
    assert eq(xr, e[0]) and eq(yr, e[1])
    assert r.k == k
    assert r.grid is None
    assert hexdist(r.i, r.j) == hexdist(i, j), "ring preserved"


@lemma(gen={"i": (-40, 40), "j": (-40, 40), "a": (-14, 14), "b": (-14, 14)})
def rotate_index_composes_additively(i: int, j: int, a: int, b: int):
    g = hexgrid(1.0, False)
    loc = IndexLocation(i, j, 0, None)
    ab = g.rotateIndex(g.rotateIndex(loc, a), b)
    direct = g.rotateIndex(loc, a + b)
    assert (ab.i, ab.j, ab.k) == (direct.i, direct.j, direct.k)
    six = g.rotateIndex(loc, 6)
    assert (six.i, six.j) == (i, j), "six steps are the identity"
    zero = g.rotateIndex(loc, 0)
    assert (zero.i, zero.j) == (i, j)
    per = g.rotateIndex(loc, a + 6)
    one = g.rotateIndex(loc, a)
    assert (per.i, per.j) == (one.i, one.j), "rotation count is taken modulo six, for every integer"


@lemma
def rotate_index_refuses_inconsistent_grid(i: int, j: int, rot: int):
    g = hexgrid(1.0, False)
    other = hexgrid(1.0, True)
    loc = IndexLocation(i, j, 0, other)
    try:
        g.rotateIndex(loc, rot)
        ok = True
    except TypeError:
        ok = False
    assert not ok
    same_grid = IndexLocation(i, j, 0, g)
    r = g.rotateIndex(same_grid, rot)
    assert r.grid is g


@lemma(gen={"n": (1, 3000), "k": (0, 5)})
def rotated_cell_number_agrees_with_rotate_index(n: int, k: int):
    assume(n >= 1)
    assume(0 <= k and k <= 5)
    g = hexgrid(1.0, False)
    ring = hexagon.numRingsToHoldNumCells(n)
    pos = n - (hexagon.totalPositionsUpToRing(ring - 1) if ring > 1 else 0)
    m = hexagon.getIndexOfRotatedCell(n, k)
    ring2 = hexagon.numRingsToHoldNumCells(m)
    assert ring2 == ring
    pos2 = m - (hexagon.totalPositionsUpToRing(ring - 1) if ring > 1 else 0)
    i, j = HexGrid.getIndicesFromRingAndPos(ring, pos)
    r = g.rotateIndex(IndexLocation(i, j, 0, None), k)
    assert HexGrid.getIndicesFromRingAndPos(ring2, pos2) == (r.i, r.j)


@lemma
def rotated_cell_number_rejects_bad_arguments(n: int, k: int):
    try:
        hexagon.getIndexOfRotatedCell(n, k)
        ok = True
    except ValueError:
        ok = False
    assert ok == (n >= 1 and 0 <= k and k <= 5)


# ----------------------------------------------------------------------------- Cartesian quarter core
def cartgrid(isOffset, symmetry):
    return new(
        CartesianGrid,
        _unitSteps=np.array(((1.0, 0.0, 0.0), (0.0, 1.0, 0.0), (0, 0, 0))),
        _bounds=(None, None, None),
        _stepDims=((0, 1, 2),),
        _boundDims=((),),
        _offset=np.array((0.5, 0.5, 0.0)) if isOffset else np.zeros(3),
        _unitStepLimits=((-3, 3), (-3, 3), (0, 1)),
        _symmetry=symmetry,
    )


def cxy(g, i, j):
    c = g.getCoordinates((i, j, 0))
    return c[0], c[1]


@lemma(gen={"i": (-20, 20), "j": (-20, 20)})
def cartesian_quarter_rotational_images(i: int, j: int, through: bool):
    """periodic quarter core: the equivalents are the 90/180/270-degree images of the cell centre"""
    if through:
        g = cartgrid(False, "quarter periodic through center assembly")
    else:
        g = cartgrid(True, "quarter periodic")
    eqs = g.getSymmetricEquivalents((i, j))
    x, y = cxy(g, i, j)
    images = [(-y, x), (-x, -y), (y, -x)]
    if through and i == 0 and j == 0:
        assert len(eqs) == 0
    else:
        assert len(eqs) == 3
        got = [cxy(g, e[0], e[1]) for e in eqs]
        # as sets: every image appears and every equivalent is an image
        for im in images:
            assert any([eq(p[0], im[0]) and eq(p[1], im[1]) for p in got]), "every rotational image is reported"
        for p in got:
            assert any([eq(p[0], im[0]) and eq(p[1], im[1]) for im in images]), "every reported cell is a rotational image"


@lemma(gen={"i": (-20, 20), "j": (-20, 20)})
def cartesian_quarter_reflective_images(i: int, j: int, through: bool):
    """reflective quarter core: images under reflection in the two axes (and both)"""
    if through:
        g = cartgrid(False, "quarter reflective through center assembly")
    else:
        g = cartgrid(True, "quarter reflective")
    eqs = g.getSymmetricEquivalents((i, j))
    x, y = cxy(g, i, j)
    images = [(-x, y), (-x, -y), (x, -y)]
    got = [cxy(g, e[0], e[1]) for e in eqs]
    for p in got:
        assert any([eq(p[0], im[0]) and eq(p[1], im[1]) for im in images]), "every reported cell is a reflection image"
    if through and i == 0 and j == 0:
        assert len(eqs) == 0
    elif through and (i == 0 or j == 0):
        # a cell on an axis: the reflection across the other axis (its own image across this one)
        assert len(eqs) == 1
        assert not (eq(got[0][0], x) and eq(got[0][1], y))
    else:
        assert len(eqs) == 3
        for im in images:
            assert any([eq(p[0], im[0]) and eq(p[1], im[1]) for p in got]), "every reflection image is reported"


@lemma
def cartesian_domain_membership(i: int, j: int):
    g = cartgrid(True, "quarter reflective")
    loc = IndexLocation(i, j, 0, g)
    assert g.locatorInDomain(loc) == (i >= 0 and j >= 0)
    assert cartgrid(False, "full").locatorInDomain(loc)
    assert len(cartgrid(False, "full").getSymmetricEquivalents((i, j))) == 0


# ----------------------------------------------------------------------------- block rotation pieces
@lemma(gen={"rotNum": (-12, 12)})
def pivot_moves_entry_k_to_k_plus_rot(rotNum: int, a0: float, a1: float, a2: float, a3: float, a4: float, a5: float):
    """per-corner / per-edge data after rotating by rotNum steps: out[(k + rotNum) mod 6] = in[k]"""
    assume(-6 <= rotNum and rotNum <= 6)
    items = [a0, a1, a2, a3, a4, a5]
    out = iterables.pivot(items, -rotNum)
    assert len(out) == 6
    for k in range(6):
        assert out[(k + rotNum) % 6] == items[k]


@lemma(gen={"k": (-30, 30)})
def rotation_number_from_angle(k: int):
    """HexBlock.rotate derives the step count from the angle: rad = k*60 degrees -> k mod 6"""
    rad = k * math.pi / 3
    if not NATIVE:
        # proof hints over the reals (each is itself an obligation): cancel pi before floor/round
        assert eq(rad, (k / 6.0) * (2 * math.pi))
        assert eq(rad / (2 * math.pi), k / 6.0)
        assert eq(rad % (2 * math.pi), (k % 6) * (math.pi / 3))
    rotNum = round((rad % (2 * math.pi)) / math.radians(60))
    assert (rotNum - k) % 6 == 0 and 0 <= rotNum and rotNum <= 6
    if not NATIVE:
        assert rotNum == k % 6  # exact over the reals (A1); in floating point 6 may appear for 0


@lemma(gen={"i": (-9, 9), "j": (-9, 9), "m": (-9, 9), "n": (-9, 9), "k": (0, 5), "cx": (-5.0, 5.0), "cy": (-5.0, 5.0), "cz": (-5.0, 5.0)})
def block_rotation_moves_children(i: int, j: int, m: int, n: int, k: int, cx: float, cy: float, cz: float):
    """pins (index and multi-index locators) and free-coordinate children follow the rotation"""
    assume(0 <= k and k <= 5)
    g = hexgrid(1.0, True)
    pin = new(Composite, spatialLocator=IndexLocation(i, j, 0, g))
    multi = MultiIndexLocation(g)
    multi.append(IndexLocation(i, j, 0, g))
    multi.append(IndexLocation(m, n, 0, g))
    pins = new(Composite, spatialLocator=multi)
    free = new(Composite, spatialLocator=CoordinateLocation(cx, cy, cz, g))
    nowhere = new(Composite, spatialLocator=None)
    b = new(HexBlock, spatialGrid=g, _children=[pin, pins, free, nowhere])
    rad = k * math.pi / 3
    # the rotation matrix entries for k*60 degrees (cos, sin) are what math.cos / math.sin return
    b._rotateChildLocations(rad, k)
    e = g.rotateIndex(IndexLocation(i, j, 0, g), k)
    assert (pin.spatialLocator.i, pin.spatialLocator.j, pin.spatialLocator.k) == (e.i, e.j, e.k)
    assert pin.spatialLocator.grid is g
    ml = pins.spatialLocator
    assert isinstance(ml, MultiIndexLocation) and len(ml) == 2
    e2 = g.rotateIndex(IndexLocation(m, n, 0, g), k)
    assert (ml[0].i, ml[0].j) == (e.i, e.j) and (ml[1].i, ml[1].j) == (e2.i, e2.j)
    fl = free.spatialLocator
    assert isinstance(fl, CoordinateLocation)
    c, s = math.cos(rad), math.sin(rad)
    assert eq(fl.i, cx * c - cy * s) and eq(fl.j, cx * s + cy * c) and eq(fl.k, cz)
    assert nowhere.spatialLocator is None


# ----------------------------------------------------------------------------- widened hypotheses (assumption review)
# The symmetry lemmas above use a flats-up grid of pitch 1 (hex) and a square grid of pitch 1 (Cartesian).  The
# quantifier says "both hex orientations"; nothing conditions on the pitch.  A corners-up grid is the flats-up grid
# turned by +30 degrees, so its sector and its symmetry lines are the flats-up ones turned by 30 degrees.
def unturned(x, y, cornersUp):
    """coordinates in the frame of the flats-up picture: a corners-up grid is turned back by 30 degrees"""
    if cornersUp:
        return SQRT3 / 2.0 * x + y / 2.0, -x / 2.0 + SQRT3 / 2.0 * y
    return x, y


@lemma(gen={"pitch": (0.05, 40.0), "i": (-40, 40), "j": (-40, 40)})
def first_third_membership_matches_coordinates_either_orientation_any_pitch(i: int, j: int, top: bool, pitch: float, cornersUp: bool):
    assume(pitch > 0)  # (P) a pitch is a length
    g = hexgrid(pitch, cornersUp, "third periodic")
    loc = IndexLocation(i, j, 0, g)
    inside = g.isInFirstThird(loc, top)
    xr, yr = xy(g, i, j)
    x, y = unturned(xr, yr, cornersUp)
    s = SQRT3 * x + y  # signed distance (x 2) from the 120-degree line
    if NATIVE:
        # floating point only: a centre ON a boundary line is off it by rounding noise; snap it (lines are >= pitch / 2 apart)
        y = 0.0 if eq(y / pitch, 0.0) else y
        s = 0.0 if eq(s / pitch, 0.0) else s
    on120 = eq(s, 0.0) and y > 0
    geometric = (i == 0 and j == 0) or (y >= 0 and (s > 0 or (top and on120)))
    assert inside == geometric
    assert g.locatorInDomain(loc, top) == inside


@lemma(gen={"pitch": (0.05, 40.0), "i": (-40, 40), "j": (-40, 40)})
def symmetry_line_classification_either_orientation_any_pitch(i: int, j: int, pitch: float, cornersUp: bool):
    assume(pitch > 0)  # (P) a pitch is a length
    g = hexgrid(pitch, cornersUp, "third periodic")
    line = g.overlapsWhichSymmetryLine((i, j))
    xr, yr = xy(g, i, j)
    x, y = unturned(xr, yr, cornersUp)
    if i == 0 and j == 0:
        assert line == constants.BOUNDARY_CENTER
    elif eq(y, 0.0) and x > 0:
        assert line == constants.BOUNDARY_0_DEGREES
    elif eq(y, SQRT3 * x) and x > 0:
        assert line == constants.BOUNDARY_60_DEGREES
    elif eq(y, -SQRT3 * x) and x < 0:
        assert line == constants.BOUNDARY_120_DEGREES
    else:
        assert line is None


@lemma(gen={"i": (-40, 40), "j": (-40, 40)})
def orbit_members_in_domain_with_the_top_edge_included(i: int, j: int):
    """exactly_one_orbit_member_in_domain asks without the top edge only.  With it (symmetryOverlap=True, used when edge
    assemblies are added) an orbit has one member in the domain unless it lies on the sector's boundary lines (0 / 120
    degrees), where it has the two that overlap the boundary - 'apart from cells on symmetry lines'"""
    assume(not (i == 0 and j == 0))  # the centre cell is its own orbit (covered by third_equivalents_are_120_240_images)
    g = hexgrid(1.0, False, "third periodic")
    a, b = g.getSymmetricEquivalents((i, j, 0))
    n = 0
    onBoundary = False
    for cell in ((i, j), a, b):
        if g.isInFirstThird(IndexLocation(cell[0], cell[1], 0, g), True):
            n += 1
        line = g.overlapsWhichSymmetryLine(cell)
        if line == constants.BOUNDARY_0_DEGREES or line == constants.BOUNDARY_120_DEGREES:
            onBoundary = True
    assert n == (2 if onBoundary else 1)


def cartgrid_wh(w, h, isOffset, symmetry):
    return new(
        CartesianGrid,
        _unitSteps=np.array(((w, 0.0, 0.0), (0.0, h, 0.0), (0, 0, 0))),
        _bounds=(None, None, None),
        _stepDims=((0, 1, 2),),
        _boundDims=((),),
        _offset=np.array((w / 2.0, h / 2.0, 0.0)) if isOffset else np.zeros(3),
        _unitStepLimits=((-3, 3), (-3, 3), (0, 1)),
        _symmetry=symmetry,
    )


@lemma(gen={"i": (-20, 20), "j": (-20, 20), "w": (0.05, 30.0), "h": (0.05, 30.0)})
def cartesian_quarter_reflective_images_any_rectangle(i: int, j: int, through: bool, w: float, h: float):
    """cartesian_quarter_reflective_images for a rectangular cell of any width and height (reflections in the axes are
    symmetries of every rectangular lattice; quarter turns only of a square one: (P) for the rotational lemma)"""
    assume(w > 0 and h > 0)  # (P) pitches are lengths
    if through:
        g = cartgrid_wh(w, h, False, "quarter reflective through center assembly")
    else:
        g = cartgrid_wh(w, h, True, "quarter reflective")
    eqs = g.getSymmetricEquivalents((i, j))
    x, y = cxy(g, i, j)
    images = [(-x, y), (-x, -y), (x, -y)]
    got = [cxy(g, e[0], e[1]) for e in eqs]
    for p in got:
        assert any([eq(p[0], im[0]) and eq(p[1], im[1]) for im in images]), "every reported cell is a reflection image"
    if through and i == 0 and j == 0:
        assert len(eqs) == 0
    elif through and (i == 0 or j == 0):
        assert len(eqs) == 1
        assert not (eq(got[0][0], x) and eq(got[0][1], y))
    else:
        assert len(eqs) == 3
        for im in images:
            assert any([eq(p[0], im[0]) and eq(p[1], im[1]) for p in got]), "every reflection image is reported"


SYMS = [
    ("quarter periodic", True),
    ("quarter reflective", True),
    ("quarter periodic through center assembly", False),
    ("quarter reflective through center assembly", False),
]


@lemma(gen={"i": (-20, 20), "j": (-20, 20), "v": (0, 3)})
def cartesian_quarter_orbits_have_one_member_in_the_domain(i: int, j: int, v: int):
    """'each orbit has exactly one member in the modelled domain apart from cells on symmetry lines' for the four
    quarter-core Cartesian variants (the lemmas above state the images, cartesian_domain_membership one variant's
    domain): the domain is the closed first quadrant of indices; off the symmetry lines (through-centre grids: the
    row / column of index 0) exactly one of {cell} + equivalents is in it; a cell ON a line lies on the domain's edge
    and is classified by its coordinates: x = 0 or y = 0"""
    v = choose(v, 0, 3)
    sym, isOffset = SYMS[v]
    g = cartgrid(isOffset, sym)
    eqs = g.getSymmetricEquivalents((i, j))
    orbit = [(i, j)] + [(e[0], e[1]) for e in eqs]
    n = 0
    for cell in orbit:
        loc = IndexLocation(cell[0], cell[1], 0, g)
        x, y = cxy(g, cell[0], cell[1])
        assert g.locatorInDomain(loc) == (x >= 0 and y >= 0), "in the domain = centre in the closed first quadrant"
        if g.locatorInDomain(loc):
            n += 1
    x, y = cxy(g, i, j)
    onLine = eq(x, 0.0) or eq(y, 0.0)
    assert onLine == ((not isOffset) and (i == 0 or j == 0))
    if not onLine:
        assert n == 1
    else:
        assert n >= 1


# ----------------------------------------------------------------------------- the locator-object route (continuation session)
@lemma(gen={"pitch": (0.05, 40.0), "i": (-40, 40), "j": (-40, 40), "k": (-3, 3)})
def a_locator_lists_the_equivalents_its_grid_lists_for_its_cell(i: int, j: int, k: int, pitch: float, cornersUp: bool, third: bool):
    """IndexLocation.getSymmetricEquivalents (what callers holding a spatialLocator use) hands the locator's index
    ARRAY (i, j, k) to the grid: the result is the grid's answer for the cell (i, j) whatever the axial index - the
    120 / 240 degree images in a periodic third core (none for the centre cell), none in a full core - and the
    locator and the grid are left as they were."""
    assume(pitch > 0)
    g = hexgrid(pitch, cornersUp, "third periodic" if third else "full")
    loc = g[i, j, k]
    eqs = loc.getSymmetricEquivalents()
    ref = g.getSymmetricEquivalents((i, j))
    assert len(eqs) == len(ref)
    if third and not (i == 0 and j == 0):
        assert len(eqs) == 2
        assert (eqs[0][0], eqs[0][1]) == (-i - j, i), "120 degrees: (i, j) -> (-i - j, i)"
        assert (eqs[1][0], eqs[1][1]) == (j, -i - j), "240 degrees: (i, j) -> (j, -i - j)"
        assert (ref[0][0], ref[0][1], ref[1][0], ref[1][1]) == (eqs[0][0], eqs[0][1], eqs[1][0], eqs[1][1])
        x, y = xy(g, i, j)
        x1, y1 = xy(g, eqs[0][0], eqs[0][1])
        e1 = rot120(x, y)
        assert eq(x1, e1[0]) and eq(y1, e1[1]), "the first equivalent's centre is this centre turned by 120 degrees"
    else:
        assert len(eqs) == 0
    assert (loc.i, loc.j, loc.k) == (i, j, k) and loc.grid is g and g[i, j, k] is loc
