"""C18 - blueprints -> reactor: the kernels of armi/reactor/blueprints that COMPUTE something from the input, between the
YAML reader and the reactor objects.  The lemma computes the expectation from the inputs ('as computed independently from
the input') and compares it with what the real method produced, for symbolic numbers on enumerated small shapes; an
inconsistent input must raise.

Outside the engine, replaced by stated stand-ins (natively the REAL yamlize / armi objects are used, so the native
cross-check also checks the stand-ins):
* yamlize (third party): `YZ` below - Object = plain attribute storage (an attribute reads back the value last set; all
  attributes a method reads are given to new(...)); Map / KeyedList = a wrapper around ONE insertion-ordered dict
  (KeyedList iterates over its values and is keyed by the item's `name`).  Reading the YAML text, type coercion and the
  attribute validators of yamlize are NOT covered here (bounded tier).
* the nuclide / element tables: three nuclides and one element with ARBITRARY positive atomic weights and abundances
  (uninterpreted constants symbolically, the real values natively).
* materials, components, blocks, assemblies, the plugin manager: small harness classes that state what the blueprint
  code may rely on (named in each lemma).
"""
from spec import *

iso = repo("armi.reactor.blueprints.isotopicOptions")
CustomIsotopic = repo("armi.reactor.blueprints.isotopicOptions:CustomIsotopic")
CustomIsotopics = repo("armi.reactor.blueprints.isotopicOptions:CustomIsotopics")
NuclideFlag = repo("armi.reactor.blueprints.isotopicOptions:NuclideFlag")
BlockBlueprint = repo("armi.reactor.blueprints.blockBlueprint:BlockBlueprint")
ComponentBlueprint = repo("armi.reactor.blueprints.componentBlueprint:ComponentBlueprint")
AssemblyBlueprint = repo("armi.reactor.blueprints.assemblyBlueprint:AssemblyBlueprint")
RealCustom = repo("armi.materials.custom:Custom")
Element = repo("armi.nucDirectory.elements:Element")
densityTools = repo("armi.utils.densityTools")
units = repo("armi.utils.units")
InputError = repo("armi.utils.customExceptions:InputError")


# ------------------------------------------------------------------------------------------------ yamlize stand-in
class YObject:
    """yamlize.Object: plain attribute storage"""


class YMapBase(YObject):
    """yamlize maps (yamlize.maps.__MapBase): a wrapper around ONE insertion-ordered dict; attributes the wrapper does not
    have (items, values, keys, get, update, ...) are the dict's"""

    def __init__(self, *args, **kwargs):
        self._d = dict(*args, **kwargs)

    def __getattr__(self, n):
        return getattr(self._d, n)

    def __iter__(self):
        return iter(self._d)

    def __len__(self):
        return len(self._d)

    def __contains__(self, k):
        return k in self._d

    def __getitem__(self, k):
        return self._d[k]

    def __setitem__(self, k, v):
        self._d[k] = v

    def __delitem__(self, k):
        del self._d[k]


class YMap(YMapBase):
    pass


KEY_ATTR = {"NuclideFlags": "nuclideName", "ComponentGroups": "group_name"}  # every other keyed list of armi: `name`


class YKeyedList(YMapBase):
    """yamlize.KeyedList: iterates over the VALUES; `in` tests the KEYS; an item can only be stored under the value of its
    key attribute (KEY_ATTR: the `key_attr` each armi class declares); add(item) stores it there"""

    def __iter__(self):
        return iter(self.values())

    def __setitem__(self, key, value):
        if getattr(value, KEY_ATTR.get(type(self).__name__, "name")) != key:
            raise KeyError(key)
        self._d[key] = value

    def add(self, item):
        self[getattr(item, KEY_ATTR.get(type(self).__name__, "name"))] = item


class YInert:
    """yamlize.Attribute / Typed / Sequence ...: only used by the YAML reader"""

    def __init__(self, *a, **k):
        pass


if NATIVE:
    import yamlize as YZ
else:

    class YZ:
        Object = YObject
        Map = YMap
        KeyedList = YKeyedList
        Sequence = YInert
        Attribute = YInert
        Typed = YInert
        StrList = YInert
        FloatList = YInert
        IntList = YInert


def ymap(cls, items, **attrs):
    """an instance of the yamlize Map / KeyedList class `cls` the way yamlize builds it (__new__, setattr, obj[key] = item -
    the class's own __setitem__ runs)"""
    o = new(cls, **attrs) if NATIVE else new(cls, _d={}, **attrs)
    for k, v in items:
        o[k] = v
    return o


# ------------------------------------------------------------------------------------------------ nuclide tables
class Nuc:
    """a nuclide base as the blueprint code sees it: name, weight, abundance, a, trans, decays, element; like the real ones
    two are equal iff they denote the same nuclide"""

    def __eq__(self, other):
        return self.name == other.name

    def __hash__(self):
        return hash(self.name)


W = {"U235": 235.0439299, "U238": 238.0507882, "O16": 15.9949146}
AB = {"U235": 0.007204, "U238": 0.992742, "O16": 0.99757}
if NATIVE:
    WT = dict(W)
    ABN = dict(AB)
else:
    WT = {"U235": uf("w1"), "U238": uf("w2"), "O16": uf("w3")}
    ABN = {"U235": uf("ab1"), "U238": uf("ab2"), "O16": uf("ab3")}
NAMES = ("U235", "U238", "O16")
KEYS = {"U235", "U238", "O16", "U"}


def weight_contract(nucName):
    """contract of nucDir.getAtomicWeight: the weight recorded for that nuclide"""
    return WT[nucName]


def weights_positive():
    assume(WT["U235"] > 0 and WT["U238"] > 0 and WT["O16"] > 0)


class MATS:
    """armi.materials as isotopicOptions uses it: the class Custom"""

    Custom = RealCustom


class Mat:
    """a library material (not Custom) as CustomIsotopic.apply sees it: massFrac (and whatever else it has)"""


ISO = {"armi.reactor.blueprints.isotopicOptions:yamlize": "YZ", "armi.reactor.blueprints.isotopicOptions:ALLOWED_KEYS": "KEYS",
       "armi.reactor.blueprints.isotopicOptions:materials": "MATS"}
WST = {"armi.nucDirectory.nucDir:getAtomicWeight": "weight_contract"}
C = 0.60221415  # units.MOLES_PER_CC_TO_ATOMS_PER_BARN_CM, written independently


def isotopic(fmt, density, values):
    ci = ymap(CustomIsotopic, [], name="MOX", inputFormat=fmt, _density=density, _computedDensity=None)
    for k, v in zip(NAMES, values):
        ci[k] = v  # the real CustomIsotopic.__setitem__
    return ci


def shape(n, a, b, last):
    """n = 1..3 values: the last one is `last`"""
    return [[last], [a, last], [a, b, last]][n - 1]


G3 = {"n": (1, 3), "a": (0.0, 0.5), "b": (0.0, 0.5), "rho": (0.1, 20.0), "c": (0.0, 0.5)}


@lemma(overrides=ISO, stubs=WST, gen=G3)
def mass_fraction_input_is_the_composition(n: int, a: float, b: float, rho: float, custom: bool):
    """CustomIsotopic._initializeMassFracs / density / apply, 'mass fractions', 1-3 nuclides (shape enumerated): the material
    gets exactly the input mass fractions (own copy); a Custom material also gets the density, a library material (stand-in
    Mat) keeps everything else."""
    n = choose(n, 1, 3)
    vals = shape(n, a, b, 1.0 - (a if n > 1 else 0.0) - (b if n > 2 else 0.0))
    assume(all(v >= 0 for v in vals) and rho > 0)
    ci = isotopic("mass fractions", rho, vals)
    ci._initializeMassFracs()
    assert len(ci.massFracs) == n
    for k, v in zip(NAMES, vals):
        assert eq(ci.massFracs[k], v), "mass fractions as given"
    assert eq(ci.density, rho)
    m = new(RealCustom, massFrac={"FE": 1.0}, customDensity=1.0) if custom else new(Mat, massFrac={"FE": 1.0}, refDens=7.0)
    ci.apply(m)
    assert len(m.massFrac) == n and not same(m.massFrac, ci.massFracs)
    for k, v in zip(NAMES, vals):
        assert eq(m.massFrac[k], v), "the material's composition is the custom one (nothing of the old one left)"
    if custom:
        assert eq(m.customDensity, rho), "a Custom material takes the density of the isotopic"
    else:
        assert m.refDens == 7.0
    ci2 = isotopic("mass fractions", None, vals)
    ci2._initializeMassFracs()
    assert ci2.density is None
    m2 = new(RealCustom, massFrac={}, customDensity=1.0)
    ci2.apply(m2)
    assert m2.customDensity == 1.0, "no density given: the material's density stays"


@lemma(overrides=ISO, stubs=WST, gen=G3)
def number_fraction_input_becomes_mass_fractions(n: int, a: float, b: float):
    """'number fractions': mass fraction_k = n_k w_k / sum_j n_j w_j for ARBITRARY positive atomic weights; they sum to one."""
    weights_positive()
    n = choose(n, 1, 3)
    vals = shape(n, a, b, 1.0 - (a if n > 1 else 0.0) - (b if n > 2 else 0.0))
    assume(all(v >= 0 for v in vals))
    ci = isotopic("number fractions", None, vals)
    ci._initializeMassFracs()
    tot = sum(v * WT[k] for k, v in zip(NAMES, vals))
    assert len(ci.massFracs) == n
    for k, v in zip(NAMES, vals):
        assert eq(ci.massFracs[k] * tot, v * WT[k])
    assert eq(sum(ci.massFracs.values()), 1.0), "mass fractions normalised"
    assert ci.density is None


@lemma(overrides=ISO, stubs=WST, gen=G3)
def number_density_input_gives_density_and_mass_fractions(n: int, a: float, b: float, c: float):
    """'number densities' N_k [1/b-cm]: density = sum N_k w_k / 0.6022, mass fractions N_k w_k / sum; and turning
    (density, mass fractions) back into number densities the way the component does gives the INPUT numbers."""
    weights_positive()
    n = choose(n, 1, 3)
    vals = shape(n, a, b, c)
    assume(all(v >= 0 for v in vals) and sum(vals) > 0)
    ci = isotopic("number densities", None, vals)
    ci._initializeMassFracs()
    rho = sum(v * WT[k] for k, v in zip(NAMES, vals)) / C
    assert eq(ci.density, rho), "density computed from the number densities"
    assert eq(sum(ci.massFracs.values()), 1.0)
    for k, v in zip(NAMES, vals):
        assert eq(ci.massFracs[k] * rho * C, v * WT[k])
        assert eq(ci.massFracs[k] * ci.density * units.MOLES_PER_CC_TO_ATOMS_PER_BARN_CM / WT[k], v), "round trip to number densities"
    try:
        ci.density = 3.0
        refused = False
    except AttributeError:
        refused = True
    assert refused, "a computed density cannot be overwritten"
    m = new(RealCustom, massFrac={}, customDensity=1.0)
    ci.apply(m)
    assert eq(m.customDensity, rho)


def refused(f):
    try:
        f()
        return False
    except (ValueError, InputError):
        return True


@lemma(overrides=ISO, stubs=WST, gen={"case": (0, 6), "a": (-0.5, 1.5), "b": (0.0, 1.0), "rho": (-5.0, 5.0)})
def inconsistent_isotopic_input_is_refused(case: int, a: float, b: float, rho: float):
    """negative entries, fractions that do not sum to one, number densities together with a density, an unknown input format,
    an unknown nuclide name and a negative density are refused; the consistent input next to each is accepted."""
    weights_positive()
    case = choose(case, 0, 6)
    if case <= 1:
        fmt = ("mass fractions", "number fractions")[case]
        ci = isotopic(fmt, None, [a, b])
        ok = a >= 0 and b >= 0 and abs(a + b - 1.0) < 1e-5
        assert refused(ci._initializeMassFracs) == (not ok), "fractions: non-negative and summing to one, else refused"
    elif case == 2:
        ci = isotopic("number densities", None, [a, b])
        assume(a + b != 0)
        assert refused(ci._initializeMassFracs) == (a < 0 or b < 0 or a * WT["U235"] + b * WT["U238"] < 0)
    elif case == 3:
        assume(a >= 0 and b >= 0)
        ci = isotopic("number densities", rho, [a, b])
        assert refused(ci._initializeMassFracs), "over-specified: number densities and a density"
    elif case == 4:
        assert refused(lambda: isotopic("weight percent", None, [1.0])._initializeMassFracs()), "unknown input format"
    elif case == 5:
        ci = isotopic("mass fractions", None, [1.0])
        try:
            ci["UNOBTAINIUM"] = 0.5
            bad = False
        except ValueError:
            bad = True
        assert bad and "UNOBTAINIUM" not in ci and len(ci) == 1, "unknown nuclide name refused, nothing stored"
    else:
        ci = isotopic("mass fractions", None, [1.0])
        try:
            ci.density = rho
            bad = False
        except ValueError:
            bad = True
        assert bad == (rho < 0), "negative density refused"


# ------------------------------------------------------------------------------------------------ elements -> isotopes
def nuc(name, a=1, trans=(), decays=(), element=None):
    return new(Nuc, name=name, weight=WT.get(name, 1.0), abundance=ABN.get(name, 0.0), a=a, trans=list(trans), decays=list(decays),
               element=element)


U5 = nuc("U235", 235, trans=("n,gamma",))
U8 = nuc("U238", 238)
O16 = nuc("O16", 16)
# the element U: natural isotopes U235 and U238, plus its own NaturalNuclideBase entry (a = 0) that getNaturalIsotopics leaves out
EL_U = new(Element, symbol="U", z=92, name="uranium", nuclides=[nuc("U", 0), U5, U8])
BYNAME = {"U235": U5, "U238": U8, "O16": O16}
BYSYMBOL = {"U": EL_U}
TAB = {"armi.reactor.blueprints.isotopicOptions:yamlize": "YZ", "armi.reactor.blueprints.isotopicOptions:ALLOWED_KEYS": "KEYS",
       "armi.reactor.blueprints.isotopicOptions:materials": "MATS", "armi.nucDirectory.nuclideBases:byName": "BYNAME",
       "armi.nucDirectory.elements:bySymbol": "BYSYMBOL"}


@lemma(overrides=TAB, stubs=WST, gen={"a": (0.0, 1.0)})
def element_in_custom_isotopics_is_expanded_to_its_natural_isotopes(a: float):
    """CustomIsotopic._expandElementMassFracs + densityTools.expandElementalMassFracsToNuclides / expandElementalNuclideMassFracs
    + Element.getNaturalIsotopics: an element entry (U) is replaced by its natural isotopes, its mass fraction split in the
    ratio abundance x weight (abundances are atom fractions), the total and every other entry unchanged; a name that is
    neither nuclide nor element is refused.  Tables: stand-ins BYNAME / BYSYMBOL, arbitrary positive weights and abundances."""
    weights_positive()
    assume(ABN["U235"] > 0 and ABN["U238"] > 0 and 0 <= a <= 1)
    ci = ymap(CustomIsotopic, [], name="UO", inputFormat="mass fractions", _density=None, _computedDensity=None)
    ci["U"] = a
    ci["O16"] = 1.0 - a
    ci._initializeMassFracs()
    ci._expandElementMassFracs()
    mf = ci.massFracs
    assert set(mf.keys()) == {"U235", "U238", "O16"}, "the element is gone, its isotopes are there"
    assert eq(mf["O16"], 1.0 - a)
    assert eq(mf["U235"] + mf["U238"], a), "the element's mass fraction is conserved"
    assert eq(mf["U235"] * ABN["U238"] * WT["U238"], mf["U238"] * ABN["U235"] * WT["U235"]), "split by abundance x weight"
    ci.massFracs = {"U235": 0.5, "XX": 0.5}
    assert refused(ci._expandElementMassFracs), "unknown name refused"


NuclideFlags = repo("armi.reactor.blueprints.isotopicOptions:NuclideFlags")
compBp = repo("armi.reactor.blueprints.componentBlueprint")


class Bp:
    """the root Blueprints object as component construction sees it: elementsToExpand, nuclideFlags, customIsotopics,
    allNuclidesInProblem, activeNuclides"""


@lemma(overrides=TAB, stubs=WST, gen={"a": (0.0, 1.0), "sub": (0, 3)})
def flagged_element_is_expanded_on_the_material(a: float, sub: int):
    """componentBlueprint.expandElementals (+ densityTools.expandElementalMassFracsToNuclides): an element flagged for expansion
    is replaced on the material by its natural isotopes - or by the `expandTo` subset of its nuclide flag, scaled so that the
    element's mass fraction is conserved; elements the material does not contain are skipped.  Stand-ins: Bp, Mat, tables."""
    weights_positive()
    assume(ABN["U235"] > 0 and ABN["U238"] > 0 and 0 <= a <= 1)
    sub = choose(sub, 0, 3)
    expandTo = (None, [], ["U238"], ["U238", "U235"])[sub]
    flags = ymap(NuclideFlags, [("U", NuclideFlag("U", False, True, expandTo))])
    elO = new(Element, symbol="O", z=8, name="oxygen", nuclides=[O16])
    bp = new(Bp, elementsToExpand=[elO, EL_U], nuclideFlags=flags)
    m = new(Mat, massFrac={"U": a, "O16": 1.0 - a})
    compBp.expandElementals(m, bp)
    mf = m.massFrac
    assert eq(mf["O16"], 1.0 - a) and "U" not in mf and "O" not in mf
    if sub == 2:
        assert set(mf.keys()) == {"U238", "O16"} and eq(mf["U238"], a), "only the requested isotope, carrying all of the element"
    else:
        assert set(mf.keys()) == {"U235", "U238", "O16"}
        assert eq(mf["U235"] + mf["U238"], a), "the element's mass fraction is conserved"
        assert eq(mf["U235"] * ABN["U238"] * WT["U238"], mf["U238"] * ABN["U235"] * WT["U235"]), "split by abundance x weight"


# ------------------------------------------------------------------------------------------------ component material
class FuelMat:
    """a library fuel material (stand-in): default composition U235 0.25 / U238 0.75; applyInputParams accepts U235_wt_frac
    (sets the U235 entry) and customIsotopics (recorded), nothing else - python raises TypeError for other keywords"""

    def __init__(self):
        self.massFrac = {"U235": 0.25, "U238": 0.75}
        self.seen = None
        self.calls = 0

    def applyInputParams(self, U235_wt_frac=None, customIsotopics=None):
        self.calls = self.calls + 1
        self.seen = customIsotopics
        if U235_wt_frac is not None:
            self.massFrac["U235"] = U235_wt_frac


class MATS2:
    """armi.materials as componentBlueprint uses it"""

    Custom = RealCustom

    @staticmethod
    def resolveMaterialClassByName(name):
        return {"FuelMat": FuelMat}[name]


COMP = {"armi.reactor.blueprints.isotopicOptions:yamlize": "YZ", "armi.reactor.blueprints.isotopicOptions:ALLOWED_KEYS": "KEYS",
        "armi.reactor.blueprints.isotopicOptions:materials": "MATS", "armi.nucDirectory.nuclideBases:byName": "BYNAME",
        "armi.nucDirectory.elements:bySymbol": "BYSYMBOL", "armi.reactor.blueprints.componentBlueprint:yamlize": "YZ",
        "armi.reactor.blueprints.componentBlueprint:materials": "MATS2"}


def blueprint_with_isotopics(a, b, known=("U235", "U238", "O16")):
    ci = isotopic("mass fractions", None, [a, b, 1.0 - a - b])
    ci._initializeMassFracs()
    return new(Bp, allNuclidesInProblem=list(known), customIsotopics=ymap(CustomIsotopics, [("MOX", ci)]), elementsToExpand=[],
               nuclideFlags=ymap(NuclideFlags, []))


@lemma(overrides=COMP, stubs=WST, gen={"a": (0.0, 0.5), "b": (0.0, 0.5), "e": (0.0, 1.0), "mod": (0, 2)})
def material_gets_isotopics_first_then_the_modifications(a: float, b: float, e: float, useIso: bool, mod: int):
    """ComponentBlueprint._constructMaterial (+ CustomIsotopics.apply, CustomIsotopic.apply, expandElementals): the material is
    made with its defaults, then takes the named custom isotopics, then the material modifications - so a modification has
    the final word; the material is shown all custom isotopics; without modifications applyInputParams is not called; a
    modification only OTHER materials know is skipped without error.  Stand-ins: FuelMat, MATS2, Bp."""
    assume(a >= 0 and b >= 0 and a + b <= 1)
    mod = choose(mod, 0, 2)
    bp = blueprint_with_isotopics(a, b)
    cb = new(ComponentBlueprint, name="fuel", material="FuelMat", isotopics="MOX" if useIso else None)
    mods = [{}, {"U235_wt_frac": e}, {"TD_frac": e}][mod]
    m = cb._constructMaterial(bp, mods)
    assert isinstance(m, FuelMat)
    base = {"U235": a, "U238": b, "O16": 1.0 - a - b} if useIso else {"U235": 0.25, "U238": 0.75}
    if mod == 1:
        base["U235"] = e
    assert len(m.massFrac) == len(base)
    for k in base:
        assert eq(m.massFrac[k], base[k]), "defaults, overridden by the isotopics, overridden by the modification"
    if mod == 0:
        assert m.calls == 0
    if mod == 1:
        assert m.calls == 1 and set(m.seen.keys()) == {"MOX"} and m.seen["MOX"] == bp.customIsotopics["MOX"].massFracs


@lemma(overrides=COMP, stubs=WST, gen={"a": (0.0, 0.5), "b": (0.0, 0.5), "case": (0, 2)})
def inconsistent_component_material_input_is_refused(a: float, b: float, case: int):
    """_constructMaterial / CustomIsotopics.apply: custom isotopics that are not defined (KeyError) and a composition with
    a nuclide that is not among the nuclides of the problem (ValueError) are refused."""
    assume(a >= 0 and b >= 0 and a + b <= 1)
    case = choose(case, 0, 2)
    if case == 0:
        bp = blueprint_with_isotopics(a, b)
        cb = new(ComponentBlueprint, name="fuel", material="FuelMat", isotopics="THOX")
        try:
            cb._constructMaterial(bp, {})
            r = False
        except KeyError:
            r = True
        assert r, "unknown custom isotopics name"
    else:
        bp = blueprint_with_isotopics(a, b, known=("U235", "U238"))
        cb = new(ComponentBlueprint, name="fuel", material="FuelMat", isotopics="MOX" if case == 1 else None)
        assert refused(lambda: cb._constructMaterial(bp, {})) == (case == 1), "O16 is in the composition but not in the problem"


# ------------------------------------------------------------------------------------------------ block blueprint
blockBp = repo("armi.reactor.blueprints.blockBlueprint")
MaterialModifications = repo("armi.reactor.blueprints.assemblyBlueprint:MaterialModifications")
ByComponentModifications = repo("armi.reactor.blueprints.assemblyBlueprint:ByComponentModifications")
Modifications = repo("armi.reactor.blueprints.assemblyBlueprint:Modifications")
BLK = {"armi.reactor.blueprints.blockBlueprint:yamlize": "YZ", "armi.reactor.blueprints.componentBlueprint:yamlize": "YZ",
       "armi.reactor.blueprints.assemblyBlueprint:yamlize": "YZ", "armi.reactor.blueprints.isotopicOptions:yamlize": "YZ",
       "armi.reactor.blueprints.gridBlueprint:yamlize": "YZ"}


class Design:
    """a component design as _filterMaterialInput sees it: its name"""


@lemma(gen={"which": (0, 2)})
def by_component_modification_wins_over_block_wide(which: int, a: float, b: float, c: float, d: float):
    """BlockBlueprint._filterMaterialInput: a component gets every block-wide modification, overridden by the modifications
    given for THAT component; modifications for other components do not reach it.  Stand-in: Design (a name)."""
    which = choose(which, 0, 2)
    name = ("fuel", "clad", "duct")[which]
    matIn = {"byBlock": {"U235_wt_frac": a, "TD_frac": b}, "fuel": {"U235_wt_frac": c}, "clad": {"ZR_wt_frac": d}}
    out, keys = BlockBlueprint._filterMaterialInput(matIn, new(Design, name=name))
    if name == "fuel":
        assert out == {"U235_wt_frac": c, "TD_frac": b} and keys == {"U235_wt_frac"}, "by component wins"
    elif name == "clad":
        assert out == {"U235_wt_frac": a, "TD_frac": b, "ZR_wt_frac": d} and keys == {"ZR_wt_frac"}
    else:
        assert out == {"U235_wt_frac": a, "TD_frac": b} and keys == set()
    assert matIn["byBlock"] == {"U235_wt_frac": a, "TD_frac": b} and matIn["fuel"] == {"U235_wt_frac": c}, "the input is not changed"
    out2, keys2 = BlockBlueprint._filterMaterialInput({"fuel": {"U235_wt_frac": c}}, new(Design, name=name))
    assert out2 == ({"U235_wt_frac": c} if name == "fuel" else {}), "no block-wide part"


def compDesign(name):
    return new(ComponentBlueprint, name=name, shape="Circle")


@lemma(overrides=BLK, gen={"which": (0, 3)})
def modification_for_a_component_the_block_does_not_have_is_refused(which: int, x: float):
    """BlockBlueprint._checkByComponentMaterialInput on a block with the components fuel and clad."""
    which = choose(which, 0, 3)
    blk = ymap(BlockBlueprint, [("fuel", compDesign("fuel")), ("clad", compDesign("clad"))], name="fuelBlock")
    matIn = [{"byBlock": {"TD_frac": x}}, {"byBlock": {}, "fuel": {"TD_frac": x}, "clad": {}}, {"duct": {"TD_frac": x}},
             {"byBlock": {}, "fuel": {}, "duct": {"TD_frac": x}}][which]
    try:
        blk._checkByComponentMaterialInput(matIn)
        ok = True
    except ValueError:
        ok = False
    assert ok == (which <= 1), "a by-component modification must name a component of the block"


class GridDesignMark:
    """a grid design: only its identity matters"""


@lemma(overrides=BLK, gen={"which": (0, 3)})
def block_lattice_is_the_grid_design_it_names(which: int):
    """BlockBlueprint._getGridDesign: the grid design of that name, None without a name, KeyError for an unknown name."""
    which = choose(which, 0, 3)
    g1, g2 = new(GridDesignMark), new(GridDesignMark)
    bp = new(Bp, gridDesigns={"pins": g1, "core": g2})
    blk = ymap(BlockBlueprint, [], name="fuelBlock", gridName=("pins", "core", None, "nope")[which])
    try:
        g = blk._getGridDesign(bp)
        ok = True
    except KeyError:
        ok = False
    assert ok == (which != 3), "unknown specifier refused"
    if ok:
        assert same(g, (g1, g2, None)[which]) if which < 2 else g is None


@lemma(gen={"n": (-3, 50), "f": (-2, 4)})
def axial_mesh_points_times_refinement_factor(n: int, f: int):
    """blockBlueprint._setBlueprintNumberOfAxialMeshes"""
    try:
        r = blockBp._setBlueprintNumberOfAxialMeshes(n, f)
        ok = True
    except ValueError:
        ok = False
    assert ok == (f > 0), "a non-positive refinement factor is refused"
    if ok:
        assert r == n * f


# ------------------------------------------------------------------------------------------------ assembly blueprint
def blockDesign(name):
    return ymap(BlockBlueprint, [], name=name)


def modifications(byBlock, byComponent):
    """material modifications: {name: list} block-wide, {component: {name: list}} by component"""
    bc = ymap(ByComponentModifications, [(c, ymap(Modifications, list(mods.items()))) for c, mods in byComponent.items()])
    return ymap(MaterialModifications, list(byBlock.items()), byComponent=bc)


def assemblyDesign(nb, heights, mesh, xs, mm):
    return new(AssemblyBlueprint, name="fuelAssem", blocks=[blockDesign("b%d" % k) for k in range(nb)], height=heights,
               axialMeshPoints=mesh, xsTypes=xs, materialModifications=mm)


@lemma(overrides=BLK, gen={"nb": (1, 3), "which": (0, 4), "d": (-1, 1)})
def lists_of_unequal_length_are_refused(nb: int, which: int, d: int, h: float, e: float):
    """AssemblyBlueprint._checkParamConsistency: 1-3 blocks; ONE of the per-block lists (heights, mesh points, xs types, a
    block-wide modification, a by-component modification) is one shorter / equal / one longer than the number of blocks:
    accepted iff equal."""
    nb, which, d = choose(nb, 1, 3), choose(which, 0, 4), choose(d, -1, 1)
    n = [nb] * 5
    n[which] = nb + d
    mm = modifications({"U235_wt_frac": [e] * n[3]}, {"fuel": {"TD_frac": [e] * n[4]}})
    a = assemblyDesign(nb, [h] * n[0], [1] * n[1], ["A"] * n[2], mm)
    assert refused(a._checkParamConsistency) == (d != 0), "lists of unequal length are refused"
    a0 = assemblyDesign(nb, [h] * nb, [1] * nb, ["A"] * nb, modifications({}, {}))
    assert not refused(a0._checkParamConsistency), "no modifications at all: fine"


@lemma(gen={"case": (0, 5)})
def empty_modification_entries_are_skipped(case: int, x: float, k: int):
    """AssemblyBlueprint._shouldMaterialModiferBeApplied: '' and None mean 'not for this block'; numbers (also 0) and other
    strings are applied."""
    case = choose(case, 0, 5)
    v = ["", None, x, k, "MOX", 0.0][case]
    assert AssemblyBlueprint._shouldMaterialModiferBeApplied(v) == (case >= 2)
    assert AssemblyBlueprint._shouldMaterialModiferBeApplied(v) is (case >= 2), "a bool"


class BlockProbe:
    """the block a block design returns: records what the assembly blueprint does with it"""

    def completeInitialLoading(self):
        self.loaded = self.loaded + 1

    def setB10VolParam(self, hot):
        self.b10 = hot


class BlockDesignProbe:
    """a block design (collaborator of AssemblyBlueprint._createBlock): construct() records its arguments"""

    def construct(self, cs, blueprint, axialIndex, axialMeshPoints, height, xsType, materialInput):
        self.args = (axialIndex, axialMeshPoints, height, xsType, materialInput)
        return new(BlockProbe, loaded=0, b10=None, design=self)


@lemma(overrides=BLK, gen={"k": (0, 2), "skip": (0, 2), "m0": (1, 9), "m1": (1, 9), "m2": (1, 9)})
def block_k_gets_the_kth_entry_of_every_list(k: int, skip: int, h0: float, h1: float, h2: float, m0: int, m1: int, m2: int,
                                             e0: float, e1: float, e2: float, t1: float, hot: bool):
    """AssemblyBlueprint._createBlock, assembly of 3 blocks, block k = 0..2: the block design is asked for a block with the
    k-th height, mesh points and xs type, and with the k-th entry of every block-wide / by-component modification list -
    except entries '' or None (position `skip` of the enrichment list is ''/None), which are left out.
    Stand-ins: BlockDesignProbe / BlockProbe."""
    k, skip = choose(k, 0, 2), choose(skip, 0, 2)
    enr = [e0, e1, e2]
    enr[skip] = "" if skip == 1 else None
    mm = modifications({"U235_wt_frac": enr, "TD_frac": [t1, "", t1]}, {"fuel": {"ZR_wt_frac": [e0, e1, e2]}, "clad": {"TD_frac": ["", "", ""]}})
    a = assemblyDesign(3, [h0, h1, h2], [m0, m1, m2], ["A", "B", "C"], mm)
    d = new(BlockDesignProbe, args=None)
    bp = new(Bp)
    b = a._createBlock({"inputHeightsConsideredHot": hot}, bp, d, k)
    idx, mesh, height, xs, matIn = d.args
    assert idx == k and mesh == [m0, m1, m2][k] and eq(height, [h0, h1, h2][k]) and xs == "ABC"[k], "the k-th height, mesh, xs type"
    expect = {}
    if k != skip:
        expect["U235_wt_frac"] = [e0, e1, e2][k]
    if k != 1:
        expect["TD_frac"] = t1
    assert matIn == {"byBlock": expect, "fuel": {"ZR_wt_frac": [e0, e1, e2][k]}, "clad": {}}, "the k-th modification entries"
    assert b.loaded == 1 and b.b10 == hot and same(b.design, d)


class PDefs:
    """parameter definitions of the assembly: one parameter ('buGroup') is assigned in blueprints"""

    def inCategory(self, cat):
        return [new(Design, name="buGroup")] if cat == "assign in blueprints" else []


class PMapB:
    """parameter collection viewed as a name -> value map (attribute and item access are the same store)"""

    def __setitem__(self, k, v):
        setattr(self, k, v)


class AssemProbe:
    """the assembly class chosen for the blocks (collaborator): name, parameters, children in the order added"""

    def __init__(self, name):
        self.name = name
        self.p = new(PMapB, assemNum=7, flags=None, RadMesh=None, AziMesh=None, buGroup=None, paramDefs=new(PDefs))
        self.children = []
        self.spatialGrid = None

    def add(self, b):
        self.children.append(b)


class StackBlock:
    """a constructed block: remembers its design and position"""

    def makeName(self, assemNum, axialIndex):
        return ("B", assemNum, axialIndex)


def createBlockContract(self, cs, blueprint, bDesign, axialIndex):
    """contract of AssemblyBlueprint._createBlock used here: a new block made from that design for that axial index
    (what it is made with: block_k_gets_the_kth_entry_of_every_list)"""
    return new(StackBlock, design=bDesign, index=axialIndex, name=None)


def assemClassContract(clsOrSelf, blocks):
    """contract of AssemblyBlueprint.getAssemClass: some assembly class"""
    return AssemProbe


@lemma(overrides=BLK, stubs={"armi.reactor.blueprints.assemblyBlueprint:AssemblyBlueprint._createBlock": "createBlockContract",
                             "armi.reactor.blueprints.assemblyBlueprint:AssemblyBlueprint.getAssemClass": "assemClassContract"},
       gen={"nb": (1, 4), "rad": [None, 0, 1, 3], "bu": [0, 2, 5]})
def assembly_stacks_the_blocks_in_the_specified_order(nb: int, rad: int, bu: int, noBu: bool):
    """AssemblyBlueprint._constructAssembly (+ AxialGrid.fromNCells), 1-4 blocks: the assembly has the blueprint's name, one
    block per block design in the SPECIFIED ORDER (block k made from design k for axial index k, named by assembly number and
    k), an axial grid with one cell per block that belongs to the assembly, the mesh points given (1 when absent) and the
    parameters assigned in blueprints.  Stand-ins: AssemProbe / PMapB / PDefs / StackBlock; _createBlock, getAssemClass by
    contract."""
    nb = choose(nb, 1, 4)
    a = assemblyDesign(nb, [1.0] * nb, [1] * nb, ["A"] * nb, modifications({}, {}))
    a.flags = None
    a.radialMeshPoints = rad
    a.azimuthalMeshPoints = None
    a.buGroup = None if noBu else bu
    designs = list(a.blocks)
    asm = a._constructAssembly({}, new(Bp))
    assert isinstance(asm, AssemProbe) and asm.name == "fuelAssem"
    assert len(asm.children) == nb
    for k in range(nb):
        b = asm.children[k]
        assert same(b.design, designs[k]) and b.index == k, "block k comes from block design k"
        assert b.name == ("B", 7, k)
    assert same(asm.spatialGrid.armiObject, asm)
    zb = asm.spatialGrid._bounds[2]
    assert len(zb) == nb + 1 and all(eq(zb[i], i) for i in range(nb + 1)), "one axial cell per block"
    assert asm.p.RadMesh == (rad if rad else 1) and asm.p.AziMesh == 1
    assert asm.p.buGroup == (None if noBu else bu), "blueprint-assigned parameter (left alone when the blueprint does not give it)"


# ------------------------------------------------------------------------------------------------ grid blueprint
GridBlueprint = repo("armi.reactor.blueprints.gridBlueprint:GridBlueprint")
Triplet = repo("armi.reactor.blueprints.gridBlueprint:Triplet")
gridBpMod = repo("armi.reactor.blueprints.gridBlueprint")
asciimaps = repo("armi.utils.asciimaps")
HexGrid = repo("armi.reactor.grids.hexagonal:HexGrid")
CartesianGrid = repo("armi.reactor.grids.cartesian:CartesianGrid")
ThetaRZGrid = repo("armi.reactor.grids.thetarz:ThetaRZGrid")
MultiIndexLocation = repo("armi.reactor.grids.locations:MultiIndexLocation")

THIRD_MAP = """-     SH   SH   SH
-  SH   OC   OC   SH
 SH   OC   IC   OC   SH
   OC   IC   IC   OC   SH
     IC   IC   IC   OC   SH
       IC   IC   MC   OC   SH
         IC   IC   OC   SH
"""
# the 19-cell hexagon (rings 1-3), label of cell (i, j) = hexLabel(i, j), drawn flats-up and corners-up
FULL_FLATS_MAP = """-   A6
  A9  A0
A2  B3  A4
  B6  B7
A9  CC  A1
  B3  B4
A6  B7  A8
  A0  A1
    A4
"""
FULL_TIPS_MAP = """-   -   A6  A0  A4
  -   A9  B3  B7  A1
    A2  B6  CC  B4  A8
      A9  B3  B7  A1
        A6  A0  A4
"""


def hexDist(i, j):
    return max(abs(i), abs(j), abs(i + j))


def hexLabel(i, j):
    return "CC" if (i, j) == (0, 0) else ("B", "A")[hexDist(i, j) - 1] + str((7 * i + 3 * j) % 10)


HEX19 = {(i, j): hexLabel(i, j) for i in range(-2, 3) for j in range(-2, 3) if hexDist(i, j) <= 2}


def hexGridDesign(contents, symmetry="third periodic", geom="hex", latticeMap=None, pitch=None):
    g = GridBlueprint("core", geom, latticeMap, symmetry, contents, None)
    g.latticeDimensions = None if pitch is None else Triplet(pitch, 0.0, 0.0)
    return g


@lemma(overrides=BLK, gen={"which": (0, 2)})
def lattice_map_and_explicit_list_give_the_same_contents(which: int):
    """GridBlueprint._readGridContents / _readGridContentsLattice (+ asciimaps reader, geometry.SymmetryType.fromStr,
    asciiMapFromGeomAndDomain) for a hex third-core, a hex full flats-up and a hex full corners-up text map: the indexed
    contents are the map's cells without the placeholders; the same contents given as an explicit list are taken as they
    are (also when a map is given as well) - 'text maps and explicit lists alike'.  Text is concrete."""
    which = choose(which, 0, 2)
    text = (THIRD_MAP, FULL_FLATS_MAP, FULL_TIPS_MAP)[which]
    geom, sym = (("hex", "third periodic"), ("hex", "full"), ("hex_corners_up", "full"))[which]
    cls = (asciimaps.AsciiMapHexThirdFlatsUp, asciimaps.AsciiMapHexFullFlatsUp, asciimaps.AsciiMapHexFullTipsUp)[which]
    if which == 0:
        m = cls()
        m.readAscii(text)
        expect = {k: v for k, v in m.items() if v != "-"}  # third-core map of the user manual: what the map reader gives, minus placeholders
    else:
        expect = dict(HEX19)  # independent of the reader: the labels are a function of the index
    g = hexGridDesign(None, sym, geom, text)
    g._readGridContents()
    assert g.gridContents == expect and g.readFromLatticeMap, "every named location, no placeholder"
    assert expect[0, 0] == ("IC", "CC", "CC")[which] and len(expect) == (31, 19, 19)[which]
    g2 = hexGridDesign(dict(expect), sym, geom, None)
    g2._readGridContents()
    assert g2.gridContents == expect and not g2.readFromLatticeMap
    g3 = hexGridDesign({(0, 0): "XX"}, sym, geom, text)
    g3._readGridContents()
    assert g3.gridContents == {(0, 0): "XX"}, "explicit contents are not overwritten by the map"
    g4 = hexGridDesign(None, sym, geom, None)
    g4._readGridContents()
    assert g4.gridContents == {}, "neither: empty contents, not None"


@lemma(overrides=BLK, gen={"nx": (1, 4), "ny": (1, 4)})
def cartesian_full_core_map_is_centred(nx: int, ny: int):
    """_readGridContentsLattice, Cartesian full-core text map of nx x ny cells (1..4 each, enumerated): the cell in text column c
    (from the left) and text row r (from the BOTTOM) gets the index (c - nx // 2, r - ny // 2): the map is centred on (0, 0);
    computed here directly from the text.  _getGridSize returns (nx, ny)."""
    nx, ny = choose(nx, 1, 4), choose(ny, 1, 4)
    rows = [["%s%d" % ("ABCD"[r], c) for c in range(nx)] for r in range(ny)]
    text = "\n".join(" ".join(rows[r]) for r in reversed(range(ny))) + "\n"
    g = GridBlueprint("core", "cartesian", text, "full", None, None)
    g._readGridContents()
    expect = {(c - nx // 2, r - ny // 2): rows[r][c] for r in range(ny) for c in range(nx)}
    assert g.gridContents == expect
    assert gridBpMod._getGridSize(g.gridContents.keys()) == (nx, ny)
    if nx % 2 == 1 and ny % 2 == 1:
        assert g.gridContents[0, 0] == rows[ny // 2][nx // 2], "odd sizes: the middle cell is (0, 0)"


def rot120(c):
    """hex indices rotated by 120 degrees counter-clockwise"""
    return (-(c[0] + c[1]), c[0])


@lemma(overrides=BLK, gen={"i": (0, 3), "j": (0, 3), "p": (0.5, 30.0)})
def third_core_contents_expand_to_full_core_each_image_once(i: int, j: int, p: float):
    """GridBlueprint.expandToFull (+ construct, _constructSpatialGrid, HexGrid.fromPitch, getSymmetricEquivalents): third-core
    contents = centre, (1, 0) and one more cell (i, j) of the first third (0 <= i, j <= 3, enumerated): afterwards the contents
    are exactly the three rotation images of every cell (the centre once), each with the label of its original, the symmetry
    is 'full'; the dict given as input is not changed.  A full-core design is left alone."""
    assume(p > 0)
    i, j = choose(i, 0, 3), choose(j, 0, 3)
    c = (i, j)
    given = {(0, 0): "C", (1, 0): "B", c: "A"}
    g = hexGridDesign(given, "third periodic", "hex", None, p)
    g.expandToFull()
    expect = {(0, 0): ("A" if c == (0, 0) else "C")}
    for cell, lab in (((1, 0), "B"), (c, "A")):
        if cell != (0, 0):
            expect[cell] = expect[rot120(cell)] = expect[rot120(rot120(cell))] = lab
    assert g.gridContents == expect, "each image once, with the original's label"
    assert len(expect) == (4 if c in ((0, 0), (1, 0)) else 7)
    assert g.symmetry == "full" and len(given) == (2 if c in ((0, 0), (1, 0)) else 3)
    g.expandToFull()
    assert g.gridContents == expect and g.symmetry == "full", "full core: nothing to do"


@lemma(overrides=BLK, gen={"i": (-2, 2), "j": (-2, 2)})
def contents_outside_the_domain_are_dropped_or_refused(i: int, j: int, same_: bool):
    """gridBlueprint._filterOutsideDomain (+ HexGrid.locatorInDomain / isInFirstThird / getSymmetricEquivalents), third-core design with
    the centre, the first ring's two in-domain cells and ONE more cell (i, j) in -2..2 (enumerated): a cell outside the first
    third is removed when it carries the label of its in-domain image, refused (ValueError) when it carries another; cells
    inside the domain stay."""
    i, j = choose(i, -2, 2), choose(j, -2, 2)
    c = (i, j)
    base = {(0, 0): "C", (1, 0): "R", (0, 1): "R", (2, 0): "S", (1, 1): "S", (0, 2): "S", (2, -1): "S"}
    assume(c not in base and max(abs(i), abs(j), abs(i + j)) <= 2)
    orbit = [c, rot120(c), rot120(rot120(c))]
    image = [x for x in orbit if x in base][0]
    contents = dict(base)
    contents[c] = base[image] if same_ else "X"
    g = hexGridDesign(contents, "third periodic", "hex", None, None)
    try:
        gridBpMod._filterOutsideDomain(g)
        ok = True
    except ValueError:
        ok = False
    assert ok == same_, "an outside cell that contradicts its image is refused"
    if ok:
        assert g.gridContents == base, "the outside cell is gone, the domain is untouched"


@lemma(overrides=BLK, gen={"i": (0, 2), "j": (0, 2), "ids": (0, 3), "p": (0.5, 30.0)})
def locators_are_the_cells_that_carry_the_lattice_id(i: int, j: int, ids: int, p: float):
    """GridBlueprint.getLocators / getMultiLocator (+ HexGrid.__getitem__): pin lattice with cells '1' '2' '1' and one more cell
    (i, j) labelled '2': the locators returned for the lattice IDs are exactly the cells carrying one of them (in the order of
    the contents), on the grid given - so the multiplicity is their number; integer IDs are read as their text; no IDs, no
    locators."""
    assume(p > 0)
    i, j, ids = choose(i, 0, 2), choose(j, 0, 2), choose(ids, 0, 3)
    contents = {(0, 0): "1", (1, 0): "2", (0, 1): "1"}
    contents[i, j] = "2"
    g = hexGridDesign(contents, "full", "hex", None, p)
    sg = g.construct()
    latticeIDs = (["1"], [2], ["1", "2"], None)[ids]
    want = ({"1"}, {"2"}, {"1", "2"}, set())[ids]
    locs = g.getLocators(sg, latticeIDs)
    cells = [k for k, v in contents.items() if v in want]
    assert [(l.i, l.j, l.k) for l in locs] == [(a, b, 0) for a, b in cells]
    assert all(same(l.grid, sg) for l in locs)
    ml = g.getMultiLocator(sg, latticeIDs)
    assert isinstance(ml, MultiIndexLocation) and len(ml) == len(cells), "multiplicity = number of lattice positions"
    assert [(l.i, l.j) for l in ml] == cells


@lemma(overrides=BLK, gen={"kind": (0, 5), "p": (0.5, 30.0), "q": (0.5, 30.0), "n": (1, 3)})
def spatial_grid_has_the_specified_geometry_and_pitch(kind: int, p: float, q: float, n: int, noPitch: bool):
    """GridBlueprint._constructSpatialGrid / _getMaxIndex (+ HexGrid.fromPitch, CartesianGrid.fromRectangle): hex flats-up / corners-up
    (third, full) and Cartesian (full, odd window through the centre / even window offset): the grid has the class, the
    orientation and the lattice pitch of the blueprint (unit pitch when none is given), spans the contents plus the rings for
    edge assemblies, and carries geometry and symmetry as given; contents reach out to index n = 1..3."""
    assume(p > 0 and q > 0)
    kind, n = choose(kind, 0, 5), choose(n, 1, 3)
    geom = ("hex", "hex", "hex_corners_up", "hex_corners_up", "cartesian", "cartesian")[kind]
    sym = ("third periodic", "full", "third periodic", "full", "full", "full")[kind]
    if kind < 4:
        contents = {(0, 0): "C", (n, 0): "A", (0, 1): "B"}
    elif kind == 4:
        contents = {(i, j): "A" for i in range(-n, n + 1) for j in range(-1, 2)}  # (2n+1) x 3 window
        if n == 1:
            contents = {(i, j): "A" for i in range(-1, 2) for j in range(-1, 2)}
    else:
        contents = {(i, j): "A" for i in range(-n, n) for j in range(-n, n)}  # even window
    g = GridBlueprint("core", geom, None, sym, contents, None)
    g.latticeDimensions = None if noPitch else Triplet(p, q, 0.0)
    sg = g._constructSpatialGrid()
    px, py = (1.0, 1.0) if noPitch else (p, q)
    assert sg._geomType == geom and sg._symmetry == g.symmetry
    maxIndex = n if kind != 5 else n - 1
    if kind < 4:
        assert isinstance(sg, HexGrid) and eq(sg.pitch, px), "hex lattice pitch as given"
        assert sg.cornersUp == (kind >= 2), "orientation as given"
        assert sg._unitStepLimits[0] == (-(maxIndex + 2), maxIndex + 2), "room for the contents and the edge assemblies"
        assert g.symmetry == sym
    else:
        assert isinstance(sg, CartesianGrid) and eq(sg.pitch[0], px) and eq(sg.pitch[1], py), "x and y pitch as given"
        assert sg._unitStepLimits[0] == (-(maxIndex + 1), maxIndex + 1)
        through = kind == 4 and n == 1
        off = sg._offset
        if through:
            assert g.symmetry != "full" and g.symmetry.startswith("full") and eq(off[0], 0.0) and eq(off[1], 0.0), "square odd window: cell (0,0) is centred on the origin"
        else:
            assert g.symmetry == "full" and eq(off[0], px / 2.0) and eq(off[1], py / 2.0), "otherwise the origin is a cell corner"


@lemma(overrides=BLK, gen={"case": (0, 4), "t1": (0.0, 3.0), "t2": (0.0, 7.0), "r1": (0.0, 10.0), "r2": (0.0, 20.0)})
def theta_rz_grid_needs_sorted_bounds(case: int, t1: float, t2: float, r1: float, r2: float):
    """_constructSpatialGrid for theta-r-z: the grid bounds are the ones given; missing bounds, a missing theta or r entry and
    unsorted / repeated bounds are refused (InputError)."""
    case = choose(case, 0, 4)
    bounds = [None, {"r": [0.0, r1, r2]}, {"theta": [0.0, t1, t2]}, {"theta": [0.0, t1, t2], "r": [0.0, r1, r2]},
              {"theta": [0.0, t1, t2], "r": [0.0, r1, r2], "z": [0.0, 1.0]}][case]
    g = GridBlueprint("core", "thetarz", None, "full", {(0, 0): "A"}, bounds)
    g.latticeDimensions = None
    try:
        sg = g._constructSpatialGrid()
        ok = True
    except InputError:
        ok = False
    good = case >= 3 and 0 < t1 and t1 < t2 and 0 < r1 and r1 < r2
    assert ok == good, "bounds present and strictly increasing, else refused"
    if ok:
        assert isinstance(sg, ThetaRZGrid)
        assert eq(list(sg._bounds[0]), [0.0, t1, t2]) and eq(list(sg._bounds[1]), [0.0, r1, r2])


# ------------------------------------------------------------------------------------------------ systems (core, pools)
SystemBlueprint = repo("armi.reactor.blueprints.reactorBlueprint:SystemBlueprint")
Grids = repo("armi.reactor.blueprints.gridBlueprint:Grids")
CoordinateLocation = repo("armi.reactor.grids.locations:CoordinateLocation")
SYS = {"armi.reactor.blueprints.gridBlueprint:yamlize": "YZ", "armi.reactor.blueprints.reactorBlueprint:yamlize": "YZ",
       "armi.reactor.blueprints.reactorBlueprint:context": "CTX",
       "armi.reactor.blueprints.reactorBlueprint:getPluginManagerOrFail": "pluginManagerContract"}


class CTX:
    """armi.context as SystemBlueprint.construct uses it: this is the primary process"""

    MPI_RANK = 0


class AssemMark:
    """an assembly handed out by Blueprints.constructAssem: the specifier it was made for and its serial number"""


class BpAssem:
    """the root blueprints as the system blueprint sees it: gridDesigns; constructAssem(cs, specifier=) returns a NEW assembly of the
    design with that specifier, KeyError for a specifier no design has"""

    def constructAssem(self, cs, name=None, specifier=None):
        if specifier not in self.known:
            raise KeyError(specifier)
        self.made = self.made + 1
        return new(AssemMark, specifier=specifier, serial=self.made)


class SystemProbe:
    """a system (core, pool): add(assembly, location) files the assembly at the location, LookupError for the location whose
    indices are `bad`"""

    def __init__(self, name):
        self.name = name
        self.placed = []
        self.bad = None
        self.spatialGrid = None
        self.spatialLocator = None

    def add(self, a, loc):
        if (loc.i, loc.j) == self.bad:
            raise LookupError(loc)
        self.placed.append((a, loc))


@lemma(overrides=SYS, gen={"i": (-2, 2), "j": (-2, 2), "case": (0, 2), "p": (0.5, 30.0)})
def every_named_location_gets_a_new_assembly_of_the_specified_design(i: int, j: int, case: int, p: float):
    """SystemBlueprint._loadComposites (+ HexGrid.__getitem__): contents = centre 'IC', (1, 0) 'OC' and one more cell (i, j) in -2..2
    (enumerated) 'IC': every named location gets its own new assembly made for the specifier written there, at the locator
    with exactly those indices on the system's grid - nothing else is placed; a specifier no assembly design has (case 1) and
    a location the system does not have (case 2) are refused.  Stand-ins: BpAssem, SystemProbe, AssemMark."""
    assume(p > 0)
    i, j, case = choose(i, -2, 2), choose(j, -2, 2), choose(case, 0, 2)
    contents = {(0, 0): "IC", (1, 0): "OC"}
    contents[i, j] = "XX" if case == 1 else "IC"
    system = SystemProbe("core")
    system.spatialGrid = hexGridDesign(dict(contents), "full", "hex", None, p).construct()
    system.bad = (i, j) if case == 2 else None
    bp = new(BpAssem, known=("IC", "OC"), made=0)
    sb = SystemBlueprint("core", "core", Triplet(0.0, 0.0, 0.0))
    try:
        sb._loadComposites({}, system, contents, bp)
        ok = True
    except (ValueError, KeyError):
        ok = False
    assert ok == (case == 0), "unknown specifier / non-existent location refused"
    if ok:
        assert len(system.placed) == len(contents), "one assembly per named location"
        cells = list(contents.keys())
        for k in range(len(cells)):
            a, loc = system.placed[k]
            assert (loc.i, loc.j, loc.k) == (cells[k][0], cells[k][1], 0) and same(loc.grid, system.spatialGrid)
            assert a.specifier == contents[cells[k]], "the specified design"
            assert a.serial == k + 1, "a new assembly each time"


class PoolProbe(SystemProbe):
    pass


class Hook:
    def defineSystemBuilders(self):
        return [{"core": SystemProbe}, {"sfp": PoolProbe, "core": PoolProbe}]


class PM:
    """the plugin manager: its hook defineSystemBuilders() gives, per plugin, {system type: class}"""

    hook = Hook()


def pluginManagerContract():
    return PM()


class ReactorProbe:
    def add(self, system):
        self.children.append(system)


@lemma(overrides=SYS, gen={"typ": (0, 2), "grid": (0, 2), "p": (0.5, 30.0)})
def system_is_built_with_the_named_grid_at_the_specified_origin(typ: int, grid: int, x: float, y: float, z: float, p: float, load: bool):
    """SystemBlueprint.construct / _resolveSystemType / _constructComposites (+ GridBlueprint.construct, _loadComposites): the system is an
    instance of the FIRST class a plugin offers for its type, has the blueprint's name, is a child of the reactor, sits at the
    specified origin, carries the grid built from the grid design it NAMES (pitch as given there) and - when loading is asked
    for - one assembly per location of that design; an unknown system type and a blueprint without grids are refused; a grid
    name no design has gives a system without a grid.  Stand-ins: PM / Hook, SystemProbe, ReactorProbe, BpAssem."""
    assume(p > 0)
    typ, grid = choose(typ, 0, 2), choose(grid, 0, 2)
    gCore = hexGridDesign({(0, 0): "IC", (1, 0): "OC", (0, 1): "OC"}, "full", "hex", None, p)
    gPool = hexGridDesign({(0, 0): "OC"}, "full", "hex", None, 2.0 * p)
    gPool.name = "sfp"
    designs = ymap(Grids, [("core", gCore), ("sfp", gPool)])
    bp = new(BpAssem, known=("IC", "OC"), made=0, gridDesigns=designs)
    sb = SystemBlueprint("primary", ("core", "sfp", "nope")[grid], Triplet(x, y, z))
    sb.typ = ("core", "sfp", "tank")[typ]
    r = new(ReactorProbe, children=[])
    try:
        s = sb.construct({}, bp, r, loadComps=load)
        ok = True
    except ValueError:
        ok = False
    assert ok == (typ != 2), "unknown system type refused"
    if ok:
        assert type(s) is (SystemProbe, PoolProbe)[typ] and s.name == "primary", "first builder offered for the type"
        assert len(r.children) == 1 and same(r.children[0], s)
        o = s.spatialLocator
        assert isinstance(o, CoordinateLocation) and eq(o.i, x) and eq(o.j, y) and eq(o.k, z) and o.grid is None, "at the specified origin"
        if grid == 2:
            assert s.spatialGrid is None and s.placed == []
        else:
            assert eq(s.spatialGrid.pitch, (p, 2.0 * p)[grid]) and same(s.spatialGrid.armiObject, s), "the grid design it names"
            assert [a.specifier for a, loc in s.placed] == ((["IC", "OC", "OC"], ["OC"])[grid] if load else [])
    bp0 = new(BpAssem, known=(), made=0, gridDesigns=ymap(Grids, []))
    assert refused(lambda: sb.construct({}, bp0, new(ReactorProbe, children=[]))), "no grids at all: refused"


# ------------------------------------------------------------------------------------------------ components
Material = repo("armi.materials.material:Material")
basicShapes = repo("armi.reactor.components.basicShapes")
DimensionLink = repo("armi.reactor.components.component:_DimensionLink")
ComponentDimension = repo("armi.reactor.blueprints.componentBlueprint:ComponentDimension")


class PMap:
    """Abstract view of a ParameterCollection: a name -> value map (trusted model of `self.p`, as in C03_expansion.py)."""

    def __getitem__(self, k):
        return getattr(self, k)

    def __setitem__(self, k, v):
        setattr(self, k, v)

    def get(self, k, d=None):
        return getattr(self, k, d)

    def __contains__(self, k):
        return hasattr(self, k)


class AnySolid(Material):
    """a solid material with an arbitrary expansion correlation P(T)"""

    def linearExpansionPercent(self, Tk=None, Tc=None):
        return uf("P", Tc)


def circle(name, T0, T1, od, id_, mult, nativeMaterial="HT9"):
    """a Circle component the way components.factory builds it from the blueprint's keyword arguments"""
    if NATIVE:
        return basicShapes.Circle(name, nativeMaterial, T0, T1, od=od, id=id_, mult=mult)
    assume(uf("P", T0) > -100.0 and uf("P", T1) > -100.0)
    p = new(PMap, numberDensities={"FE": 0.02}, volume=None, detailedNDens=None, pinNDens=None, modArea=None, temperatureInC=T1, od=od, id=id_, mult=mult)
    # DIMENSION_NAMES: assigned by the metaclass ComponentType from the __init__ signature (od, id, mult, modArea for a Circle)
    return new(basicShapes.Circle, name=name, p=p, material=new(AnySolid), inputTemperatureInC=T0, parent=None, cached={},
               DIMENSION_NAMES=("od", "id", "mult", "modArea"))


@lemma(gen={"T0": (20.0, 400.0), "T1": (20.0, 700.0), "fuelOd": (0.1, 1.0), "gapW": (0.01, 0.1), "cladW": (0.01, 0.2), "case": (0, 3)})
def link_strings_become_links_to_the_named_components(T0: float, T1: float, fuelOd: float, gapW: float, cladW: float, case: int):
    """Component.resolveLinkedDims (+ COMPONENT_LINK_REGEX, _DimensionLink.resolveDimension, getDimension) on a pin of fuel / gap / clad
    where the gap is written `id: fuel.od`, `od: clad.id`: afterwards the gap's dimensions ARE the named dimensions of the named
    components (hot and cold), numeric dimensions are untouched; a link to a component the block does not have and a name with
    periods are refused.  Material: arbitrary expansion law (AnySolid); parameters: PMap."""
    assume(fuelOd > 0 and gapW > 0 and cladW > 0)
    case = choose(case, 0, 3)
    fuel = circle("fuel", T0, T1, fuelOd, 0.0, 1)
    clad = circle("clad", T0, T1, fuelOd + gapW + cladW, fuelOd + gapW, 1)
    idSpec = ("fuel.od", " fuel . od ", "pellet.od", "pel.let.od")[case]
    gap = circle("gap", T0, T1, "clad.id", idSpec, 1)
    comps = {"fuel": fuel, "gap": gap, "clad": clad}
    try:
        for c in (fuel, gap, clad):
            c.resolveLinkedDims(comps)
        ok = True
    except (KeyError, ValueError):
        ok = False
    assert ok == (case <= 1), "unknown component / periods in the name refused"
    if ok:
        assert isinstance(gap.p.id, DimensionLink) and isinstance(gap.p.od, DimensionLink)
        assert eq(gap.getDimension("id", cold=True), fuelOd) and eq(gap.getDimension("od", cold=True), fuelOd + gapW), "cold dimensions as linked"
        try:
            assert eq(gap.getDimension("id"), fuel.getDimension("od")) and eq(gap.getDimension("od"), clad.getDimension("id")), "hot ones follow"
        except RuntimeError:
            pass  # an expansion law with P(T1) = P(T0) at T1 != T0 is refused loudly by getThermalExpansionFactor: outside the statement (as in C03)
        assert eq(fuel.getDimension("od", cold=True), fuelOd) and eq(clad.getDimension("id", cold=True), fuelOd + gapW), "numeric dimensions untouched"
        assert gap.getDimension("mult") == 1


@lemma(gen={"T0": (20.0, 400.0), "T1": (20.0, 700.0), "fuelOd": (0.1, 1.0), "gapW": (-0.05, 0.0), "cladW": (0.01, 0.2), "case": (0, 3)})
def link_strings_become_links_also_for_a_gap_without_width(T0: float, T1: float, fuelOd: float, gapW: float, cladW: float, case: int):
    """link_strings_become_links_to_the_named_components for a gap of ZERO or NEGATIVE width (clad id <= fuel od: the
    components touch or overlap when cold - the gap's area is then <= 0, which armi admits for a void gap when hot).
    Linking is about names, not sizes: the same statement holds.
    Component.resolveLinkedDims (+ COMPONENT_LINK_REGEX, _DimensionLink.resolveDimension, getDimension) on a pin of fuel / gap / clad
    where the gap is written `id: fuel.od`, `od: clad.id`: afterwards the gap's dimensions ARE the named dimensions of the named
    components (hot and cold), numeric dimensions are untouched; a link to a component the block does not have and a name with
    periods are refused.  Material: arbitrary expansion law (AnySolid); parameters: PMap."""
    assume(fuelOd > 0 and gapW <= 0 and fuelOd + gapW > 0 and cladW > 0)
    case = choose(case, 0, 3)
    fuel = circle("fuel", T0, T1, fuelOd, 0.0, 1)
    clad = circle("clad", T0, T1, fuelOd + gapW + cladW, fuelOd + gapW, 1)
    idSpec = ("fuel.od", " fuel . od ", "pellet.od", "pel.let.od")[case]
    gap = circle("gap", T0, T1, "clad.id", idSpec, 1)
    comps = {"fuel": fuel, "gap": gap, "clad": clad}
    try:
        for c in (fuel, gap, clad):
            c.resolveLinkedDims(comps)
        ok = True
    except (KeyError, ValueError):
        ok = False
    assert ok == (case <= 1), "unknown component / periods in the name refused"
    if ok:
        assert isinstance(gap.p.id, DimensionLink) and isinstance(gap.p.od, DimensionLink)
        assert eq(gap.getDimension("id", cold=True), fuelOd) and eq(gap.getDimension("od", cold=True), fuelOd + gapW), "cold dimensions as linked"
        try:
            assert eq(gap.getDimension("id"), fuel.getDimension("od")) and eq(gap.getDimension("od"), clad.getDimension("id")), "hot ones follow"
        except RuntimeError:
            pass  # an expansion law with P(T1) = P(T0) at T1 != T0 is refused loudly by getThermalExpansionFactor: outside the statement (as in C03)
        assert eq(fuel.getDimension("od", cold=True), fuelOd) and eq(clad.getDimension("id", cold=True), fuelOd + gapW), "numeric dimensions untouched"
        assert gap.getDimension("mult") == 1


class YAttr:
    """yamlize.Attribute as ComponentBlueprint._conformKwargs uses it: name, default, get_value(obj) = the object's value"""

    def get_value(self, obj):
        return getattr(obj, self.name)


COMPONENT_ATTRS = ("name", "flags", "shape", "material", "Tinput", "Thot", "isotopics", "latticeIDs", "origin", "orientation", "mergeWith",
                   "area", "od", "id", "mult")


def componentDesign(**given):
    """a ComponentBlueprint with the given attributes, every other one at its default None (symbolically the attribute list
    `attributes`, which yamlize's metaclass collects, is given explicitly: the attributes above, a Circle's dimensions)"""
    if NATIVE:
        return new(ComponentBlueprint, **{k: v for k, v in given.items() if v is not None})
    vals = {a: None for a in COMPONENT_ATTRS}
    vals.update(given)
    return new(ComponentBlueprint, attributes=[new(YAttr, name=a, default=None) for a in COMPONENT_ATTRS], **vals)


class MatMark:
    """the material instance _constructMaterial returns"""


def constructMaterialContract(self, blueprint, matMods):
    """contract of ComponentBlueprint._constructMaterial used here: a material made for this component with these modifications
    (what it is: material_gets_isotopics_first_then_the_modifications)"""
    return new(MatMark, forComponent=self.name, mods=matMods)


@lemma(overrides=BLK, stubs={"armi.reactor.blueprints.componentBlueprint:ComponentBlueprint._constructMaterial": "constructMaterialContract"},
       gen={"Ti": (20.0, 400.0), "Th": (20.0, 700.0), "od": (0.1, 2.0), "mult": (1, 300), "variant": (0, 2)})
def component_keywords_are_the_blueprint_values(Ti: float, Th: float, od: float, mult: int, variant: int, e: float):
    """ComponentBlueprint._conformKwargs (+ ComponentDimension): the keyword arguments the component is built with are the
    blueprint's name, input and hot temperature, multiplicity and dimensions - numbers as numbers, links as the link text
    (also when wrapped twice) -, the material made by _constructMaterial for the given modifications, isotopics / mergeWith
    ('' when absent); shape, flags, lattice IDs are not passed on and attributes left out in the input do not appear.
    Stand-ins: YAttr / attribute list, MatMark; _constructMaterial by contract."""
    variant = choose(variant, 0, 2)
    idv = (ComponentDimension(0.0), ComponentDimension("fuel.od"), ComponentDimension(ComponentDimension("fuel.od")))[variant]
    cb = componentDesign(name="gap", shape="Circle", material="Sodium", Tinput=Ti, Thot=Th, od=ComponentDimension(od), id=idv,
                         mult=ComponentDimension(mult), flags="gap" if variant else None, latticeIDs=["1"] if variant else None,
                         isotopics="MOX" if variant == 1 else None, mergeWith="clad" if variant == 2 else None)
    mods = {"TD_frac": e}
    kw = cb._conformKwargs(new(Bp), mods)
    expect = {"name", "material", "Tinput", "Thot", "od", "id", "mult", "isotopics", "mergeWith"}
    assert set(kw.keys()) == expect, "exactly the specified attributes; shape / flags / latticeIDs are not constructor arguments"
    assert kw["name"] == "gap" and eq(kw["Tinput"], Ti) and eq(kw["Thot"], Th), "input and hot temperature as specified"
    assert eq(kw["od"], od) and kw["mult"] == mult, "numeric dimensions as numbers"
    assert kw["id"] == (0.0, "fuel.od", "fuel.od")[variant], "linked dimension as the link text"
    assert not any(isinstance(kw[k], ComponentDimension) for k in ("od", "id", "mult")), "plain values, no wrapper left (a wrapper equals its value)"
    assert isinstance(kw["material"], MatMark) and kw["material"].forComponent == "gap" and same(kw["material"].mods, mods)
    assert kw["isotopics"] == ("MOX" if variant == 1 else "") and kw["mergeWith"] == ("clad" if variant == 2 else "")


@lemma(overrides=BLK, gen={"case": (0, 5)})
def dimension_is_a_number_or_a_well_formed_link(case: int, x: float):
    """ComponentDimension.__init__: numbers and `name.dimension` texts are accepted, any other text is refused."""
    case = choose(case, 0, 5)
    v = (x, "fuel.od", " clad . id ", "fuelod", "", ".")[case]
    try:
        d = ComponentDimension(v)
        ok = True
    except ValueError:
        ok = False
    assert ok == (case <= 2), "bad component link refused"
    if ok:
        assert d.value == v


class DenseSolid:
    """a library solid (stand-in for the class resolveMaterialClassByName returns): density(Tc) and linearExpansionFactor(Tc, T0) are
    arbitrary functions with density > 0, 1 + dL/L > 0"""

    def density(self, Tk=None, Tc=None):
        return 7.5 if NATIVE else uf("rhoLib", Tc)

    def linearExpansionFactor(self, Tc, T0):
        return 1.2e-5 * (Tc - T0) if NATIVE else uf("dLL", Tc, T0)


class ThinFluid(DenseSolid):
    """a library fluid"""


class NoDensity(DenseSolid):
    """a material without density (Void)"""

    def density(self, Tk=None, Tc=None):
        return 0.0


class MATS3:
    """armi.materials as ComponentBlueprint._setComponentCustomDensity uses it"""

    Custom = RealCustom
    Fluid = ThinFluid

    @staticmethod
    def resolveMaterialClassByName(name):
        return {"DenseSolid": DenseSolid, "ThinFluid": ThinFluid, "NoDensity": NoDensity, "Custom": RealCustom}[name]


DENS = {"armi.reactor.blueprints.isotopicOptions:yamlize": "YZ", "armi.reactor.blueprints.isotopicOptions:ALLOWED_KEYS": "KEYS",
        "armi.reactor.blueprints.isotopicOptions:materials": "MATS", "armi.reactor.blueprints.componentBlueprint:yamlize": "YZ",
        "armi.reactor.blueprints.componentBlueprint:materials": "MATS3", "armi.nucDirectory.nuclideBases:byName": "BYNAME"}


@lemma(overrides=DENS, stubs=WST, gen={"kind": (0, 4), "rho": (-1.0, 20.0), "n1": (0.001, 0.03), "n2": (0.001, 0.03), "T0": (20.0, 400.0),
                                      "T1": (20.0, 700.0)})
def custom_isotopic_density_sets_the_component_density(kind: int, rho: float, n1: float, n2: float, T0: float, T1: float, hot: bool):
    """ComponentBlueprint._setComponentCustomDensity (+ Component.density / changeNDensByFactor): a component of a LIBRARY solid
    with custom isotopics of density rho (mass per COLD volume, at the input temperature) ends with the hot density
    rho / (1 + dL/L)^3 - or rho / (1 + dL/L)^2 when the input heights are hot (the height does not expand) -, every nuclide
    scaled alike; a library fluid is scaled by rho / (library density at the input temperature); a Custom material, isotopics
    without density and a component without isotopics are left alone; rho <= 0 and a material without density are refused.
    Stand-ins: DenseSolid / ThinFluid / NoDensity / MATS3, Bp; component = Circle with PMap."""
    weights_positive()
    assume(n1 > 0 and n2 > 0)
    kind = choose(kind, 0, 4)
    matName = ("DenseSolid", "ThinFluid", "Custom", "NoDensity", "DenseSolid")[kind]
    ci = isotopic("mass fractions", None if kind == 4 else rho, [0.2, 0.8])
    ci._initializeMassFracs()
    bp = new(Bp, customIsotopics=ymap(CustomIsotopics, [("MOX", ci)]))
    cb = new(ComponentBlueprint, name="fuel", material=matName, isotopics="MOX", Tinput=T0)
    comp = circle("fuel", T0, T1, 1.0, 0.0, 1, "Void")  # natively a real Circle without nuclides of its own
    comp.p.numberDensities = {"U235": n1, "U238": n2}
    before = comp.density()
    if not NATIVE:
        assume(uf("rhoLib", T0) > 0 and 1.0 + uf("dLL", T1, T0) > 0)
    try:
        cb._setComponentCustomDensity(comp, bp, {}, hot)
        ok = True
    except ValueError:
        ok = False
    assert ok == (kind == 4 or (rho > 0 and kind != 3)), "zero / negative density and a material without density are refused"
    if ok:
        after = comp.density()
        lib = new(DenseSolid)
        g = 1.0 + lib.linearExpansionFactor(T1, T0)
        if kind == 0:
            assert eq(after * (g * g if hot else g * g * g), rho), "hot density = cold custom density / volume expansion"
        elif kind == 1:
            assert eq(after * lib.density(Tc=T0), before * rho)
        else:
            assert eq(after, before), "Custom material / no density: untouched"
        assert eq(comp.p.numberDensities["U235"] * n2, comp.p.numberDensities["U238"] * n1), "composition ratio kept"
    cb2 = new(ComponentBlueprint, name="fuel", material=matName, isotopics=None, Tinput=T0)
    cb2._setComponentCustomDensity(comp, bp, {}, hot)
    assert eq(comp.density(), after if ok else before), "no isotopics: nothing to do"


# ------------------------------------------------------------------------------------------------ nuclide flags, type numbers
BYNAME_U = {"U235": U5, "U238": U8, "O16": O16, "U": nuc("U", 0, element=EL_U)}
FLG = {"armi.reactor.blueprints.isotopicOptions:yamlize": "YZ", "armi.reactor.blueprints.isotopicOptions:ALLOWED_KEYS": "KEYS",
       "armi.nucDirectory.nuclideBases:byName": "BYNAME_U"}


@lemma(overrides=FLG, gen={"which": (0, 3)})
def nuclide_flag_files_the_nuclide_as_active_or_inert(which: int, burn: bool, xs: bool):
    """NuclideFlag.fileAsActiveOrInert: `burn` puts the nuclide (or, for an element with `expandTo`, the isotopes named there -
    never the element itself) into the active set, `xs` into the inert one, nothing else is touched; the expanded element is
    reported; an active nuclide without transmutations and decays (here: all but U235) is reported as truncating the burn
    chain.  Table: stand-in BYNAME_U."""
    which = choose(which, 0, 3)
    name = ("U235", "O16", "U", "U")[which]
    expandTo = (None, [], ["U238"], ["U235", "U238"])[which]
    active, inert = {"PU239"}, {"FE"}
    flag = NuclideFlag(name, burn, xs, expandTo)
    expanded, undefined = flag.fileAsActiveOrInert(active, inert)
    nucs = ({"U235"}, {"O16"}, {"U238"}, {"U235", "U238"})[which]
    assert active == ({"PU239"} | nucs if burn else {"PU239"}), "burn: active"
    assert inert == ({"FE"} | nucs if xs else {"FE"}), "xs: in the cross-section set"
    assert len(expanded) == (1 if which >= 2 else 0) and all(e.symbol == "U" for e in expanded), "the element that was expanded"
    assert undefined == ((nucs - {"U235"}) if burn else set())


Blueprints = repo("armi.reactor.blueprints:Blueprints")
AssemblyKeyedList = repo("armi.reactor.blueprints.assemblyBlueprint:AssemblyKeyedList")
BlockKeyedList = repo("armi.reactor.blueprints.blockBlueprint:BlockKeyedList")
ROOT = {"armi.reactor.blueprints.blockBlueprint:yamlize": "YZ", "armi.reactor.blueprints.componentBlueprint:yamlize": "YZ",
        "armi.reactor.blueprints.assemblyBlueprint:yamlize": "YZ", "armi.reactor.blueprints.isotopicOptions:yamlize": "YZ",
        "armi.reactor.blueprints.gridBlueprint:yamlize": "YZ", "armi.reactor.blueprints.reactorBlueprint:yamlize": "YZ",
        "armi.reactor.blueprints:yamlize": "YZ"}


def assemblyOf(name, blocks):
    return new(AssemblyBlueprint, name=name, specifier=name[:2], blocks=blocks)


@lemma(overrides=ROOT, gen={"given": (0, 1)})
def block_designs_are_collected_from_the_assemblies_once_each(given: int):
    """Blueprints._assignTypeNums: without a `blocks` section the block designs are those used by the assemblies, each ONCE, in
    the order of first use, filed under their names; a given `blocks` section is left as it is."""
    given = choose(given, 0, 1)
    b1, b2, b3 = blockDesign("grid plate"), blockDesign("fuel"), blockDesign("plenum")
    assems = ymap(AssemblyKeyedList, [("inner", assemblyOf("inner", [b1, b2, b2, b3])), ("outer", assemblyOf("outer", [b1, b3]))])
    own = ymap(BlockKeyedList, [("fuel", b2)])
    bp = new(Blueprints, assemDesigns=assems, blockDesigns=own if given else None)
    bp._assignTypeNums()
    if given:
        assert same(bp.blockDesigns, own) and list(bp.blockDesigns.keys()) == ["fuel"]
    else:
        assert list(bp.blockDesigns.keys()) == ["grid plate", "fuel", "plenum"], "each design once, first use first"
        assert [d for d in bp.blockDesigns] == [b1, b2, b3] and all(same(x, y) for x, y in zip(bp.blockDesigns, [b1, b2, b3]))


# ------------------------------------------------------------------------------------------------ block construction
Component = repo("armi.reactor.components.component:Component")


class CompProbe(Component):
    """a constructed component (collaborator of BlockBlueprint.construct; a Component as far as isinstance goes): name,
    multiplicity, bounding diameter, the modifications it was built with, and a log of what the block blueprint does with it"""

    def getDimension(self, key, Tc=None, cold=False):
        return self.dims[key]

    def setDimension(self, key, val, retainLink=False, cold=True):
        self.dims[key] = val

    def resolveLinkedDims(self, components):
        self.linkedWith = list(components.keys())

    def __lt__(self, other):
        return self.dims["od"] < other.dims["od"]


def constructComponentContract(self, blueprint, matMods, inputHeightsConsideredHot):
    """contract of ComponentBlueprint.construct used here: a component of that name with the blueprint's multiplicity and size, built
    with these modifications (what goes into it: component_keywords_are_the_blueprint_values, material_gets_isotopics_first...)"""
    return new(CompProbe, name=self.name, dims={"mult": self.multIn, "od": self.odIn}, mods=dict(matMods), hot=inputHeightsConsideredHot,
               spatialLocator=None, linkedWith=None, p=new(PMap, mergeWith=None))


def modifierNamesContract(self, c):
    """contract of BlockBlueprint._getMaterialModsFromBlockChildren: the modification names the child's material understands"""
    return {"TD_frac", "U235_wt_frac"}


class BlockProbe2:
    """the block class chosen for the outermost component (collaborator): children in the order added, parameters, a log"""

    def __init__(self, name):
        self.name = name
        self.p = new(PMapB, paramDefs=new(PDefs), nPins=None, axMesh=None, height=None, heightBOL=None, xsType=None, buGroup=None)
        self.children = []
        self.log = []
        self.spatialGrid = None

    def setType(self, typ, flags=None):
        self.log.append(("setType", typ, flags))

    def add(self, c):
        self.children.append(c)

    def getNumPins(self):
        return 17

    def setBuLimitInfo(self):
        self.log.append("buLimit")

    def iterComponents(self):
        return iter(self.children)

    def verifyBlockDims(self):
        self.log.append(("verify", len(self.children)))


def blockClassContract(self, outerComponent):
    """contract of BlockBlueprint._getBlockClass: some block class; records which component was taken as the outermost"""
    self.outer = outerComponent.name
    return BlockProbe2


CONSTRUCT = {"armi.reactor.blueprints.componentBlueprint:ComponentBlueprint.construct": "constructComponentContract",
             "armi.reactor.blueprints.blockBlueprint:BlockBlueprint._getMaterialModsFromBlockChildren": "modifierNamesContract",
             "armi.reactor.blueprints.blockBlueprint:BlockBlueprint._getBlockClass": "blockClassContract"}


def pinDesign(name, latticeIDs, mult, od):
    return new(ComponentBlueprint, name=name, shape="Circle", latticeIDs=latticeIDs, multIn=mult, odIn=od)


@lemma(overrides=BLK, stubs=CONSTRUCT, gen={"nFuel": (1, 3), "multCase": (0, 3), "modCase": (0, 3), "h": (1.0, 100.0), "mesh": (1, 5),
                                            "factor": (1, 3), "k": (0, 2)})
def block_is_built_as_the_block_design_says(nFuel: int, multCase: int, modCase: int, h: float, mesh: int, factor: int, k: int,
                                            e: float, t: float, hot: bool):
    """BlockBlueprint.construct (+ _getGridDesign, GridBlueprint.construct / getMultiLocator, _checkByComponentMaterialInput,
    _filterMaterialInput, _getBlockwiseMaterialModifierOptions, _mergeComponents, _setBlueprintNumberOfAxialMeshes): a block design
    with the components fuel (lattice id 1), clad (lattice id 2) and duct (not in the lattice) on a pin lattice with nFuel = 1..3
    fuel positions and one clad position.  The block has the components in the SPECIFIED ORDER, each built with the
    block-wide modifications overridden by its own; fuel gets the lattice locations of its id and their NUMBER as
    multiplicity (when its blueprint gives none or 1), an explicit multiplicity that contradicts the lattice is refused; the
    duct keeps its multiplicity and has no location; links are resolved when all components exist; the outermost component
    (largest) chooses the block class; height, xs type, mesh points x refinement factor, name and grid are as specified;
    a modification name no material of the block understands is refused.
    Collaborators by contract: ComponentBlueprint.construct (CompProbe), _getMaterialModsFromBlockChildren, _getBlockClass
    (BlockProbe2); parameters PMap / PMapB / PDefs."""
    nFuel, multCase, modCase = choose(nFuel, 1, 3), choose(multCase, 0, 3), choose(modCase, 0, 3)
    assume(mesh >= 1 and 1 <= factor)
    k = (0, 7, 12)[choose(k, 0, 2)]
    cells = [(0, 0), (1, 0), (0, 1)][:nFuel]
    contents = {c: "1" for c in cells}
    contents[(1, 1)] = "2"
    grid = hexGridDesign(contents, "full", "hex", None, 1.2)
    grid.name = "pins"
    fuelMult = (None, 1.0, nFuel, nFuel + 1)[multCase]
    blk = ymap(BlockBlueprint, [("fuel", pinDesign("fuel", ["1"], fuelMult, 0.8)), ("duct", pinDesign("duct", None, 1.0, 15.0)),
                                ("clad", pinDesign("clad", [2], None, 1.0))],
               name="fuel block", gridName="pins", flags=None, axialExpTargetComponent=None, buGroup=None)
    bp = new(Bp, gridDesigns={"pins": grid})
    matIn = [{}, {"byBlock": {"TD_frac": t, "U235_wt_frac": e}, "fuel": {"TD_frac": 0.5}}, {"byBlock": {"ZR_wt_frac": e}},
             {"byBlock": {}, "clad": {"ZR_wt_frac": e}}][modCase]
    cs = {"inputHeightsConsideredHot": hot, "axialMeshRefinementFactor": factor}
    try:
        b = blk.construct(cs, bp, k, mesh, h, "B", matIn)
        ok = True
    except ValueError:
        ok = False
    assert ok == (multCase != 3 and modCase <= 1), "contradicting multiplicity / unknown modification refused"
    if ok:
        assert isinstance(b, BlockProbe2) and [c.name for c in b.children] == ["fuel", "duct", "clad"], "components in the specified order"
        fuel, duct, clad = b.children
        assert fuel.dims["mult"] == nFuel and clad.dims["mult"] == 1, "multiplicity = number of lattice positions"
        assert [(l.i, l.j) for l in fuel.spatialLocator] == cells and [(l.i, l.j) for l in clad.spatialLocator] == [(1, 1)]
        assert duct.dims["mult"] == 1.0 and duct.spatialLocator is None, "not in the lattice: as specified"
        if modCase == 1:
            assert fuel.mods == {"TD_frac": 0.5, "U235_wt_frac": e} and clad.mods == {"TD_frac": t, "U235_wt_frac": e} and duct.mods == clad.mods
        else:
            assert fuel.mods == {} and clad.mods == {} and duct.mods == {}
        assert fuel.hot == hot
        assert all(c.linkedWith == ["fuel", "duct", "clad"] for c in b.children), "links resolved once every component exists"
        assert blk.outer == "duct", "the largest component bounds the block"
        assert b.name == ("block-bol-000", "block-bol-007", "block-bol-012")[(0, 7, 12).index(k)] and eq(b.p.height, h) and eq(b.p.heightBOL, h) and b.p.xsType == "B"
        assert b.p.axMesh == mesh * factor and b.p.nPins == 17
        assert b.log == [("setType", "fuel block", None), "buLimit", ("verify", 3)]
        assert same(b.spatialGrid, fuel.spatialLocator.grid) and eq(b.spatialGrid.pitch, 1.2), "the lattice of the block design"


# ------------------------------------------------------------------------------------------------ component / group construction
class MadeComponent:
    """what components.factory returns (collaborator): remembers shape and keyword arguments; material with a theoretical density"""

    def setDimension(self, key, val):
        self.kwargs[key] = val


class TDMat:
    def getTD(self):
        return self.td


def factoryContract(shape, bcomps, kwargs):
    """contract of components.factory: the component class registered for that (lower-case) shape, built with the keywords;
    ValueError for an unknown shape"""
    if shape not in ("circle", "hexagon"):
        raise ValueError(shape)
    return new(MadeComponent, shape=shape, kwargs=dict(kwargs), p=new(PMap, theoreticalDensityFrac=None), material=new(TDMat, td=kwargs["td"]),
               flagged=None, depletable=None, customDensity=None, name=kwargs["name"])


def conformContract(self, blueprint, matMods):
    """contract of _conformKwargs (component_keywords_are_the_blueprint_values): the blueprint's values as keywords"""
    return {"name": self.name, "td": self.td, "mods": dict(matMods)}


def flagsContract(component, flags, blueprint):
    component.flagged = flags


def depletableContract(c, blueprint):
    c.depletable = True


def customDensityContract(self, comp, blueprint, matMods, inputHeightsConsideredHot):
    if not isinstance(comp, GroupProbe):
        comp.customDensity = (self.name, inputHeightsConsideredHot)


class GroupProbe:
    """composites.Composite as the group branch uses it: a named container, children in the order added"""

    def __init__(self, name):
        self.name = name
        self.children = []

    def add(self, c):
        self.children.append(c)


class COMPOSITES:
    Composite = GroupProbe


class Grouped:
    """a GroupedComponent: name of a component design and its multiplicity in the group"""


MAKE = {"armi.reactor.components:factory": "factoryContract",
        "armi.reactor.blueprints.componentBlueprint:ComponentBlueprint._conformKwargs": "conformContract",
        "armi.reactor.blueprints.componentBlueprint:_setComponentFlags": "flagsContract",
        "armi.reactor.blueprints.componentBlueprint:insertDepletableNuclideKeys": "depletableContract",
        "armi.reactor.blueprints.componentBlueprint:ComponentBlueprint._setComponentCustomDensity": "customDensityContract"}
MAKEOV = {"armi.reactor.blueprints.componentBlueprint:yamlize": "YZ", "armi.reactor.blueprints.componentBlueprint:composites": "COMPOSITES"}


@lemma(overrides=MAKEOV, stubs=MAKE, gen={"case": (0, 3), "td": (0.5, 1.0), "m1": (0.1, 0.9)})
def component_or_group_is_made_as_specified(case: int, td: float, m1: float, e: float, hot: bool):
    """ComponentBlueprint.construct: a component is made by the factory for its shape (case-insensitive, blanks ignored) with
    the blueprint's keywords and the block's modifications, gets its flags, depletable nuclides, theoretical density and
    custom density; an unknown shape is refused; a component GROUP becomes a container holding, in the group's order, one
    component per entry built from the component design of that name WITHOUT block modifications and with the
    multiplicity written in the group.  Everything else by contract: components.factory (MadeComponent), _conformKwargs,
    _setComponentFlags, insertDepletableNuclideKeys, _setComponentCustomDensity, composites.Composite (GroupProbe)."""
    case = choose(case, 0, 3)
    shape = ("Circle", "  HEXAGON ", "Blob", "group")[case]
    kernel = new(ComponentBlueprint, name="kernel", shape="circle", flags=None, td=td)
    shell = new(ComponentBlueprint, name="shell", shape="circle", flags=None, td=td)
    group = [new(Grouped, name="shell", mult=m1), new(Grouped, name="kernel", mult=1.0 - m1)]
    bp = new(Bp, componentGroups={"triso": group}, componentDesigns={"kernel": kernel, "shell": shell})
    mods = {"TD_frac": e}
    try:
        # natively the shape validator of yamlize already refuses the unknown shape when the attribute is set
        cb = new(ComponentBlueprint, name="triso" if case == 3 else "fuel", shape=shape, flags="fuel depletable", td=td)
        c = cb.construct(bp, mods, hot)
        ok = True
    except ValueError:
        ok = False
    assert ok == (case != 2), "unknown shape refused"
    if ok and case < 2:
        assert isinstance(c, MadeComponent) and c.shape == ("circle", "hexagon")[case], "the specified shape"
        assert c.kwargs == {"name": "fuel", "td": td, "mods": mods}
        assert c.flagged == "fuel depletable" and c.depletable is True and eq(c.p.theoreticalDensityFrac, td)
        assert c.customDensity == ("fuel", hot)
    if ok and case == 3:
        assert isinstance(c, GroupProbe) and c.name == "triso" and [x.name for x in c.children] == ["shell", "kernel"]
        assert eq(c.children[0].kwargs["mult"], m1) and eq(c.children[1].kwargs["mult"], 1.0 - m1), "multiplicity from the group"
        assert all(x.kwargs["mods"] == {} and x.flagged == "fuel depletable" and x.depletable is True for x in c.children)
