"""C18 - blueprints -> reactor: the kernels of armi/reactor/blueprints that COMPUTE something from the input, between the
YAML reader and the reactor objects.  The lemma computes the expectation from the inputs ('as computed independently from
the input') and compares it with what the real method produced, for symbolic numbers on enumerated small shapes; an
inconsistent input must raise.

Outside the engine, replaced by stated stand-ins (natively the REAL yamlize / armi objects are used, so the native
cross-check also checks the stand-ins):
* yamlize (third party): `YZ` below - Object = plain attribute storage (an attribute reads back the value last set; all
  attributes a method reads are given to new(...)); Map / KeyedList = a wrapper around ONE insertion-ordered dict
  (KeyedList iterates over its values and is keyed by the item's `name`).  Reading the YAML text, type coercion and the
  attribute validators of yamlize are NOT covered here (bounded tier).
* the nuclide / element tables: three nuclides and one element with ARBITRARY positive atomic weights and abundances
  (uninterpreted constants symbolically, the real values natively).
* materials, components, blocks, assemblies, the plugin manager: small harness classes that state what the blueprint
  code may rely on (named in each lemma).
"""
from spec import *

iso = repo("armi.reactor.blueprints.isotopicOptions")
CustomIsotopic = repo("armi.reactor.blueprints.isotopicOptions:CustomIsotopic")
CustomIsotopics = repo("armi.reactor.blueprints.isotopicOptions:CustomIsotopics")
NuclideFlag = repo("armi.reactor.blueprints.isotopicOptions:NuclideFlag")
BlockBlueprint = repo("armi.reactor.blueprints.blockBlueprint:BlockBlueprint")
ComponentBlueprint = repo("armi.reactor.blueprints.componentBlueprint:ComponentBlueprint")
AssemblyBlueprint = repo("armi.reactor.blueprints.assemblyBlueprint:AssemblyBlueprint")
RealCustom = repo("armi.materials.custom:Custom")
Element = repo("armi.nucDirectory.elements:Element")
densityTools = repo("armi.utils.densityTools")
units = repo("armi.utils.units")
InputError = repo("armi.utils.customExceptions:InputError")


# ------------------------------------------------------------------------------------------------ yamlize stand-in
class YObject:
    """yamlize.Object: plain attribute storage"""


class YMapBase(YObject):
    """yamlize maps (yamlize.maps.__MapBase): a wrapper around ONE insertion-ordered dict; attributes the wrapper does not
    have (items, values, keys, get, update, ...) are the dict's"""

    def __getattr__(self, n):
        return getattr(self._d, n)

    def __iter__(self):
        return iter(self._d)

    def __len__(self):
        return len(self._d)

    def __contains__(self, k):
        return k in self._d

    def __getitem__(self, k):
        return self._d[k]

    def __setitem__(self, k, v):
        self._d[k] = v

    def __delitem__(self, k):
        del self._d[k]


class YMap(YMapBase):
    pass


class YKeyedList(YMapBase):
    """yamlize.KeyedList: iterates over the VALUES; `in` tests the KEYS; add(item) files the item under its key attribute
    (`name` for every keyed list used here)"""

    def __iter__(self):
        return iter(self.values())

    def __setitem__(self, key, value):
        if value.name != key:
            raise KeyError(key)
        self._d[key] = value

    def add(self, item):
        self[item.name] = item


class YInert:
    """yamlize.Attribute / Typed / Sequence ...: only used by the YAML reader"""

    def __init__(self, *a, **k):
        pass


if NATIVE:
    import yamlize as YZ
else:

    class YZ:
        Object = YObject
        Map = YMap
        KeyedList = YKeyedList
        Sequence = YInert
        Attribute = YInert
        Typed = YInert
        StrList = YInert
        FloatList = YInert
        IntList = YInert


def ymap(cls, items, **attrs):
    """an instance of the yamlize Map / KeyedList class `cls` the way yamlize builds it (__new__, setattr, obj[key] = item -
    the class's own __setitem__ runs)"""
    o = new(cls, **attrs) if NATIVE else new(cls, _d={}, **attrs)
    for k, v in items:
        o[k] = v
    return o


# ------------------------------------------------------------------------------------------------ nuclide tables
class Nuc:
    """a nuclide base as the blueprint code sees it: name, weight, abundance, a, trans, decays, element"""


W = {"U235": 235.0439299, "U238": 238.0507882, "O16": 15.9949146}
AB = {"U235": 0.007204, "U238": 0.992742, "O16": 0.99757}
if NATIVE:
    WT = dict(W)
    ABN = dict(AB)
else:
    WT = {"U235": uf("w1"), "U238": uf("w2"), "O16": uf("w3")}
    ABN = {"U235": uf("ab1"), "U238": uf("ab2"), "O16": uf("ab3")}
NAMES = ("U235", "U238", "O16")
KEYS = {"U235", "U238", "O16", "U"}


def weight_contract(nucName):
    """contract of nucDir.getAtomicWeight: the weight recorded for that nuclide"""
    return WT[nucName]


def weights_positive():
    assume(WT["U235"] > 0 and WT["U238"] > 0 and WT["O16"] > 0)


class MATS:
    """armi.materials as isotopicOptions uses it: the class Custom"""

    Custom = RealCustom


class Mat:
    """a library material (not Custom) as CustomIsotopic.apply sees it: massFrac (and whatever else it has)"""


ISO = {"armi.reactor.blueprints.isotopicOptions:yamlize": "YZ", "armi.reactor.blueprints.isotopicOptions:ALLOWED_KEYS": "KEYS",
       "armi.reactor.blueprints.isotopicOptions:materials": "MATS"}
WST = {"armi.nucDirectory.nucDir:getAtomicWeight": "weight_contract"}
C = 0.60221415  # units.MOLES_PER_CC_TO_ATOMS_PER_BARN_CM, written independently


def isotopic(fmt, density, values):
    ci = ymap(CustomIsotopic, [], name="MOX", inputFormat=fmt, _density=density, _computedDensity=None)
    for k, v in zip(NAMES, values):
        ci[k] = v  # the real CustomIsotopic.__setitem__
    return ci


def shape(n, a, b, last):
    """n = 1..3 values: the last one is `last`"""
    return [[last], [a, last], [a, b, last]][n - 1]


G3 = {"n": (1, 3), "a": (0.0, 0.5), "b": (0.0, 0.5), "rho": (0.1, 20.0), "c": (0.0, 0.5)}


@lemma(overrides=ISO, stubs=WST, gen=G3)
def mass_fraction_input_is_the_composition(n: int, a: float, b: float, rho: float, custom: bool):
    """CustomIsotopic._initializeMassFracs / density / apply, 'mass fractions', 1-3 nuclides (shape enumerated): the material
    gets exactly the input mass fractions (own copy); a Custom material also gets the density, a library material (stand-in
    Mat) keeps everything else."""
    n = choose(n, 1, 3)
    vals = shape(n, a, b, 1.0 - (a if n > 1 else 0.0) - (b if n > 2 else 0.0))
    assume(all(v >= 0 for v in vals) and rho > 0)
    ci = isotopic("mass fractions", rho, vals)
    ci._initializeMassFracs()
    assert len(ci.massFracs) == n
    for k, v in zip(NAMES, vals):
        assert eq(ci.massFracs[k], v), "mass fractions as given"
    assert eq(ci.density, rho)
    m = new(RealCustom, massFrac={"FE": 1.0}, customDensity=1.0) if custom else new(Mat, massFrac={"FE": 1.0}, refDens=7.0)
    ci.apply(m)
    assert len(m.massFrac) == n and not same(m.massFrac, ci.massFracs)
    for k, v in zip(NAMES, vals):
        assert eq(m.massFrac[k], v), "the material's composition is the custom one (nothing of the old one left)"
    if custom:
        assert eq(m.customDensity, rho), "a Custom material takes the density of the isotopic"
    else:
        assert m.refDens == 7.0
    ci2 = isotopic("mass fractions", None, vals)
    ci2._initializeMassFracs()
    assert ci2.density is None
    m2 = new(RealCustom, massFrac={}, customDensity=1.0)
    ci2.apply(m2)
    assert m2.customDensity == 1.0, "no density given: the material's density stays"


@lemma(overrides=ISO, stubs=WST, gen=G3)
def number_fraction_input_becomes_mass_fractions(n: int, a: float, b: float):
    """'number fractions': mass fraction_k = n_k w_k / sum_j n_j w_j for ARBITRARY positive atomic weights; they sum to one."""
    weights_positive()
    n = choose(n, 1, 3)
    vals = shape(n, a, b, 1.0 - (a if n > 1 else 0.0) - (b if n > 2 else 0.0))
    assume(all(v >= 0 for v in vals))
    ci = isotopic("number fractions", None, vals)
    ci._initializeMassFracs()
    tot = sum(v * WT[k] for k, v in zip(NAMES, vals))
    assert len(ci.massFracs) == n
    for k, v in zip(NAMES, vals):
        assert eq(ci.massFracs[k] * tot, v * WT[k])
    assert eq(sum(ci.massFracs.values()), 1.0), "mass fractions normalised"
    assert ci.density is None


@lemma(overrides=ISO, stubs=WST, gen=G3)
def number_density_input_gives_density_and_mass_fractions(n: int, a: float, b: float, c: float):
    """'number densities' N_k [1/b-cm]: density = sum N_k w_k / 0.6022, mass fractions N_k w_k / sum; and turning
    (density, mass fractions) back into number densities the way the component does gives the INPUT numbers."""
    weights_positive()
    n = choose(n, 1, 3)
    vals = shape(n, a, b, c)
    assume(all(v >= 0 for v in vals) and sum(vals) > 0)
    ci = isotopic("number densities", None, vals)
    ci._initializeMassFracs()
    rho = sum(v * WT[k] for k, v in zip(NAMES, vals)) / C
    assert eq(ci.density, rho), "density computed from the number densities"
    assert eq(sum(ci.massFracs.values()), 1.0)
    for k, v in zip(NAMES, vals):
        assert eq(ci.massFracs[k] * rho * C, v * WT[k])
        assert eq(ci.massFracs[k] * ci.density * units.MOLES_PER_CC_TO_ATOMS_PER_BARN_CM / WT[k], v), "round trip to number densities"
    try:
        ci.density = 3.0
        refused = False
    except AttributeError:
        refused = True
    assert refused, "a computed density cannot be overwritten"
    m = new(RealCustom, massFrac={}, customDensity=1.0)
    ci.apply(m)
    assert eq(m.customDensity, rho)


def refused(f):
    try:
        f()
        return False
    except (ValueError, InputError):
        return True


@lemma(overrides=ISO, stubs=WST, gen={"case": (0, 6), "a": (-0.5, 1.5), "b": (0.0, 1.0), "rho": (-5.0, 5.0)})
def inconsistent_isotopic_input_is_refused(case: int, a: float, b: float, rho: float):
    """negative entries, fractions that do not sum to one, number densities together with a density, an unknown input format,
    an unknown nuclide name and a negative density are refused; the consistent input next to each is accepted."""
    weights_positive()
    case = choose(case, 0, 6)
    if case <= 1:
        fmt = ("mass fractions", "number fractions")[case]
        ci = isotopic(fmt, None, [a, b])
        ok = a >= 0 and b >= 0 and abs(a + b - 1.0) < 1e-5
        assert refused(ci._initializeMassFracs) == (not ok), "fractions: non-negative and summing to one, else refused"
    elif case == 2:
        ci = isotopic("number densities", None, [a, b])
        assume(a + b != 0)
        assert refused(ci._initializeMassFracs) == (a < 0 or b < 0 or a * WT["U235"] + b * WT["U238"] < 0)
    elif case == 3:
        assume(a >= 0 and b >= 0)
        ci = isotopic("number densities", rho, [a, b])
        assert refused(ci._initializeMassFracs), "over-specified: number densities and a density"
    elif case == 4:
        assert refused(lambda: isotopic("weight percent", None, [1.0])._initializeMassFracs()), "unknown input format"
    elif case == 5:
        ci = isotopic("mass fractions", None, [1.0])
        try:
            ci["UNOBTAINIUM"] = 0.5
            bad = False
        except ValueError:
            bad = True
        assert bad and "UNOBTAINIUM" not in ci and len(ci) == 1, "unknown nuclide name refused, nothing stored"
    else:
        ci = isotopic("mass fractions", None, [1.0])
        try:
            ci.density = rho
            bad = False
        except ValueError:
            bad = True
        assert bad == (rho < 0), "negative density refused"
