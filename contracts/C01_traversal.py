"""C01 - every traversal query returns exactly the objects a naive walk of the child lists returns, each once, in child order.

Shapes are ENUMERATED COMPLETELY with choose(): every ordered rooted tree with up to 5 nodes (parent vector
par[i] < i, children in index order; depth up to 4) - 34 parent vectors; contents (predicate outcomes, flags,
generation number, deep switch) stay SYMBOLIC.  So each lemma reads "for all values, all shapes up to 5 (or 4) nodes".

The nodes are real `Composite` objects allocated with new() (no __init__: the constructor needs the parameter
metaclass machinery); the attributes given are the ones Composite.__init__ sets and the queries read
(name, parent, _children, p).  The expected result is computed by the harness from the PARENT VECTOR (an
independent description of the shape), never from `_children`, in the order armi documents for getChildren:
the children, then each child's walk (deep); the nodes exactly g levels below, left to right (generationNum=g).

Stand-ins: `PStub` (parameter collection of a node: only `.type` is read), `Marker` (an opaque material / type
specification); `hasFlags_contract` replaces ArmiObject.hasFlags (bit operations on Flags are outside the subset):
assumed contract = a pure boolean function of (object, typeSpec, exact), here three independent symbolic booleans
per object.
"""
from spec import *

Composite = repo("armi.reactor.composites:Composite")
Component = repo("armi.reactor.components.component:Component")
Assembly = repo("armi.reactor.assemblies:Assembly")


class PStub:
    """stand-in for the parameter collection of a node: only `type` is read by the queries under contract"""


class Marker:
    """an opaque object (a material, a type specification): only its identity matters"""


def hasFlags_contract(self, typeID, exact=False):
    """assumed contract of ArmiObject.hasFlags: a pure boolean function of (object, typeSpec, exact)"""
    if typeID.key == "A":
        return self.fAx if exact else self.fA
    return self.fB


HASFLAGS = {"armi.reactor.composites:ArmiObject.hasFlags": "hasFlags_contract"}


# ---------------------------------------------------------------------------------------------- shapes and the naive walk
def mk_tree(n, par, marks):
    """n real Composite objects linked as the parent vector says (children in index order)"""
    nodes = []
    for i in range(n):
        nodes.append(new(Composite, name="n%d" % i, parent=None, _children=[], mark=marks[i], p=new(PStub, type="t")))
    for i in range(1, n):
        nodes[par[i]]._children.append(nodes[i])
        nodes[i].parent = nodes[par[i]]
    return nodes


def kids(n, par, i):
    return [j for j in range(1, n) if par[j] == i]


def walk_deep(n, par, i):
    """documented order of a deep walk: the children, then each child's walk"""
    out = kids(n, par, i)
    for k in kids(n, par, i):
        out = out + walk_deep(n, par, k)
    return out


def level(n, par, i, d):
    """the nodes d levels below node i, left to right (d concrete)"""
    lev = [i]
    for _ in range(d):
        lev = [c for x in lev for c in kids(n, par, x)]
    return lev


def generation(n, par, i, g):
    """naive walk for generationNum=g (ANY integer): the nodes exactly g levels below i"""
    out = []
    for d in range(1, 6):
        for j in level(n, par, i, d):
            if d == g:
                out.append(j)
    return out


def chain(par, i):
    """i, its parent, ... up to the root (node 0)"""
    out = [i]
    while i != 0:
        i = par[i]
        out.append(i)
    return out


def same_seq(xs, ys):
    if len(xs) != len(ys):
        return False
    for k in range(len(xs)):
        if not same(xs[k], ys[k]):
            return False
    return True


def check_walk(n, par, deep, g):
    nodes = mk_tree(n, par, [False] * 5)
    for r in range(n):
        try:
            got = nodes[r].getChildren(deep=deep, generationNum=g)
            got2 = list(nodes[r].iterChildren(deep=deep, generationNum=g))
            raised = False
        except RuntimeError:
            raised = True
        assert raised == (deep and g > 1), "deep together with a generation number is refused, nothing else is"
        if not raised:
            exp = walk_deep(n, par, r) if deep else generation(n, par, r, g)
            assert same_seq(got, [nodes[j] for j in exp]), "getChildren: exactly the naive walk, each once, in child order"
            assert same_seq(got2, [nodes[j] for j in exp]), "iterChildren: the same sequence"


@lemma(gen={"n": (1, 4), "p2": (0, 1), "p3": (0, 2), "g": (-1, 5)})
def getChildren_is_the_naive_walk_up_to_4_nodes(n: int, p2: int, p3: int, deep: bool, g: int):
    """every tree shape with <= 4 nodes x every node as receiver x deep in {F,T} x EVERY integer generationNum"""
    n = choose(n, 1, 4)
    p2 = choose(p2, 0, 1)
    p3 = choose(p3, 0, 2)
    check_walk(n, [0, 0, p2, p3, 0], deep, g)


@lemma(gen={"p2": (0, 1), "p3": (0, 2), "p4": (0, 3), "g": (-1, 5)})
def getChildren_is_the_naive_walk_5_nodes(p2: int, p3: int, p4: int, deep: bool, g: int):
    """the 24 parent vectors with 5 nodes x every node as receiver x deep x EVERY integer generationNum"""
    p2 = choose(p2, 0, 1)
    p3 = choose(p3, 0, 2)
    p4 = choose(p4, 0, 3)
    check_walk(5, [0, 0, p2, p3, p4], deep, g)


@lemma(gen={"n": (1, 4), "p2": (0, 1), "p3": (0, 2), "g": (0, 4)})
def predicate_selects_exactly_the_satisfying_descendants(n: int, p2: int, p3: int, deep: bool, g: int, m1: bool, m2: bool, m3: bool):
    """shapes <= 4 nodes; the predicate outcome on every node is an independent symbolic boolean; g in 0..4"""
    n = choose(n, 1, 4)
    p2 = choose(p2, 0, 1)
    p3 = choose(p3, 0, 2)
    g = choose(g, 0, 4)
    par = [0, 0, p2, p3]
    nodes = mk_tree(n, par, [False, m1, m2, m3])
    assume(not (deep and g > 1))
    got = nodes[0].getChildren(deep=deep, generationNum=g, predicate=lambda o: o.mark)
    got2 = list(nodes[0].iterChildren(deep=deep, generationNum=g, predicate=lambda o: o.mark))
    walk = walk_deep(n, par, 0) if deep else generation(n, par, 0, g)
    exp = [nodes[j] for j in walk if nodes[j].mark]
    assert same_seq(got, exp), "exactly the satisfying objects of the naive walk, in walk order"
    assert same_seq(got2, exp)
    for x in got:
        assert x.mark, "everything returned satisfies the predicate"


@lemma(gen={"p2": (0, 1), "p3": (0, 2), "p4": (0, 3)})
def predicate_selects_exactly_the_satisfying_descendants_5_nodes_deep(p2: int, p3: int, p4: int, m1: bool, m2: bool, m3: bool, m4: bool):
    """the 24 parent vectors with 5 nodes, deep walk from the root, symbolic predicate outcomes"""
    p2 = choose(p2, 0, 1)
    p3 = choose(p3, 0, 2)
    p4 = choose(p4, 0, 3)
    par = [0, 0, p2, p3, p4]
    nodes = mk_tree(5, par, [False, m1, m2, m3, m4])
    got = nodes[0].getChildren(deep=True, predicate=lambda o: o.mark)
    exp = [nodes[j] for j in walk_deep(5, par, 0) if nodes[j].mark]
    assert same_seq(got, exp), "exactly the satisfying objects of the deep walk, in walk order"


@lemma(gen={"n": (1, 4), "p2": (0, 1), "p3": (0, 2), "g": (0, 3)})
def materials_follow_their_owner(n: int, p2: int, p3: int, deep: bool, g: int, h1: bool, h2: bool, h3: bool):
    """includeMaterials=True: the walk with each object's material (where it has one) right after the object.
    shapes <= 4 nodes; node 1..3 has a material / has material None (symbolic); the root has no such attribute"""
    n = choose(n, 1, 4)
    p2 = choose(p2, 0, 1)
    p3 = choose(p3, 0, 2)
    g = choose(g, 0, 3)
    par = [0, 0, p2, p3]
    nodes = mk_tree(n, par, [False] * 4)
    has = [False, h1, h2, h3]
    for i in range(1, n):
        nodes[i].material = new(Marker) if has[i] else None
    assume(not (deep and g > 1))
    got = nodes[0].getChildren(deep=deep, generationNum=g, includeMaterials=True)
    walk = walk_deep(n, par, 0) if deep else generation(n, par, 0, g)
    exp = []
    for j in walk:
        exp.append(nodes[j])
        if has[j]:
            exp.append(nodes[j].material)
    assert same_seq(got, exp), "walk order, each material right after its owner, nothing else"
    got3 = list(nodes[0].iterChildrenWithMaterials(deep=deep, generationNum=g))
    assert same_seq(got3, exp)


# ---------------------------------------------------------------------------------------------- direct children by flags / type
def mk_family(k, grand):
    """a root with k children; child 0 (if any) has one child of its own when `grand`"""
    root = new(Composite, name="root", parent=None, _children=[], p=new(PStub, type="t"))
    out = []
    for i in range(k):
        c = new(Composite, name="c%d" % i, parent=root, _children=[], p=new(PStub, type="t"))
        root._children.append(c)
        out.append(c)
    gc = None
    if grand and k > 0:
        gc = new(Composite, name="gc", parent=out[0], _children=[], p=new(PStub, type="t"), fA=True, fAx=True, fB=True)
        out[0]._children.append(gc)
    return root, out, gc


@lemma(gen={"k": (0, 4)}, stubs=HASFLAGS)
def children_with_flags_are_the_matching_children(k: int, exact: bool, grand: bool, a0: bool, a1: bool, a2: bool, a3: bool, x0: bool, x1: bool, x2: bool, x3: bool):
    """k <= 4 children (+ a matching grandchild that must NOT be returned); hasFlags through its contract:
    outcome for (specA, inexact), (specA, exact) independent symbolic booleans per child"""
    k = choose(k, 0, 4)
    root, cs, gc = mk_family(k, grand)
    fa, fx = [a0, a1, a2, a3], [x0, x1, x2, x3]
    for i in range(k):
        cs[i].fA = fa[i]
        cs[i].fAx = fx[i]
        cs[i].fB = False
    specA = new(Marker, key="A")
    exp = [cs[i] for i in range(k) if (fx[i] if exact else fa[i])]
    assert same_seq(root.getChildrenWithFlags(specA, exact), exp), "exactly the children having the flags, in child order"
    assert same_seq(list(root.iterChildrenWithFlags(specA, exactMatch=exact)), exp)
    assert same_seq(root.getChildrenWithFlags(new(Marker, key="B")), []), "the specification asked for is the one tested"
    assert root.containsAtLeastOneChildWithFlags(specA) == (len([i for i in range(k) if fa[i]]) > 0)
    assert root.containsOnlyChildrenWithFlags(specA) == (len([i for i in range(k) if fa[i]]) == k)
    have = list(root.doChildrenHaveFlags(specA))
    assert len(have) == k
    for i in range(k):
        assert have[i] == fa[i], "one answer per child, in child order"


@lemma(gen={"k": (0, 4)})
def children_of_type_are_the_children_with_that_type_name(k: int, grand: bool, t0: bool, t1: bool, t2: bool, t3: bool):
    """k <= 4 children, each of type 'fuel' or 'clad' (symbolic choice); a grandchild of type 'fuel' is not returned"""
    k = choose(k, 0, 4)
    root, cs, gc = mk_family(k, grand)
    isFuel = [t0, t1, t2, t3]
    for i in range(k):
        cs[i].p.type = "fuel" if isFuel[i] else "clad"
    if gc is not None:
        gc.p.type = "fuel"
    exp = [cs[i] for i in range(k) if isFuel[i]]
    assert same_seq(root.getChildrenOfType("fuel"), exp), "exactly the children whose type name is the one asked for"
    assert same_seq(list(root.iterChildrenOfType("fuel")), exp)
    assert same_seq(root.getChildrenOfType("clad"), [cs[i] for i in range(k) if not isFuel[i]])
    assert same_seq(root.getChildrenOfType("duct"), [])


# ---------------------------------------------------------------------------------------------- leaf components
@lemma(gen={"n": (1, 4), "p2": (0, 1), "p3": (0, 2)}, stubs=HASFLAGS)
def components_are_the_matching_leaves_in_walk_order(n: int, p2: int, p3: int, exact: bool, c1: bool, c2: bool, c3: bool, a1: bool, a2: bool, a3: bool, x1: bool, x2: bool, x3: bool):
    """shapes <= 4 nodes; every childless node below the root is a real Component (c_i) or an empty Composite;
    hasFlags through its contract.  iterComponents/getComponents = the Components of the pre-order walk that match."""
    n = choose(n, 1, 4)
    p2 = choose(p2, 0, 1)
    p3 = choose(p3, 0, 2)
    par = [0, 0, p2, p3]
    isComp = [False, c1, c2, c3]
    fa, fx = [False, a1, a2, a3], [False, x1, x2, x3]
    nodes = []
    for i in range(n):
        leaf = len(kids(n, par, i)) == 0 and i > 0
        if leaf and isComp[i]:
            nodes.append(new(Component, name="n%d" % i, parent=None, _children=[], p=new(PStub, type="t"), fA=fa[i], fAx=fx[i], fB=False))
        else:
            nodes.append(new(Composite, name="n%d" % i, parent=None, _children=[], p=new(PStub, type="t"), fA=True, fAx=True, fB=True))
    for i in range(1, n):
        nodes[par[i]]._children.append(nodes[i])
        nodes[i].parent = nodes[par[i]]
    specA = new(Marker, key="A")
    # the leaves in pre-order = left to right
    pre = preorder(n, par, 0)
    exp = [nodes[j] for j in pre if j > 0 and len(kids(n, par, j)) == 0 and isComp[j] and (fx[j] if exact else fa[j])]
    assert same_seq(root_components(nodes[0], specA, exact), exp), "exactly the matching leaf components, left to right"
    assert same_seq(list(nodes[0].iterComponents(specA, exact)), exp)


def root_components(root, spec, exact):
    return root.getComponents(spec, exact)


def preorder(n, par, i):
    out = [i]
    for k in kids(n, par, i):
        out = out + preorder(n, par, k)
    return out


# ---------------------------------------------------------------------------------------------- ancestors
@lemma(gen={"n": (1, 5), "p2": (0, 1), "p3": (0, 2), "p4": (0, 3), "x": (0, 4)})
def ancestor_is_the_first_on_the_parent_chain(n: int, p2: int, p3: int, p4: int, x: int, m0: bool, m1: bool, m2: bool, m3: bool, m4: bool):
    """every shape <= 5 nodes x every start node x symbolic predicate outcomes: getAncestor / getAncestorAndDistance
    return the first object on the chain start, parent, grandparent, ... that satisfies fn (and the number of hops)"""
    n = choose(n, 1, 5)
    p2 = choose(p2, 0, 1)
    p3 = choose(p3, 0, 2)
    p4 = choose(p4, 0, 3)
    x = choose(x, 0, n - 1)
    par = [0, 0, p2, p3, p4]
    nodes = mk_tree(n, par, [m0, m1, m2, m3, m4])
    ch = chain(par, x)
    hits = [d for d in range(len(ch)) if nodes[ch[d]].mark]
    got = nodes[x].getAncestor(lambda o: o.mark)
    gd = nodes[x].getAncestorAndDistance(lambda o: o.mark)
    if len(hits) == 0:
        assert got is None and gd is None, "nobody on the chain satisfies fn"
    else:
        assert same(got, nodes[ch[hits[0]]]), "the nearest one on the parent chain (the object itself counts)"
        assert same(gd[0], nodes[ch[hits[0]]]) and gd[1] == hits[0], "with the number of levels above"
    assert same(nodes[x].getAncestor(lambda o: same(o, nodes[0])), nodes[0]), "the chain ends at the root"


@lemma(gen={"n": (1, 5), "p2": (0, 1), "p3": (0, 2), "p4": (0, 3), "x": (0, 4)}, stubs=HASFLAGS)
def ancestor_with_flags_is_the_first_matching_on_the_parent_chain(n: int, p2: int, p3: int, p4: int, x: int, exact: bool, a0: bool, a1: bool, a2: bool, a3: bool, a4: bool, x0: bool, x1: bool, x2: bool, x3: bool, x4: bool):
    n = choose(n, 1, 5)
    p2 = choose(p2, 0, 1)
    p3 = choose(p3, 0, 2)
    p4 = choose(p4, 0, 3)
    x = choose(x, 0, n - 1)
    par = [0, 0, p2, p3, p4]
    nodes = mk_tree(n, par, [False] * 5)
    fa, fx = [a0, a1, a2, a3, a4], [x0, x1, x2, x3, x4]
    for i in range(n):
        nodes[i].fA = fa[i]
        nodes[i].fAx = fx[i]
        nodes[i].fB = False
    ch = chain(par, x)
    hits = [d for d in range(len(ch)) if (fx[ch[d]] if exact else fa[ch[d]])]
    got = nodes[x].getAncestorWithFlags(new(Marker, key="A"), exactMatch=exact)
    if len(hits) == 0:
        assert got is None
    else:
        assert same(got, nodes[ch[hits[0]]]), "nearest object on the parent chain with the flags, tested with the exactness asked for"
    assert nodes[x].getAncestorWithFlags(new(Marker, key="B")) is None


# ---------------------------------------------------------------------------------------------- container protocol
@lemma(gen={"k": (0, 4), "j": (-6, 6), "which": (0, 6)})
def container_protocol_is_the_child_list(k: int, j: int, which: int):
    """k <= 4 children + a grandchild + an outsider: len / iteration / indexing / membership / index"""
    k = choose(k, 0, 4)
    root, cs, gc = mk_family(k, True)
    outsider = new(Composite, name="out", parent=None, _children=[], p=new(PStub, type="t"))
    assert len(root) == k
    assert same_seq(list(root), cs) and same_seq(root.getChildren(), cs) and same_seq([c for c in root], cs)
    try:
        got = root[j]
        ok = True
    except IndexError:
        ok = False
    assert ok == (-k <= j and j < k), "indexing like the child list"
    if ok:
        assert same(got, cs[j])
    which = choose(which, 0, 6)
    cand = cs + [root, outsider] + ([gc] if gc is not None else [])
    assume(which < len(cand))
    item = cand[which]
    assert (item in root) == (which < k), "membership is identity membership in the child list"
    try:
        pos = root.index(item)
        found = True
    except ValueError:
        found = False
    assert found == (which < k), "index() of a non-child is refused"
    if found:
        assert pos == which
    try:
        root[0] = outsider
        refused = False
    except NotImplementedError:
        refused = True
    assert refused and same_seq(list(root), cs) and outsider.parent is None, "item assignment is refused and changes nothing"


# ---------------------------------------------------------------------------------------------- first block helpers
@lemma(gen={"k": (0, 4)}, stubs=HASFLAGS)
def first_block_is_the_first_matching_child(k: int, exact: bool, a0: bool, a1: bool, a2: bool, a3: bool, x0: bool, x1: bool, x2: bool, x3: bool, t0: bool, t1: bool):
    """Assembly.getFirstBlock / getFirstBlockByType on a real Assembly object with k <= 4 stand-in blocks"""
    k = choose(k, 0, 4)
    a = new(Assembly, name="A", parent=None, _children=[], p=new(PStub, type="t"))
    fa, fx = [a0, a1, a2, a3], [x0, x1, x2, x3]
    cs = []
    for i in range(k):
        b = new(Composite, name="b%d" % i, parent=a, _children=[], p=new(PStub, type="t"), fA=fa[i], fAx=fx[i], fB=False)
        a._children.append(b)
        cs.append(b)
    hits = [i for i in range(k) if (fx[i] if exact else fa[i])]
    got = a.getFirstBlock(new(Marker, key="A"), exact)
    if len(hits) == 0:
        assert got is None
    else:
        assert same(got, cs[hits[0]]), "the first child (in child order) that matches"
    first = a.getFirstBlock()
    assert (first is None) if k == 0 else same(first, cs[0])
    if k >= 2:
        cs[0].p.type = "fuel" if t0 else "clad"
        cs[1].p.type = "fuel" if t1 else "clad"
        for i in range(2, k):
            cs[i].p.type = "fuel"
        gt = a.getFirstBlockByType("fuel")
        want = 0 if t0 else (1 if t1 else (2 if k > 2 else -1))
        assert (gt is None) if want < 0 else same(gt, cs[want])


# ---------------------------------------------------------------------------------------------- leaf components by name / by class
@lemma(gen={"n": (1, 4), "p2": (0, 1), "p3": (0, 2)})
def components_by_name_and_by_class_are_the_naive_selection(n: int, p2: int, p3: int, c1: bool, c2: bool, c3: bool, f1: bool, f2: bool, f3: bool):
    """shapes <= 4 nodes; every childless node below the root is a real Component (c_i) or an empty Composite; node i is
    called "fuel" (f_i) or by its own name.  getComponentByName: the one leaf component of that name, None without one,
    refused with several (an inner node of that name is no component and does not count); getComponentNames: the set
    of the leaf components' names; getComponentsOfShape(cls): the leaf components that are instances of cls, in walk
    order; the tree is left as it was."""
    n = choose(n, 1, 4)
    p2 = choose(p2, 0, 1)
    p3 = choose(p3, 0, 2)
    par = [0, 0, p2, p3]
    isComp = [False, c1, c2, c3]
    isFuel = [False, f1, f2, f3]
    nodes = []
    for i in range(n):
        leaf = len(kids(n, par, i)) == 0 and i > 0
        nm = "fuel" if isFuel[i] else "n%d" % i
        if leaf and isComp[i]:
            nodes.append(new(Component, name=nm, parent=None, _children=[], p=new(PStub, type="t")))
        else:
            nodes.append(new(Composite, name=nm, parent=None, _children=[], p=new(PStub, type="t")))
    for i in range(1, n):
        nodes[par[i]]._children.append(nodes[i])
        nodes[i].parent = nodes[par[i]]
    pre = preorder(n, par, 0)
    comps = [j for j in pre if j > 0 and len(kids(n, par, j)) == 0 and isComp[j]]
    named = [j for j in comps if isFuel[j]]
    try:
        got = nodes[0].getComponentByName("fuel")
        raised = False
    except ValueError:
        raised = True
    assert raised == (len(named) > 1), "several components of one name are refused, nothing else is"
    if not raised:
        if len(named) == 0:
            assert got is None
        else:
            assert same(got, nodes[named[0]]), "the one leaf component of that name"
    assert nodes[0].getComponentByName("absent") is None
    names = nodes[0].getComponentNames()
    assert len(names) == len(set(("fuel" if isFuel[j] else "n%d" % j) for j in comps))
    for j in comps:
        assert ("fuel" if isFuel[j] else "n%d" % j) in names
    assert same_seq(nodes[0].getComponentsOfShape(Component), [nodes[j] for j in comps]), "instances of the class, walk order"
    assert same_seq(nodes[0].getComponentsOfShape(Assembly), []), "no component is an assembly"
    for i in range(1, n):
        assert same(nodes[i].parent, nodes[par[i]])
    for i in range(n):
        assert same_seq(nodes[i]._children, [nodes[j] for j in kids(n, par, i)])


@lemma(gen={"n": (1, 4), "p2": (0, 1), "p3": (0, 2)}, stubs=HASFLAGS)
def the_single_component_query_returns_the_one_match(n: int, p2: int, p3: int, exact: bool, c1: bool, c2: bool, c3: bool, a1: bool, a2: bool, a3: bool, x1: bool, x2: bool, x3: bool):
    """getComponent(spec, exact, quiet=True) on the shapes and contents of components_are_the_matching_leaves_in_walk_order:
    the one matching leaf component, None when there is none, refused (ValueError) when there are several - never
    the first of several, never an inner node that happens to match."""
    n = choose(n, 1, 4)
    p2 = choose(p2, 0, 1)
    p3 = choose(p3, 0, 2)
    par = [0, 0, p2, p3]
    isComp = [False, c1, c2, c3]
    fa, fx = [False, a1, a2, a3], [False, x1, x2, x3]
    nodes = []
    for i in range(n):
        leaf = len(kids(n, par, i)) == 0 and i > 0
        if leaf and isComp[i]:
            nodes.append(new(Component, name="n%d" % i, parent=None, _children=[], p=new(PStub, type="t"), fA=fa[i], fAx=fx[i], fB=False))
        else:
            nodes.append(new(Composite, name="n%d" % i, parent=None, _children=[], p=new(PStub, type="t"), fA=True, fAx=True, fB=True))
    for i in range(1, n):
        nodes[par[i]]._children.append(nodes[i])
        nodes[i].parent = nodes[par[i]]
    specA = new(Marker, key="A")
    pre = preorder(n, par, 0)
    exp = [j for j in pre if j > 0 and len(kids(n, par, j)) == 0 and isComp[j] and (fx[j] if exact else fa[j])]
    try:
        got = nodes[0].getComponent(specA, exact, True)
        raised = False
    except ValueError:
        raised = True
    assert raised == (len(exp) > 1), "several matches are refused, nothing else is"
    if not raised:
        if len(exp) == 0:
            assert got is None
        else:
            assert same(got, nodes[exp[0]]), "the one matching leaf component"


class MatStub:
    """stand-in for a material: only its name is read by the query under contract"""

    def getName(self):
        return self.nm


@lemma(gen={"n": (1, 4), "p2": (0, 1), "p3": (0, 2)})
def components_of_a_material_are_the_leaves_holding_it(n: int, p2: int, p3: int, c1: bool, c2: bool, c3: bool, u1: bool, u2: bool, u3: bool, byName: bool):
    """getComponentsOfMaterial, by material object or by name (byName): the leaf components whose material has that
    name, in walk order; shapes <= 4 nodes, each leaf a real Component (c_i) of material "UO2" (u_i) or "HT9"."""
    n = choose(n, 1, 4)
    p2 = choose(p2, 0, 1)
    p3 = choose(p3, 0, 2)
    par = [0, 0, p2, p3]
    isComp = [False, c1, c2, c3]
    isU = [False, u1, u2, u3]
    nodes = []
    for i in range(n):
        leaf = len(kids(n, par, i)) == 0 and i > 0
        if leaf and isComp[i]:
            nodes.append(new(Component, name="n%d" % i, parent=None, _children=[], p=new(PStub, type="t"), material=new(MatStub, nm="UO2" if isU[i] else "HT9")))
        else:
            nodes.append(new(Composite, name="n%d" % i, parent=None, _children=[], p=new(PStub, type="t")))
    for i in range(1, n):
        nodes[par[i]]._children.append(nodes[i])
        nodes[i].parent = nodes[par[i]]
    pre = preorder(n, par, 0)
    exp = [nodes[j] for j in pre if j > 0 and len(kids(n, par, j)) == 0 and isComp[j] and isU[j]]
    if byName:
        got = nodes[0].getComponentsOfMaterial(materialName="UO2")
    else:
        got = nodes[0].getComponentsOfMaterial(new(MatStub, nm="UO2"))
    assert same_seq(got, exp), "exactly the leaf components of that material, in walk order"
    assert same_seq(nodes[0].getComponentsOfMaterial(materialName="Sodium"), [])
