"""C12 - AxialExpansionChanger.axiallyExpandAssembly on a pin-type assembly of fixed SHAPE (two fuel blocks of
two solid components + coolant, and a top dummy block) with ARBITRARY heights, growth fractions and densities.

The assembly / grid / linkage containers are harness stand-ins (their API is the trusted contract); blocks are real
HexBlock objects, components real Component objects with the parameter collection viewed as a name->value map.
"""
from spec import *

AxialExpansionChanger = repo("armi.reactor.converters.axialExpansionChanger.axialExpansionChanger:AxialExpansionChanger")
ExpansionData = repo("armi.reactor.converters.axialExpansionChanger.expansionData:ExpansionData")
HexBlock = repo("armi.reactor.blocks:HexBlock")
Component = repo("armi.reactor.components.component:Component")
Material = repo("armi.materials.material:Material")
Fluid = repo("armi.materials.material:Fluid")


class PMap:
    def __getitem__(self, k):
        return getattr(self, k)

    def __setitem__(self, k, v):
        setattr(self, k, v)

    def get(self, k, d=None):
        return getattr(self, k, d)

    def __getattr__(self, k):
        # parameters this harness does not set read as unset (only reached by log formatting)
        if k.startswith("__"):
            raise AttributeError(k)
        return None


class GridStub:
    def __getitem__(self, ijk):
        return ("loc", ijk)


class AssemblyStub:
    """what the changer needs from an Assembly: ordered blocks, their count, the axial grid"""

    def __iter__(self):
        return iter(self.blocks)

    def countBlocksWithFlags(self):
        return len(self.blocks)


class Link:
    pass


class Linkage:
    pass


def comp(solid, nd, parent):
    p = new(PMap, numberDensities={"U235": nd}, detailedNDens=None, pinNDens=None, volume=1.0, type="pin", serialNum=1)
    return new(Component, p=p, material=new(Material) if solid else new(Fluid), parent=None, height=0.0, zbottom=0.0, ztop=0.0, name="c")


def block(zb, zt, comps):
    return new(HexBlock, p=new(PMap, zbottom=zb, ztop=zt, height=zt - zb, z=(zb + zt) / 2.0, flags=None, type="fuel", serialNum=2), _children=comps, name="b", parent=None,
               spatialLocator=None)


GEN = {"h0": (3.0, 40.0), "h1": (3.0, 40.0), "h2": (30.0, 60.0), "gf0": (0.9, 1.1), "gc0": (0.9, 1.1), "gf1": (0.9, 1.1), "gc1": (0.9, 1.1),
       "n": (0.001, 0.05)}


@lemma(gen=GEN, timeout=30)
def expansion_keeps_height_contiguity_and_target_mass(h0: float, h1: float, h2: float, gf0: float, gc0: float, gf1: float, gc1: float, n: float):
    assume(h0 > 0 and h1 > 0 and h2 > 0 and gf0 > 0 and gc0 > 0 and gf1 > 0 and gc1 > 0 and n > 0)
    f0, c0, k0 = comp(True, n, None), comp(True, 2 * n, None), comp(False, 3 * n, None)
    f1, c1, k1 = comp(True, n, None), comp(True, 2 * n, None), comp(False, 3 * n, None)
    kd = comp(False, 3 * n, None)
    b0 = block(0.0, h0, [f0, c0, k0])
    b1 = block(h0, h0 + h1, [f1, c1, k1])
    bd = block(h0 + h1, h0 + h1 + h2, [kd])
    a = new(AssemblyStub, blocks=[b0, b1, bd], spatialGrid=new(GridStub, _bounds=(None, None, None)))
    linked = new(Linkage, a=a,
                 linkedBlocks={b0: new(Link, lower=None, upper=b1), b1: new(Link, lower=b0, upper=bd), bd: new(Link, lower=b1, upper=None)},
                 linkedComponents={f0: new(Link, lower=None, upper=f1), c0: new(Link, lower=None, upper=c1),
                                   f1: new(Link, lower=f0, upper=None), c1: new(Link, lower=c0, upper=None)})
    ed = new(ExpansionData, _expansionFactors={f0: gf0, c0: gc0, f1: gf1, c1: gc1}, _componentDeterminesBlockHeight={f0: True, f1: True})
    ch = new(AxialExpansionChanger, linked=linked, expansionData=ed)
    total = bd.p.ztop
    try:
        ch.axiallyExpandAssembly()
    except ArithmeticError:
        return  # the dummy block cannot absorb the growth: refused loudly
    # total height unchanged: the top of the dummy block never moves
    assert eq(bd.p.ztop, total), "total assembly height unchanged"
    # contiguity and heights
    assert eq(b0.p.zbottom, 0.0)
    assert eq(b1.p.zbottom, b0.p.ztop) and eq(bd.p.zbottom, b1.p.ztop), "each block's bottom is the top of the one below"
    assert eq(b0.p.height, b0.p.ztop - b0.p.zbottom) and eq(b1.p.height, b1.p.ztop - b1.p.zbottom) and eq(bd.p.height, bd.p.ztop - bd.p.zbottom)
    assert bd.p.height >= 0
    # grid bounds equal those elevations, locators (0, 0, k)
    bounds = a.spatialGrid._bounds[2]
    assert len(bounds) == 4
    assert eq(bounds[0], 0.0) and eq(bounds[1], b0.p.ztop) and eq(bounds[2], b1.p.ztop) and eq(bounds[3], bd.p.ztop)
    assert b0.spatialLocator == ("loc", (0, 0, 0)) and b1.spatialLocator == ("loc", (0, 0, 1)) and bd.spatialLocator == ("loc", (0, 0, 2))
    # block boundaries move with the target component
    assert eq(b0.p.ztop, f0.ztop) and eq(b1.p.ztop, f1.ztop), "block top = top of its target component"
    assert eq(f0.height, gf0 * h0) and eq(f1.height, gf1 * h1), "target grows by its fraction of the old block height"
    # components linked axially stay stacked
    assert eq(f1.zbottom, f0.ztop) and eq(c1.zbottom, c0.ztop), "linked components sit on the one below"
    # densities divided by the growth fraction; fluids untouched
    assert eq(f0.p.numberDensities["U235"] * gf0, n) and eq(c1.p.numberDensities["U235"] * gc1, 2 * n)
    assert eq(k0.p.numberDensities["U235"], 3 * n) and eq(kd.p.numberDensities["U235"], 3 * n)
    # target-component mass (per unit area): density x new block height = old density x old block height
    assert eq(f0.p.numberDensities["U235"] * b0.p.height, n * h0), "target mass of block 0 conserved"
    assert eq(f1.p.numberDensities["U235"] * b1.p.height, n * h1), "target mass of block 1 conserved (target stacked on the target below)"
    # uniform growth conserves every solid's mass
    if eq(gf0, gc0):
        assert eq(c0.p.numberDensities["U235"] * b0.p.height, 2 * n * h0), "uniform growth: every solid's mass conserved"


@lemma(gen=GEN, timeout=30)
def expansion_then_inverse_restores(h0: float, h1: float, h2: float, gf0: float, gf1: float, n: float):
    """all solids of a block share the fraction: expanding and then applying the inverse restores heights and densities"""
    assume(h0 > 0 and h1 > 0 and h2 > 0 and gf0 > 0 and gf1 > 0 and n > 0)
    f0, c0 = comp(True, n, None), comp(True, 2 * n, None)
    f1, c1 = comp(True, n, None), comp(True, 2 * n, None)
    kd = comp(False, 3 * n, None)
    b0 = block(0.0, h0, [f0, c0])
    b1 = block(h0, h0 + h1, [f1, c1])
    bd = block(h0 + h1, h0 + h1 + h2, [kd])
    a = new(AssemblyStub, blocks=[b0, b1, bd], spatialGrid=new(GridStub, _bounds=(None, None, None)))
    linked = new(Linkage, a=a,
                 linkedBlocks={b0: new(Link, lower=None, upper=b1), b1: new(Link, lower=b0, upper=bd), bd: new(Link, lower=b1, upper=None)},
                 linkedComponents={f0: new(Link, lower=None, upper=f1), c0: new(Link, lower=None, upper=c1),
                                   f1: new(Link, lower=f0, upper=None), c1: new(Link, lower=c0, upper=None)})
    ed = new(ExpansionData, _expansionFactors={f0: gf0, c0: gf0, f1: gf1, c1: gf1}, _componentDeterminesBlockHeight={f0: True, f1: True})
    ch = new(AxialExpansionChanger, linked=linked, expansionData=ed)
    try:
        ch.axiallyExpandAssembly()
        ed._expansionFactors = {f0: 1.0 / gf0, c0: 1.0 / gf0, f1: 1.0 / gf1, c1: 1.0 / gf1}
        ch.axiallyExpandAssembly()
    except ArithmeticError:
        return
    assert eq(b0.p.ztop, h0) and eq(b1.p.ztop, h0 + h1) and eq(bd.p.ztop, h0 + h1 + h2), "heights restored"
    assert eq(f0.p.numberDensities["U235"], n) and eq(c0.p.numberDensities["U235"], 2 * n) and eq(c1.p.numberDensities["U235"], 2 * n), "densities restored"


# ----------------------------------------------------------------------------- which component is a block's target
class FlagNames:
    """stand-in for armi.reactor.flags.Flags inside expansionData (flag = its name; a block/component carries a set)"""

    FUEL = "FUEL"
    CONTROL = "CONTROL"
    POISON = "POISON"
    SHIELD = "SHIELD"
    SLUG = "SLUG"
    PLENUM = "PLENUM"
    ACLP = "ACLP"
    DUMMY = "DUMMY"
    CLAD = "CLAD"


class CompStub:
    pass


class BlockStub:
    """what ExpansionData needs from a Block: flags, children by flag / name, the designated-target parameter"""

    def hasFlags(self, f):
        return f in self.flags

    def getChildrenWithFlags(self, f):
        return [c for c in self.comps if f in c.flags]

    def getChildren(self):
        return list(self.comps)

    def getComponent(self, f):
        found = [c for c in self.comps if f in c.flags]
        return found[0] if found else None

    def getComponentByName(self, name):
        found = [c for c in self.comps if c.name == name]
        return found[0] if found else None

    def __iter__(self):
        return iter(self.comps)


def pin_block(blockFlags, designated):
    fuel = new(CompStub, name="fuel", flags={"FUEL"}, material=new(Material))
    clad = new(CompStub, name="clad", flags={"CLAD"}, material=new(Material))
    cool = new(CompStub, name="coolant", flags={"COOLANT"}, material=new(Fluid))
    b = new(BlockStub, flags=blockFlags, comps=[fuel, clad, cool], p=new(PMap, axialExpTargetComponent=designated))
    return b, fuel, clad


TARGETS = ["FUEL", "CONTROL", "POISON", "SHIELD", "SLUG"]  # TARGET_FLAGS_IN_PREFERRED_ORDER in terms of the stand-in flags
FLAG_OVERRIDE = {"armi.reactor.converters.axialExpansionChanger.expansionData:Flags": "FlagNames",
                 "armi.reactor.converters.axialExpansionChanger.expansionData:TARGET_FLAGS_IN_PREFERRED_ORDER": "TARGETS"}


@lemma(overrides=FLAG_OVERRIDE, gen={"kind": (0, 3)})
def designated_target_is_respected(setFuel: bool, kind: int):
    """a block boundary moves with its DESIGNATED target component; the default rules apply only without a designation"""
    kind = choose(kind, 0, 3)
    flags = [{"FUEL"}, {"PLENUM"}, {"ACLP"}, {"SHIELD"}][kind]
    # (1) explicit designation of the clad, on any kind of block, with or without fuel locking
    b, fuel, clad = pin_block(flags, "clad")
    ed = new(ExpansionData, _a=[b], _componentDeterminesBlockHeight={}, _expansionFactors={})
    ed._setTargetComponents(setFuel)
    assert ed.isTargetComponent(clad) and not ed.isTargetComponent(fuel), "the designated component is the target"
    assert b.p.axialExpTargetComponent == "clad", "and the designation is not overwritten"
    # (2) no designation: fuel blocks lock to the fuel (or find it by flag), plenum/aclp blocks to the clad
    b2, fuel2, clad2 = pin_block(flags, None)
    ed2 = new(ExpansionData, _a=[b2], _componentDeterminesBlockHeight={}, _expansionFactors={})
    ed2._setTargetComponents(setFuel)
    if kind == 1 or kind == 2:
        assert ed2.isTargetComponent(clad2) and not ed2.isTargetComponent(fuel2)
        assert b2.p.axialExpTargetComponent == "clad"
    else:
        assert ed2.isTargetComponent(fuel2) and not ed2.isTargetComponent(clad2)
        assert b2.p.axialExpTargetComponent == "fuel"


@lemma(overrides=FLAG_OVERRIDE)
def dummy_blocks_have_no_target_and_ambiguity_is_refused(setFuel: bool):
    b, fuel, clad = pin_block({"DUMMY"}, None)
    ed = new(ExpansionData, _a=[b], _componentDeterminesBlockHeight={}, _expansionFactors={})
    ed._setTargetComponents(setFuel)
    assert not ed.isTargetComponent(fuel) and not ed.isTargetComponent(clad)
    # two fuel components and no designation: refused (exactly one candidate)
    b3, fuel3, clad3 = pin_block({"SHIELD"}, None)
    b3.comps.append(new(CompStub, name="fuel2", flags={"FUEL"}, material=new(Material)))
    ed3 = new(ExpansionData, _a=[b3], _componentDeterminesBlockHeight={}, _expansionFactors={})
    try:
        ed3._setTargetComponents(False)
        ok = True
    except RuntimeError:
        ok = False
    assert not ok


# ----------------------------------------------------------------------------- axial linkage from the real geometry
HexAssembly = repo("armi.reactor.assemblies:HexAssembly")
AssemblyAxialLinkage = repo("armi.reactor.converters.axialExpansionChanger.assemblyAxialLinkage:AssemblyAxialLinkage")
Circle = repo("armi.reactor.components.basicShapes:Circle")
Hexagon = repo("armi.reactor.components.basicShapes:Hexagon")


def circle(name, solid, idm, od, mult, nd=0.01):
    """a real Circle with cold dimensions id / od / mult (parameter collection viewed as a map)"""
    p = new(PMap, numberDensities={"U235": nd}, detailedNDens=None, pinNDens=None, volume=1.0, type=name, serialNum=1, od=od, mult=mult, flags=None)
    p.id = idm
    return new(Circle, p=p, material=new(Material) if solid else new(Fluid), parent=None, height=0.0, zbottom=0.0, ztop=0.0, name=name, cached={},
               inputTemperatureInC=20.0)


def real_assembly(blocks):
    a = new(HexAssembly, _children=blocks, p=new(PMap, assemNum=3), name="A", parent=None, spatialGrid=None, spatialLocator=None)
    for b in blocks:
        b.parent = a
        for c in b._children:
            c.parent = b
    return a


@lemma(gen={"n": (2, 3), "o0": (0.1, 2.0), "o1": (0.1, 2.0), "i0": (0.0, 1.5), "i1": (0.0, 1.5), "m0": [1.0, 169.0], "m1": [1.0, 169.0]})
def linkage_follows_block_order_and_radial_overlap(n: int, i0: float, o0: float, i1: float, o1: float, m0: float, m1: float):
    """the REAL AssemblyAxialLinkage of a REAL HexAssembly of n = 2..3 blocks (enumerated); blocks 0 and 1 hold one solid
    Circle each (any inner / outer diameters and multiplicities) plus a fluid ring, a third block only fluid:
    block links follow the block order; the two solids are linked to each other exactly when they have the same
    multiplicity and their cross-sections overlap (larger inner diameter < smaller outer diameter); fluids are never
    linked; links are mutual (upper of the lower = lower of the upper)."""
    n = choose(n, 2, 3)
    assume(0 <= i0 and i0 < o0 and 0 <= i1 and i1 < o1 and m0 >= 1 and m1 >= 1)
    s0, k0 = circle("fuel", True, i0, o0, m0), circle("coolant", False, o0, o0 + 1.0, m0)
    s1, k1 = circle("fuel", True, i1, o1, m1), circle("coolant", False, o1, o1 + 1.0, m1)
    kd = circle("coolant", False, 0.0, 3.0, 1.0)
    blocks = [block(0.0, 10.0, [s0, k0]), block(10.0, 20.0, [s1, k1])] + ([block(20.0, 30.0, [kd])] if n == 3 else [])
    a = real_assembly(blocks)
    lk = AssemblyAxialLinkage(a)
    assert same(lk.a, a) and len(lk.linkedBlocks) == n
    for k in range(n):
        below = blocks[k - 1] if k > 0 else None
        above = blocks[k + 1] if k + 1 < n else None
        assert same(lk.linkedBlocks[blocks[k]].lower, below) and same(lk.linkedBlocks[blocks[k]].upper, above), "blocks are linked in assembly order"
    overlap = max(i0, i1) < min(o0, o1)
    linked = eq(m0, m1) and overlap
    assert len(lk.linkedComponents) == 2 and s0 in lk.linkedComponents and s1 in lk.linkedComponents, "only solids take part"
    assert is_none(lk.linkedComponents[s0].lower) and is_none(lk.linkedComponents[s1].upper)
    if linked:
        assert same(lk.linkedComponents[s0].upper, s1) and same(lk.linkedComponents[s1].lower, s0), "overlapping solids are linked, mutually"
    else:
        assert is_none(lk.linkedComponents[s0].upper) and is_none(lk.linkedComponents[s1].lower), "no overlap / other multiplicity: not linked"


@lemma(gen={"o0": (0.1, 2.0), "o1": (0.1, 2.0), "o2": (0.1, 2.0)})
def ambiguous_linkage_is_refused(o0: float, o1: float, o2: float):
    """a solid pin below TWO solid pins of the same multiplicity that both overlap it: the linkage is refused (RuntimeError),
    it is never resolved silently in favour of one of them"""
    assume(o0 > 0 and o1 > 0 and o2 > 0)
    s0 = circle("fuel", True, 0.0, o0, 1.0)
    s1, s2 = circle("fuel", True, 0.0, o1, 1.0), circle("slug", True, 0.0, o2, 1.0)
    a = real_assembly([block(0.0, 10.0, [s0]), block(10.0, 20.0, [s1, s2])])
    try:
        AssemblyAxialLinkage(a)
        refused = False
    except RuntimeError:
        refused = True
    assert refused
