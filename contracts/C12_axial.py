"""C12 - AxialExpansionChanger.axiallyExpandAssembly on a pin-type assembly of fixed SHAPE (two fuel blocks of
two solid components + coolant, and a top dummy block) with ARBITRARY heights, growth fractions and densities.

The assembly / grid / linkage containers are harness stand-ins (their API is the trusted contract); blocks are real
HexBlock objects, components real Component objects with the parameter collection viewed as a name->value map.
"""
from spec import *

AxialExpansionChanger = repo("armi.reactor.converters.axialExpansionChanger.axialExpansionChanger:AxialExpansionChanger")
ExpansionData = repo("armi.reactor.converters.axialExpansionChanger.expansionData:ExpansionData")
HexBlock = repo("armi.reactor.blocks:HexBlock")
Component = repo("armi.reactor.components.component:Component")
Material = repo("armi.materials.material:Material")
Fluid = repo("armi.materials.material:Fluid")


class PMap:
    def __getitem__(self, k):
        return getattr(self, k)

    def __setitem__(self, k, v):
        setattr(self, k, v)

    def get(self, k, d=None):
        return getattr(self, k, d)

    def __getattr__(self, k):
        # parameters this harness does not set read as unset (only reached by log formatting)
        if k.startswith("__"):
            raise AttributeError(k)
        return None


class GridStub:
    def __getitem__(self, ijk):
        return ("loc", ijk)


class AssemblyStub:
    """what the changer needs from an Assembly: ordered blocks, their count, the axial grid"""

    def __iter__(self):
        return iter(self.blocks)

    def countBlocksWithFlags(self):
        return len(self.blocks)


class Link:
    pass


class Linkage:
    pass


def comp(solid, nd, parent):
    p = new(PMap, numberDensities={"U235": nd}, detailedNDens=None, pinNDens=None, volume=1.0, type="pin", serialNum=1)
    return new(Component, p=p, material=new(Material) if solid else new(Fluid), parent=None, height=0.0, zbottom=0.0, ztop=0.0, name="c")


def block(zb, zt, comps):
    return new(HexBlock, p=new(PMap, zbottom=zb, ztop=zt, height=zt - zb, z=(zb + zt) / 2.0, flags=None, type="fuel", serialNum=2), _children=comps, name="b", parent=None,
               spatialLocator=None)


GEN = {"h0": (3.0, 40.0), "h1": (3.0, 40.0), "h2": (30.0, 60.0), "gf0": (0.9, 1.1), "gc0": (0.9, 1.1), "gf1": (0.9, 1.1), "gc1": (0.9, 1.1),
       "n": (0.001, 0.05)}


@lemma(gen=GEN, timeout=30)
def expansion_keeps_height_contiguity_and_target_mass(h0: float, h1: float, h2: float, gf0: float, gc0: float, gf1: float, gc1: float, n: float):
    assume(h0 > 0 and h1 > 0 and h2 > 0 and gf0 > 0 and gc0 > 0 and gf1 > 0 and gc1 > 0)  # any density n (0 included): the statement is an identity in n
    f0, c0, k0 = comp(True, n, None), comp(True, 2 * n, None), comp(False, 3 * n, None)
    f1, c1, k1 = comp(True, n, None), comp(True, 2 * n, None), comp(False, 3 * n, None)
    kd = comp(False, 3 * n, None)
    b0 = block(0.0, h0, [f0, c0, k0])
    b1 = block(h0, h0 + h1, [f1, c1, k1])
    bd = block(h0 + h1, h0 + h1 + h2, [kd])
    a = new(AssemblyStub, blocks=[b0, b1, bd], spatialGrid=new(GridStub, _bounds=(None, None, None)))
    linked = new(Linkage, a=a,
                 linkedBlocks={b0: new(Link, lower=None, upper=b1), b1: new(Link, lower=b0, upper=bd), bd: new(Link, lower=b1, upper=None)},
                 linkedComponents={f0: new(Link, lower=None, upper=f1), c0: new(Link, lower=None, upper=c1),
                                   f1: new(Link, lower=f0, upper=None), c1: new(Link, lower=c0, upper=None)})
    ed = new(ExpansionData, _expansionFactors={f0: gf0, c0: gc0, f1: gf1, c1: gc1}, _componentDeterminesBlockHeight={f0: True, f1: True})
    ch = new(AxialExpansionChanger, linked=linked, expansionData=ed)
    total = bd.p.ztop
    try:
        ch.axiallyExpandAssembly()
    except ArithmeticError:
        return  # the dummy block cannot absorb the growth: refused loudly
    # total height unchanged: the top of the dummy block never moves
    assert eq(bd.p.ztop, total), "total assembly height unchanged"
    # contiguity and heights
    assert eq(b0.p.zbottom, 0.0)
    assert eq(b1.p.zbottom, b0.p.ztop) and eq(bd.p.zbottom, b1.p.ztop), "each block's bottom is the top of the one below"
    assert eq(b0.p.height, b0.p.ztop - b0.p.zbottom) and eq(b1.p.height, b1.p.ztop - b1.p.zbottom) and eq(bd.p.height, bd.p.ztop - bd.p.zbottom)
    assert bd.p.height >= 0
    # grid bounds equal those elevations, locators (0, 0, k)
    bounds = a.spatialGrid._bounds[2]
    assert len(bounds) == 4
    assert eq(bounds[0], 0.0) and eq(bounds[1], b0.p.ztop) and eq(bounds[2], b1.p.ztop) and eq(bounds[3], bd.p.ztop)
    assert b0.spatialLocator == ("loc", (0, 0, 0)) and b1.spatialLocator == ("loc", (0, 0, 1)) and bd.spatialLocator == ("loc", (0, 0, 2))
    # block boundaries move with the target component
    assert eq(b0.p.ztop, f0.ztop) and eq(b1.p.ztop, f1.ztop), "block top = top of its target component"
    assert eq(f0.height, gf0 * h0) and eq(f1.height, gf1 * h1), "target grows by its fraction of the old block height"
    # components linked axially stay stacked
    assert eq(f1.zbottom, f0.ztop) and eq(c1.zbottom, c0.ztop), "linked components sit on the one below"
    # densities divided by the growth fraction; fluids untouched
    assert eq(f0.p.numberDensities["U235"] * gf0, n) and eq(c1.p.numberDensities["U235"] * gc1, 2 * n)
    assert eq(k0.p.numberDensities["U235"], 3 * n) and eq(kd.p.numberDensities["U235"], 3 * n)
    # target-component mass (per unit area): density x new block height = old density x old block height
    assert eq(f0.p.numberDensities["U235"] * b0.p.height, n * h0), "target mass of block 0 conserved"
    assert eq(f1.p.numberDensities["U235"] * b1.p.height, n * h1), "target mass of block 1 conserved (target stacked on the target below)"
    # uniform growth conserves every solid's mass
    if eq(gf0, gc0):
        assert eq(c0.p.numberDensities["U235"] * b0.p.height, 2 * n * h0), "uniform growth: every solid's mass conserved"


@lemma(gen=GEN, timeout=30)
def expansion_then_inverse_restores(h0: float, h1: float, h2: float, gf0: float, gf1: float, n: float):
    """all solids of a block share the fraction: expanding and then applying the inverse restores heights and densities"""
    assume(h0 > 0 and h1 > 0 and h2 > 0 and gf0 > 0 and gf1 > 0)
    f0, c0 = comp(True, n, None), comp(True, 2 * n, None)
    f1, c1 = comp(True, n, None), comp(True, 2 * n, None)
    kd = comp(False, 3 * n, None)
    b0 = block(0.0, h0, [f0, c0])
    b1 = block(h0, h0 + h1, [f1, c1])
    bd = block(h0 + h1, h0 + h1 + h2, [kd])
    a = new(AssemblyStub, blocks=[b0, b1, bd], spatialGrid=new(GridStub, _bounds=(None, None, None)))
    linked = new(Linkage, a=a,
                 linkedBlocks={b0: new(Link, lower=None, upper=b1), b1: new(Link, lower=b0, upper=bd), bd: new(Link, lower=b1, upper=None)},
                 linkedComponents={f0: new(Link, lower=None, upper=f1), c0: new(Link, lower=None, upper=c1),
                                   f1: new(Link, lower=f0, upper=None), c1: new(Link, lower=c0, upper=None)})
    ed = new(ExpansionData, _expansionFactors={f0: gf0, c0: gf0, f1: gf1, c1: gf1}, _componentDeterminesBlockHeight={f0: True, f1: True})
    ch = new(AxialExpansionChanger, linked=linked, expansionData=ed)
    try:
        ch.axiallyExpandAssembly()
        ed._expansionFactors = {f0: 1.0 / gf0, c0: 1.0 / gf0, f1: 1.0 / gf1, c1: 1.0 / gf1}
        ch.axiallyExpandAssembly()
    except ArithmeticError:
        return
    assert eq(b0.p.ztop, h0) and eq(b1.p.ztop, h0 + h1) and eq(bd.p.ztop, h0 + h1 + h2), "heights restored"
    assert eq(f0.p.numberDensities["U235"], n) and eq(c0.p.numberDensities["U235"], 2 * n) and eq(c1.p.numberDensities["U235"], 2 * n), "densities restored"


@lemma(gen=dict(GEN, fuelLinked=[True, False], cladLinked=[True, False]), timeout=30)
def expansion_with_components_that_have_nothing_below(fuelLinked: bool, cladLinked: bool, h0: float, h1: float, h2: float, gf0: float, gc0: float, gf1: float,
                                                      gc1: float, nf: float, nc: float):
    """the step above for the OTHER linkages of the same shape: a solid of the upper pin block that is NOT linked to a solid
    below it (fuelLinked / cladLinked False: no radial overlap, other multiplicity) sits on the block boundary instead of
    on a component; independent densities nf, nc of any sign.  Height, contiguity, grid bounds, boundary-with-target and
    target mass hold as before (the Linkage stand-in of the lemmas above always links every solid)."""
    assume(h0 > 0 and h1 > 0 and h2 > 0 and gf0 > 0 and gc0 > 0 and gf1 > 0 and gc1 > 0)
    f0, c0 = comp(True, nf, None), comp(True, nc, None)
    f1, c1 = comp(True, nf, None), comp(True, nc, None)
    kd = comp(False, 1.0, None)
    b0 = block(0.0, h0, [c0, f0])  # the target is not the first child
    b1 = block(h0, h0 + h1, [f1, c1])
    bd = block(h0 + h1, h0 + h1 + h2, [kd])
    a = new(AssemblyStub, blocks=[b0, b1, bd], spatialGrid=new(GridStub, _bounds=(None, None, None)))
    linked = new(Linkage, a=a,
                 linkedBlocks={b0: new(Link, lower=None, upper=b1), b1: new(Link, lower=b0, upper=bd), bd: new(Link, lower=b1, upper=None)},
                 linkedComponents={f0: new(Link, lower=None, upper=f1 if fuelLinked else None), c0: new(Link, lower=None, upper=c1 if cladLinked else None),
                                   f1: new(Link, lower=f0 if fuelLinked else None, upper=None), c1: new(Link, lower=c0 if cladLinked else None, upper=None)})
    ed = new(ExpansionData, _expansionFactors={f0: gf0, c0: gc0, f1: gf1, c1: gc1}, _componentDeterminesBlockHeight={f0: True, f1: True})
    ch = new(AxialExpansionChanger, linked=linked, expansionData=ed)
    total = bd.p.ztop
    try:
        ch.axiallyExpandAssembly()
    except ArithmeticError:
        return
    cover("expanded")
    assert eq(bd.p.ztop, total), "total assembly height unchanged"
    assert eq(b0.p.zbottom, 0.0) and eq(b1.p.zbottom, b0.p.ztop) and eq(bd.p.zbottom, b1.p.ztop), "each block's bottom is the top of the one below"
    assert eq(b0.p.height, b0.p.ztop - b0.p.zbottom) and eq(b1.p.height, b1.p.ztop - b1.p.zbottom) and eq(bd.p.height, bd.p.ztop - bd.p.zbottom)
    assert b0.p.height > 0 and b1.p.height > 0 and bd.p.height > 0, "blocks of positive height"
    bounds = a.spatialGrid._bounds[2]
    assert len(bounds) == 4 and eq(bounds[0], 0.0) and eq(bounds[1], b0.p.ztop) and eq(bounds[2], b1.p.ztop) and eq(bounds[3], bd.p.ztop)
    assert eq(b0.p.ztop, f0.ztop) and eq(b1.p.ztop, f1.ztop), "block top = top of its target component"
    assert eq(f0.height, gf0 * h0) and eq(f1.height, gf1 * h1) and eq(c1.height, gc1 * h1)
    assert eq(f1.zbottom, f0.ztop), "the target sits on the target below = the block boundary, linked or not"
    assert eq(c1.zbottom, c0.ztop if cladLinked else b0.p.ztop), "a linked solid sits on the one below, an unlinked one on the block boundary"
    assert eq(f0.p.numberDensities["U235"] * b0.p.height, nf * h0) and eq(f1.p.numberDensities["U235"] * b1.p.height, nf * h1), "target mass conserved"
    assert eq(c1.p.numberDensities["U235"] * gc1, nc), "density divided by the growth fraction"
    assert implies(eq(gf1, gc1) and not cladLinked, eq(c1.p.numberDensities["U235"] * b1.p.height, nc * h1)), "uniform growth on the common base: mass conserved"


# ----------------------------------------------------------------------------- which component is a block's target
class FlagNames:
    """stand-in for armi.reactor.flags.Flags inside expansionData (flag = its name; a block/component carries a set)"""

    FUEL = "FUEL"
    CONTROL = "CONTROL"
    POISON = "POISON"
    SHIELD = "SHIELD"
    SLUG = "SLUG"
    PLENUM = "PLENUM"
    ACLP = "ACLP"
    DUMMY = "DUMMY"
    CLAD = "CLAD"


class CompStub:
    pass


class BlockStub:
    """what ExpansionData needs from a Block: flags, children by flag / name, the designated-target parameter"""

    def hasFlags(self, f):
        return f in self.flags

    def getChildrenWithFlags(self, f):
        return [c for c in self.comps if f in c.flags]

    def getChildren(self):
        return list(self.comps)

    def getComponent(self, f):
        found = [c for c in self.comps if f in c.flags]
        return found[0] if found else None

    def getComponentByName(self, name):
        found = [c for c in self.comps if c.name == name]
        return found[0] if found else None

    def __iter__(self):
        return iter(self.comps)


def pin_block(blockFlags, designated):
    fuel = new(CompStub, name="fuel", flags={"FUEL"}, material=new(Material))
    clad = new(CompStub, name="clad", flags={"CLAD"}, material=new(Material))
    cool = new(CompStub, name="coolant", flags={"COOLANT"}, material=new(Fluid))
    b = new(BlockStub, flags=blockFlags, comps=[fuel, clad, cool], p=new(PMap, axialExpTargetComponent=designated))
    return b, fuel, clad


TARGETS = ["FUEL", "CONTROL", "POISON", "SHIELD", "SLUG"]  # TARGET_FLAGS_IN_PREFERRED_ORDER in terms of the stand-in flags
FLAG_OVERRIDE = {"armi.reactor.converters.axialExpansionChanger.expansionData:Flags": "FlagNames",
                 "armi.reactor.converters.axialExpansionChanger.expansionData:TARGET_FLAGS_IN_PREFERRED_ORDER": "TARGETS"}


@lemma(overrides=FLAG_OVERRIDE, gen={"kind": (0, 3)})
def designated_target_is_respected(setFuel: bool, kind: int):
    """a block boundary moves with its DESIGNATED target component; the default rules apply only without a designation"""
    kind = choose(kind, 0, 3)
    flags = [{"FUEL"}, {"PLENUM"}, {"ACLP"}, {"SHIELD"}][kind]
    # (1) explicit designation of the clad, on any kind of block, with or without fuel locking
    b, fuel, clad = pin_block(flags, "clad")
    ed = new(ExpansionData, _a=[b], _componentDeterminesBlockHeight={}, _expansionFactors={})
    ed._setTargetComponents(setFuel)
    assert ed.isTargetComponent(clad) and not ed.isTargetComponent(fuel), "the designated component is the target"
    assert b.p.axialExpTargetComponent == "clad", "and the designation is not overwritten"
    # (2) no designation: fuel blocks lock to the fuel (or find it by flag), plenum/aclp blocks to the clad
    b2, fuel2, clad2 = pin_block(flags, None)
    ed2 = new(ExpansionData, _a=[b2], _componentDeterminesBlockHeight={}, _expansionFactors={})
    ed2._setTargetComponents(setFuel)
    if kind == 1 or kind == 2:
        assert ed2.isTargetComponent(clad2) and not ed2.isTargetComponent(fuel2)
        assert b2.p.axialExpTargetComponent == "clad"
    else:
        assert ed2.isTargetComponent(fuel2) and not ed2.isTargetComponent(clad2)
        assert b2.p.axialExpTargetComponent == "fuel"


@lemma(overrides=FLAG_OVERRIDE)
def dummy_blocks_have_no_target_and_ambiguity_is_refused(setFuel: bool):
    b, fuel, clad = pin_block({"DUMMY"}, None)
    ed = new(ExpansionData, _a=[b], _componentDeterminesBlockHeight={}, _expansionFactors={})
    ed._setTargetComponents(setFuel)
    assert not ed.isTargetComponent(fuel) and not ed.isTargetComponent(clad)
    # two fuel components and no designation: refused (exactly one candidate)
    b3, fuel3, clad3 = pin_block({"SHIELD"}, None)
    b3.comps.append(new(CompStub, name="fuel2", flags={"FUEL"}, material=new(Material)))
    ed3 = new(ExpansionData, _a=[b3], _componentDeterminesBlockHeight={}, _expansionFactors={})
    try:
        ed3._setTargetComponents(False)
        ok = True
    except RuntimeError:
        ok = False
    assert not ok


# ----------------------------------------------------------------------------- axial linkage from the real geometry
HexAssembly = repo("armi.reactor.assemblies:HexAssembly")
AssemblyAxialLinkage = repo("armi.reactor.converters.axialExpansionChanger.assemblyAxialLinkage:AssemblyAxialLinkage")
Circle = repo("armi.reactor.components.basicShapes:Circle")
Hexagon = repo("armi.reactor.components.basicShapes:Hexagon")


def circle(name, solid, idm, od, mult, nd=0.01):
    """a real Circle with cold dimensions id / od / mult (parameter collection viewed as a map)"""
    p = new(PMap, numberDensities={"U235": nd}, detailedNDens=None, pinNDens=None, volume=1.0, type=name, serialNum=1, od=od, mult=mult, flags=None)
    p.id = idm
    return new(Circle, p=p, material=new(Material) if solid else new(Fluid), parent=None, height=0.0, zbottom=0.0, ztop=0.0, name=name, cached={},
               inputTemperatureInC=20.0)


def real_assembly(blocks):
    a = new(HexAssembly, _children=blocks, p=new(PMap, assemNum=3), name="A", parent=None, spatialGrid=None, spatialLocator=None)
    for b in blocks:
        b.parent = a
        for c in b._children:
            c.parent = b
    return a


@lemma(gen={"n": (2, 3), "o0": (0.1, 2.0), "o1": (0.1, 2.0), "i0": (0.0, 1.5), "i1": (0.0, 1.5), "m0": [1.0, 169.0], "m1": [1.0, 169.0]})
def linkage_follows_block_order_and_radial_overlap(n: int, i0: float, o0: float, i1: float, o1: float, m0: float, m1: float):
    """the REAL AssemblyAxialLinkage of a REAL HexAssembly of n = 2..3 blocks (enumerated); blocks 0 and 1 hold one solid
    Circle each (any inner / outer diameters and multiplicities) plus a fluid ring, a third block only fluid:
    block links follow the block order; the two solids are linked to each other exactly when they have the same
    multiplicity and their cross-sections overlap (larger inner diameter < smaller outer diameter); fluids are never
    linked; links are mutual (upper of the lower = lower of the upper)."""
    n = choose(n, 2, 3)
    assume(0 <= i0 and i0 < o0 and 0 <= i1 and i1 < o1 and m0 >= 1 and m1 >= 1)
    s0, k0 = circle("fuel", True, i0, o0, m0), circle("coolant", False, o0, o0 + 1.0, m0)
    s1, k1 = circle("fuel", True, i1, o1, m1), circle("coolant", False, o1, o1 + 1.0, m1)
    kd = circle("coolant", False, 0.0, 3.0, 1.0)
    blocks = [block(0.0, 10.0, [s0, k0]), block(10.0, 20.0, [s1, k1])] + ([block(20.0, 30.0, [kd])] if n == 3 else [])
    a = real_assembly(blocks)
    lk = AssemblyAxialLinkage(a)
    assert same(lk.a, a) and len(lk.linkedBlocks) == n
    for k in range(n):
        below = blocks[k - 1] if k > 0 else None
        above = blocks[k + 1] if k + 1 < n else None
        assert same(lk.linkedBlocks[blocks[k]].lower, below) and same(lk.linkedBlocks[blocks[k]].upper, above), "blocks are linked in assembly order"
    overlap = max(i0, i1) < min(o0, o1)
    linked = eq(m0, m1) and overlap
    assert len(lk.linkedComponents) == 2 and s0 in lk.linkedComponents and s1 in lk.linkedComponents, "only solids take part"
    assert is_none(lk.linkedComponents[s0].lower) and is_none(lk.linkedComponents[s1].upper)
    if linked:
        assert same(lk.linkedComponents[s0].upper, s1) and same(lk.linkedComponents[s1].lower, s0), "overlapping solids are linked, mutually"
    else:
        assert is_none(lk.linkedComponents[s0].upper) and is_none(lk.linkedComponents[s1].lower), "no overlap / other multiplicity: not linked"


@lemma(gen={"o0": (0.1, 2.0), "o1": (0.1, 2.0), "o2": (0.1, 2.0)})
def ambiguous_linkage_is_refused(o0: float, o1: float, o2: float):
    """a solid pin below TWO solid pins of the same multiplicity that both overlap it: the linkage is refused (RuntimeError),
    it is never resolved silently in favour of one of them"""
    assume(o0 > 0 and o1 > 0 and o2 > 0)
    s0 = circle("fuel", True, 0.0, o0, 1.0)
    s1, s2 = circle("fuel", True, 0.0, o1, 1.0), circle("slug", True, 0.0, o2, 1.0)
    a = real_assembly([block(0.0, 10.0, [s0]), block(10.0, 20.0, [s1, s2])])
    try:
        AssemblyAxialLinkage(a)
        refused = False
    except RuntimeError:
        refused = True
    assert refused


# ----------------------------------------------------------------------------- the whole entry point on a real assembly
class FBlock(HexBlock):
    """HexBlock whose type flags are a set of names (armi Flags are bit masks, outside the engine's integer subset);
    everything else - child queries by flag, iteration, heights - is the real Composite / Block code"""

    def hasFlags(self, typeID, exact=False):
        return typeID is None or typeID in self.flags


class FCircle(Circle):
    """Circle with the same stand-in for its type flags"""

    def hasFlags(self, typeID, exact=False):
        return typeID is None or typeID in self.flags


def fcircle(name, flags, solid, idm, od, nd, stale=0.0):
    c = circle(name, solid, idm, od, 1.0, nd)
    p = c.p
    return new(FCircle, p=p, material=new(Material) if solid else new(Fluid), parent=None, height=stale, zbottom=stale, ztop=stale, name=name, cached={},
               inputTemperatureInC=20.0, flags=flags)


def fblock(h, flags, comps):
    return new(FBlock, p=new(PMap, zbottom=None, ztop=None, height=h, z=None, flags=None, type="fuel", serialNum=2, axialExpTargetComponent=None),
               _children=comps, name="b", parent=None, spatialLocator=None, flags=flags)


CH_OVERRIDE = {"armi.reactor.converters.axialExpansionChanger.expansionData:Flags": "FlagNames",
               "armi.reactor.converters.axialExpansionChanger.expansionData:TARGET_FLAGS_IN_PREFERRED_ORDER": "TARGETS",
               "armi.reactor.converters.axialExpansionChanger.axialExpansionChanger:Flags": "FlagNames"}

WGEN = {"nb": (1, 3), "h0": (3.0, 40.0), "h1": (3.0, 40.0), "h2": (3.0, 40.0), "hd": (30.0, 60.0), "gf0": (0.9, 1.1), "gc0": (0.9, 1.1), "gf1": (0.9, 1.1),
        "gc1": (0.9, 1.1), "gf2": (0.9, 1.1), "gc2": (0.9, 1.1), "n": (0.001, 0.05)}


@lemma(gen=WGEN, overrides=CH_OVERRIDE, timeout=120)
def prescribed_expansion_of_a_whole_assembly(nb: int, setFuel: bool, h0: float, h1: float, h2: float, hd: float, gf0: float, gc0: float, gf1: float, gc1: float,
                                             gf2: float, gc2: float, n: float, stale: float):
    """AxialExpansionChanger.performPrescribedAxialExpansion - setAssembly (REAL AssemblyAxialLinkage from the pin geometry,
    REAL ExpansionData with its target selection, dummy-block check), setExpansionFactors, axiallyExpandAssembly - on a REAL
    HexAssembly with a REAL AxialGrid, z-coordinates established by reestablishBlockOrder / calculateZCoords:
    nb = 1..3 pin blocks (enumerated; fuel pin + clad ring + coolant each) under a coolant-only dummy block, ANY positive
    heights, growth fractions and densities, and ANY previous component elevations (`stale`): the post-state is again a
    contiguous stack from 0 under the same total height, i.e. the statement is the step for any history of changes.  Stand-ins: type flags as name sets (FBlock / FCircle / FlagNames), parameter
    collections as maps (PMap)."""
    nb = choose(nb, 1, 3)
    hs, gf, gc = [h0, h1, h2], [gf0, gf1, gf2], [gc0, gc1, gc2]
    assume(h0 > 0 and h1 > 0 and h2 > 0 and hd > 0)
    assume(gf0 > 0 and gc0 > 0 and gf1 > 0 and gc1 > 0 and gf2 > 0 and gc2 > 0)
    fuel, clad, cool, blocks = [], [], [], []
    for k in range(nb):
        fuel.append(fcircle("fuel", {"FUEL"}, True, 0.0, 0.8, n, stale))
        clad.append(fcircle("clad", {"CLAD"}, True, 0.9, 1.0, 2 * n, stale))
        cool.append(fcircle("coolant", {"COOLANT"}, False, 1.0, 1.5, 3 * n))
        blocks.append(fblock(hs[k], {"FUEL"}, [fuel[k], clad[k], cool[k]]))
    kd = fcircle("coolant", {"COOLANT"}, False, 0.0, 1.5, 3 * n)
    bd = fblock(hd, {"DUMMY"}, [kd])
    blocks.append(bd)
    a = real_assembly(blocks)
    a.reestablishBlockOrder()
    a.calculateZCoords()
    total = bd.p.ztop
    comps, percents = [], []
    for k in range(nb):
        comps = comps + [fuel[k], clad[k]]
        percents = percents + [gf[k], gc[k]]
    ch = AxialExpansionChanger()
    try:
        ch.performPrescribedAxialExpansion(a, comps, percents, setFuel)
    except ArithmeticError:
        cover("refused")
        return  # the dummy block cannot absorb the growth: refused loudly
    cover("expanded")
    # total height unchanged
    assert eq(bd.p.ztop, total) and eq(a.getTotalHeight(), total), "total assembly height unchanged"
    bounds = a.spatialGrid._bounds[2]
    assert len(bounds) == nb + 2 and eq(bounds[0], 0.0)
    assert eq(blocks[0].p.zbottom, 0.0)
    for k in range(nb + 1):
        b = blocks[k]
        if k > 0:
            assert eq(b.p.zbottom, blocks[k - 1].p.ztop), "each block's bottom is the top of the one below"
        assert eq(b.p.height, b.p.ztop - b.p.zbottom) and eq(b.p.z, (b.p.zbottom + b.p.ztop) / 2.0)
        assert b.p.height >= 0
        assert eq(bounds[k + 1], b.p.ztop), "the axial grid bounds equal the block elevations"
        assert b.spatialLocator.getCompleteIndices() == (0, 0, k) and same(b.spatialLocator.grid, a.spatialGrid)
    for k in range(nb):
        b = blocks[k]
        assert b.p.height > 0, "pin blocks keep a positive height"
        assert b.p.axialExpTargetComponent == "fuel" and ch.expansionData.isTargetComponent(fuel[k]) and not ch.expansionData.isTargetComponent(clad[k])
        assert eq(b.p.ztop, fuel[k].ztop), "a block boundary moves with its target component"
        assert eq(fuel[k].height, gf[k] * hs[k]) and eq(clad[k].height, gc[k] * hs[k]), "each solid grows by its fraction of the old block height"
        below_f = fuel[k - 1].ztop if k > 0 else 0.0
        below_c = clad[k - 1].ztop if k > 0 else 0.0
        assert eq(fuel[k].zbottom, below_f) and eq(clad[k].zbottom, below_c), "components linked axially stay stacked bottom-on-top"
        assert eq(fuel[k].ztop, fuel[k].zbottom + fuel[k].height) and eq(clad[k].ztop, clad[k].zbottom + clad[k].height)
        assert eq(fuel[k].p.numberDensities["U235"] * gf[k], n) and eq(clad[k].p.numberDensities["U235"] * gc[k], 2 * n), "density divided by the growth fraction"
        assert eq(cool[k].p.numberDensities["U235"], 3 * n), "fluids are not touched"
        assert eq(fuel[k].p.numberDensities["U235"] * b.p.height, n * hs[k]), "the mass of the block's target component is conserved"
        common_base = True if k == 0 else eq(clad[k].zbottom, b.p.zbottom)
        assert implies(eq(gf[k], gc[k]) and common_base, eq(clad[k].p.numberDensities["U235"] * b.p.height, 2 * n * hs[k])), \
            "uniform growth (on a common base): every solid's mass conserved"
    assert eq(kd.p.numberDensities["U235"], 3 * n)


@lemma(gen={"g0": (-0.5, 1.5), "g1": (-0.5, 1.5), "extra": (0, 1)})
def unphysical_growth_fractions_are_refused(g0: float, g1: float, extra: int):
    """ExpansionData.setExpansionFactors: a growth fraction <= 0 or a list of the wrong length is refused (RuntimeError)
    and NO factor of the call is stored; otherwise exactly the given factors are stored, and getExpansionFactor returns
    them (1.0 for a component never mentioned)."""
    extra = choose(extra, 0, 1)
    c0, c1, c2 = comp(True, 0.01, None), comp(True, 0.01, None), comp(True, 0.01, None)
    ed = new(ExpansionData, _expansionFactors={}, _componentDeterminesBlockHeight={})
    try:
        ed.setExpansionFactors([c0, c1], [g0, g1] + ([1.0] if extra == 1 else []))
        ok = True
    except RuntimeError:
        ok = False
    if g0 > 0 and g1 > 0 and extra == 0:
        assert ok and eq(ed.getExpansionFactor(c0), g0) and eq(ed.getExpansionFactor(c1), g1) and len(ed._expansionFactors) == 2
    else:
        assert not ok, "unphysical input is refused"
        assert len(ed._expansionFactors) == 0, "and leaves no partial state behind"
    assert eq(ed.getExpansionFactor(c2), 1.0)


# ----------------------------------------------------------------------------- expansion by a temperature field
class AbstractSolid(Material):
    """a solid material with an ARBITRARY expansion correlation P(T) (percent), as in C03_expansion.py"""

    def linearExpansionPercent(self, Tk=None, Tc=None):
        return uf("P", Tc)


class AbstractFluid(Fluid):
    """a fluid with an arbitrary density law rho(T)"""

    def pseudoDensity(self, Tk=None, Tc=None):
        return uf("rho", Tc)


def percent(c, T):
    return c.material.linearExpansionPercent(Tc=T) if NATIVE else uf("P", T)


def tcircle(name, flags, solid, idm, od, T, nd):
    """FCircle at temperature T (input temperature 20 C)"""
    if NATIVE:
        c = FCircle(name, "HT9" if solid else "Sodium", 20.0, T, od=od, mult=1.0)
        c.setDimension("id", idm, cold=True)
        c.p.numberDensities = {"U235": nd}
        c.height, c.zbottom, c.ztop, c.flags = 0.0, 0.0, 0.0, flags
        return c
    p = new(PMap, numberDensities={"U235": nd}, detailedNDens=None, pinNDens=None, volume=None, modArea=None, type=name, serialNum=1, od=od, mult=1.0,
            temperatureInC=T, flags=None)
    p.id = idm
    return new(FCircle, p=p, material=new(AbstractSolid) if solid else new(AbstractFluid), parent=None, height=0.0, zbottom=0.0, ztop=0.0, name=name, cached={},
               inputTemperatureInC=20.0, flags=flags)


@lemma(gen={"nb": (1, 2), "h0": (3.0, 40.0), "h1": (3.0, 40.0), "hd": (30.0, 60.0), "T0": (300.0, 500.0), "T1": (300.0, 500.0), "U0": (250.0, 700.0),
            "U1": (250.0, 700.0), "Ud": (250.0, 700.0), "n": (0.001, 0.05)}, overrides=CH_OVERRIDE, timeout=120)
def thermal_expansion_of_a_whole_assembly(nb: int, h0: float, h1: float, hd: float, T0: float, T1: float, U0: float, U1: float, Ud: float, n: float):
    """AxialExpansionChanger.performThermalAxialExpansion (setAssembly, updateComponentTempsBy1DTempField,
    computeThermalExpansionFactors, axiallyExpandAssembly) with one temperature point at the centre of every block:
    nb = 1..2 pin blocks (enumerated) + dummy on a real HexAssembly / AxialGrid / AssemblyAxialLinkage, solids of an
    ABSTRACT material (arbitrary expansion law P(T) > -100 percent; natively HT9), block k going from temperature
    T_k to U_k.  Each solid grows axially by (100 + P(U)) / (100 + P(T)) of the block height; total height, contiguity
    and grid bounds as for the prescribed case; number density x growth^3 is conserved (2-D thermal + axial change)."""
    nb = choose(nb, 1, 2)
    hs, Ts, Us = [h0, h1], [T0, T1], [U0, U1]
    assume(h0 > 0 and h1 > 0 and hd > 0)
    fuel, clad, blocks = [], [], []
    for k in range(nb):
        fuel.append(tcircle("fuel", {"FUEL"}, True, 0.0, 0.8, Ts[k], n))
        clad.append(tcircle("clad", {"CLAD"}, True, 0.9, 1.0, Ts[k], 2 * n))
        cool = tcircle("coolant", {"COOLANT"}, False, 1.0, 1.5, Ts[k], 3 * n)
        blocks.append(fblock(hs[k], {"FUEL"}, [fuel[k], clad[k], cool]))
        assume(percent(fuel[k], Ts[k]) > -100.0 and percent(fuel[k], Us[k]) > -100.0)
    kd = tcircle("coolant", {"COOLANT"}, False, 0.0, 1.5, T0, 3 * n)
    bd = fblock(hd, {"DUMMY"}, [kd])
    blocks.append(bd)
    a = real_assembly(blocks)
    a.reestablishBlockOrder()
    a.calculateZCoords()
    total = bd.p.ztop
    grid = [b.p.z for b in blocks]
    field = [Us[k] for k in range(nb)] + [Ud]
    ch = AxialExpansionChanger()
    try:
        ch.performThermalAxialExpansion(a, grid, field)
    except ArithmeticError:
        cover("refused")
        return
    except RuntimeError:
        # Component.getThermalExpansionFactor refuses a material whose expansion law gives NO change between two different
        # temperatures ("may not be implemented"): the only other refusal, and only for that reason
        flat0 = eq(percent(fuel[0], U0), percent(fuel[0], T0)) and U0 != T0
        flat1 = nb == 2 and eq(percent(fuel[nb - 1], U1), percent(fuel[nb - 1], T1)) and U1 != T1
        assert flat0 or flat1
        return
    cover("expanded")
    assert eq(bd.p.ztop, total) and eq(a.getTotalHeight(), total), "total assembly height unchanged"
    bounds = a.spatialGrid._bounds[2]
    assert len(bounds) == nb + 2 and eq(bounds[0], 0.0) and eq(blocks[0].p.zbottom, 0.0)
    for k in range(nb + 1):
        b = blocks[k]
        if k > 0:
            assert eq(b.p.zbottom, blocks[k - 1].p.ztop), "each block's bottom is the top of the one below"
        assert eq(b.p.height, b.p.ztop - b.p.zbottom) and b.p.height >= 0
        assert eq(bounds[k + 1], b.p.ztop), "the axial grid bounds equal the block elevations"
    for k in range(nb):
        g = (100.0 + percent(fuel[k], Us[k])) / (100.0 + percent(fuel[k], Ts[k]))
        assert eq(fuel[k].temperatureInC, Us[k]) and eq(clad[k].temperatureInC, Us[k]), "components take the block's temperature"
        assert eq(fuel[k].height, g * hs[k]) and eq(clad[k].height, g * hs[k]), "axial growth = ratio of the linear expansion factors"
        assert eq(blocks[k].p.ztop, fuel[k].ztop) and blocks[k].p.height > 0
        assert eq(fuel[k].p.numberDensities["U235"] * g * g * g, n, 1e-7), "atoms conserved: density x growth^3"
        assert eq(fuel[k].p.numberDensities["U235"] * blocks[k].p.height * g * g, n * hs[k], 1e-7), "target component: density x height x area conserved"


@lemma(gen={"h0": (3.0, 40.0), "h1": (3.0, 40.0), "hd": (30.0, 60.0), "s0": [0.0, 0.3, 1.0, 1.0], "s1": [0.0, 0.0, 0.6, 1.0], "sd": [0.0, 0.5, 1.0], "T0": (300.0, 500.0),
            "T1": (300.0, 500.0), "U0": (250.0, 700.0), "U1": (250.0, 700.0), "Ud": (250.0, 700.0), "n": (0.001, 0.05)}, overrides=CH_OVERRIDE, timeout=200)
def thermal_expansion_with_temperature_points_anywhere(h0: float, h1: float, hd: float, s0: float, s1: float, sd: float, T0: float, T1: float, U0: float, U1: float,
                                                       Ud: float, n: float):
    """thermal_expansion_of_a_whole_assembly with the temperature points NOT at the block centres: 2 pin blocks + dummy, one
    point per block at ANY relative position s in [0, 1] of the block - including exactly on a block boundary, where the
    point belongs to both neighbours and a block's temperature is the mean of the points inside it.  Whatever temperature
    a block ends up with (read back from its components), each solid grows by the ratio of the expansion factors at the
    new and old temperature, and total height, contiguity, grid bounds, positive heights and atoms hold as before."""
    hs, Ts = [h0, h1], [T0, T1]
    assume(h0 > 0 and h1 > 0 and hd > 0)
    assume(0 <= s0 and s0 <= 1 and 0 <= s1 and s1 <= 1 and 0 <= sd and sd <= 1)
    fuel, clad, blocks = [], [], []
    for k in range(2):
        fuel.append(tcircle("fuel", {"FUEL"}, True, 0.0, 0.8, Ts[k], n))
        clad.append(tcircle("clad", {"CLAD"}, True, 0.9, 1.0, Ts[k], 2 * n))
        cool = tcircle("coolant", {"COOLANT"}, False, 1.0, 1.5, Ts[k], 3 * n)
        blocks.append(fblock(hs[k], {"FUEL"}, [fuel[k], clad[k], cool]))
    kd = tcircle("coolant", {"COOLANT"}, False, 0.0, 1.5, T0, 3 * n)
    bd = fblock(hd, {"DUMMY"}, [kd])
    blocks.append(bd)
    a = real_assembly(blocks)
    a.reestablishBlockOrder()
    a.calculateZCoords()
    total = bd.p.ztop
    grid = [s0 * h0, h0 + s1 * h1, h0 + h1 + sd * hd]
    field = [U0, U1, Ud]
    ch = AxialExpansionChanger()
    try:
        ch.performThermalAxialExpansion(a, grid, field)
    except ArithmeticError:
        cover("refused")
        return
    except RuntimeError:
        return  # a flat expansion law between two different temperatures (see the lemma above)
    cover("expanded")
    for k in range(2):
        assume(percent(fuel[k], Ts[k]) > -100.0 and percent(fuel[k], fuel[k].temperatureInC) > -100.0)
    assert eq(bd.p.ztop, total) and eq(a.getTotalHeight(), total), "total assembly height unchanged"
    bounds = a.spatialGrid._bounds[2]
    assert len(bounds) == 4 and eq(bounds[0], 0.0) and eq(blocks[0].p.zbottom, 0.0)
    for k in range(3):
        b = blocks[k]
        if k > 0:
            assert eq(b.p.zbottom, blocks[k - 1].p.ztop), "each block's bottom is the top of the one below"
        assert eq(b.p.height, b.p.ztop - b.p.zbottom) and b.p.height > 0
        assert eq(bounds[k + 1], b.p.ztop), "the axial grid bounds equal the block elevations"
    for k in range(2):
        Tnew = fuel[k].temperatureInC
        assert eq(clad[k].temperatureInC, Tnew), "all components of a block take the same temperature"
        lo, hi = min(U0, U1, Ud), max(U0, U1, Ud)
        assert lo <= Tnew and Tnew <= hi or NATIVE and (eq(Tnew, lo) or eq(Tnew, hi)), "... a mean of field values"
        g = (100.0 + percent(fuel[k], Tnew)) / (100.0 + percent(fuel[k], Ts[k]))
        assert eq(fuel[k].height, g * hs[k]) and eq(clad[k].height, g * hs[k]), "axial growth = ratio of the linear expansion factors"
        assert eq(blocks[k].p.ztop, fuel[k].ztop)
        assert eq(fuel[k].p.numberDensities["U235"] * g * g * g, n, 1e-7), "atoms conserved: density x growth^3"
    assert implies(s1 > 0, eq(fuel[0].temperatureInC, U0)), "a block with one point takes its value"
    assert implies(s1 == 0, eq(fuel[0].temperatureInC, (U0 + U1) / 2.0)), "a point on the boundary counts for both neighbours"


# ----------------------------------------------------------------------------- the linkage relation itself (documented contract of areAxiallyLinked)
HoledHexagon = repo("armi.reactor.components.complexShapes:HoledHexagon")
areAxiallyLinked = repo("armi.reactor.converters.axialExpansionChanger.assemblyAxialLinkage:areAxiallyLinked")


def hexagon(name, solid, ip, op, mult):
    p = new(PMap, numberDensities={"FE": 0.01}, detailedNDens=None, pinNDens=None, volume=1.0, type=name, serialNum=2, op=op, ip=ip, mult=mult, flags=None)
    return new(Hexagon, p=p, material=new(Material) if solid else new(Fluid), parent=None, height=0.0, zbottom=0.0, ztop=0.0, name=name, cached={}, inputTemperatureInC=20.0)


def holed_hexagon(name, op, holeOD, nHoles, mult):
    p = new(PMap, numberDensities={"FE": 0.01}, detailedNDens=None, pinNDens=None, volume=1.0, type=name, serialNum=3, op=op, holeOD=holeOD, nHoles=nHoles, mult=mult, flags=None)
    return new(HoledHexagon, p=p, material=new(Material), parent=None, height=0.0, zbottom=0.0, ztop=0.0, name=name, cached={}, inputTemperatureInC=20.0)


@lemma(gen={"op0": (5.0, 20.0), "op1": (5.0, 20.0), "ip0": (0.0, 4.0), "hole": (0.1, 1.0), "od": (0.1, 4.0), "m": [1.0, 1.0, 7.0]})
def components_are_linked_mutually_and_only_to_their_own_shape(op0: float, ip0: float, op1: float, hole: float, od: float, m: float):
    """areAxiallyLinked on real Hexagon / HoledHexagon (a subclass of Hexagon) / Circle components that all overlap radially
    and have the same multiplicity: the relation is SYMMETRIC (a one-way link would stack a component on a neighbour that
    does not carry it - 'components linked axially stay stacked bottom-on-top' needs both ends to agree) and holds only
    between components of the identical shape class (documented contract: 'They have identical types')."""
    assume(0 <= ip0 and ip0 < op0 and 0 < op1 and 0 < hole and hole < op1 and 0 < od and m >= 1)
    h = hexagon("duct", True, ip0, op0, m)
    hh = holed_hexagon("reflector", op1, hole, 1, m)
    c = circle("slug", True, 0.0, od, m)
    h2 = hexagon("duct", True, 0.0, op1, m)
    for a, b in ((h, hh), (h, c), (hh, c), (h, h2)):
        assert areAxiallyLinked(a, b) == areAxiallyLinked(b, a), "linkage is mutual"
    assert not areAxiallyLinked(hh, h) and not areAxiallyLinked(h, hh), "a holed hexagon is not the same shape as a hexagon"
    assert not areAxiallyLinked(h, c) and not areAxiallyLinked(hh, c)
    assert areAxiallyLinked(h, h2) == (ip0 < op1), "identical shapes: linked iff they overlap (larger inner < smaller outer bounding diameter)"
    assert not areAxiallyLinked(h, hexagon("duct", False, 0.0, op1, m)), "fluids are never linked"
