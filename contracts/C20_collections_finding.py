"""C20 - lemmas on the component-wise block collections that assert the property text and are REFUTED on the unchanged
tree (findings; not picked up by ./check).  Stand-ins copied from contracts/C20_collections.py (see the contracts
stated there)."""
from spec import *

xsgm = repo("armi.physics.neutronics.crossSectionGroupManager")
Cyl = repo("armi.physics.neutronics.crossSectionGroupManager:CylindricalComponentsAverageBlockCollection")
Slab = repo("armi.physics.neutronics.crossSectionGroupManager:SlabComponentsAverageBlockCollection")
Average = repo("armi.physics.neutronics.crossSectionGroupManager:AverageBlockCollection")
NUCS = ["U235", "FE56"]
FUEL = "fuel-flag"


class Params:
    def __getitem__(self, name):
        return getattr(self, name)


class CComp:
    def __lt__(self, other):
        return self.order < other.order

    def getNuclides(self):
        return list(self.p.numberDensities)

    def getNuclideNumberDensities(self, nucNames):
        return [self.p.numberDensities.get(nucName, 0.0) for nucName in nucNames]

    def getArea(self):
        return self.area

    def isLatticeComponent(self):
        return self.lattice

    def setNumberDensity(self, nuc, val):
        self.p.numberDensities[nuc] = val

    def setNumberDensities(self, numberDensities):
        self.p.numberDensities = dict(numberDensities)

    def getMass(self):
        return self.mass


class CBlk:
    def __iter__(self):
        return iter(self.comps)

    def __len__(self):
        return len(self.comps)

    def __getitem__(self, index):
        return self.comps[index]

    def hasFlags(self, typeSpec):
        return True if typeSpec is None else self.eligible

    def getVolume(self):
        return self.vol

    def getName(self):
        return self.name

    def getAverageTempInC(self):
        return self.avgT

    def getComponents(self):
        return list(self.comps)

    def getVolumeFractions(self):
        return [(c, c.volFrac) for c in self.comps]

    def getHeight(self):
        return self.height

    def getNuclideNumberDensities(self, nucNames):
        return [self.dens[n] for n in nucNames]

    def setNumberDensities(self, numberDensities):
        self.dens = dict(numberDensities)

    def getLumpedFissionProductCollection(self):
        return self.lfp

    def setLumpedFissionProducts(self, lfp):
        self.lfp = lfp


def ccomp(order, nd, area=1.0, mult=1.0, temp=0.0, volFrac=0.5, flags="f", lattice=False):
    return new(CComp, order=order, area=area, temperatureInC=temp, volFrac=volFrac, lattice=lattice,
               p=new(Params, numberDensities=nd, mult=mult, flags=flags))


def cblk(comps, vol=1.0, flux=0.0, eligible=True, name="B", avgT=0.0):
    return new(CBlk, comps=list(comps), vol=vol, eligible=eligible, name=name, avgT=avgT, p=new(Params, flux=flux))


Rectangle = repo("armi.reactor.components.basicShapes:Rectangle")


class RComp(Rectangle):
    """probe subclass of the real Rectangle (the slab collection tests isinstance(c, Rectangle)) with the CComp
    contracts in place of the Component machinery; there is no radial order among slabs"""

    def __repr__(self):
        return "<RComp>"

    def getNuclides(self):
        return list(self.p.numberDensities)

    def getNuclideNumberDensities(self, nucNames):
        return [self.p.numberDensities.get(nucName, 0.0) for nucName in nucNames]

    def getArea(self):
        return self.area

    def isLatticeComponent(self):
        return self.lattice

    def setNumberDensity(self, nuc, val):
        self.p.numberDensities[nuc] = val


def rcomp(nd, area=1.0, mult=1.0, lattice=False):
    return new(RComp, area=area, lattice=lattice, p=new(Params, numberDensities=nd, mult=mult))


def refused_by(fn, *args):
    try:
        fn(*args)
        return False
    except ValueError:
        return True


class SBlk(CBlk):
    """block stand-in for _removeLatticeComponents.  Contracts: iterating iterComponents() walks the LIVE child list
    (Composite.iterComponents is the lazy `(c for child in self for c in child.iterComponents(..))`, Composite.__iter__
    is iter(self._children), a Component yields itself): returned here as the child list itself, which a for loop
    walks in exactly the same way; remove(c) takes c out of the child list (Composite.remove)."""

    def iterComponents(self, typeSpec=None, exact=False):
        return self.comps

    def remove(self, c):
        self.comps.remove(c)


def lattice_case(k, ls):
    comps = [rcomp({"U235": 0.01}, area=0.0 if ls[j] else 1.0, lattice=ls[j]) for j in range(k)]
    rep = new(SBlk, comps=list(comps))
    out = Slab._removeLatticeComponents(rep)
    assert same(out, rep)
    assert not any(c.isLatticeComponent() for c in out.comps), "no lattice component is left"
    keep = [c for c in comps if not c.lattice]
    assert len(out.comps) == len(keep) and all(same(a, b) for a, b in zip(out.comps, keep)), "the plates are kept, in order"


def similarity_case(n, counts, flags, es, byComponent):
    bc = Average(NUCS, averageByComponent=byComponent)
    bc._validRepresentativeBlockTypes = [FUEL]
    for i in range(n):
        comps = [ccomp(j, {"U235": 0.01}, flags=flags[i][j]) for j in range(counts[i])]
        bc.append(cblk(comps if i == 0 else reversed(comps), eligible=es[i]))  # stored order differs between members
    return bc


# ------------------------------------------------------------------------------------------ the findings
@lemma(gen={"k": [1, 2, 3, 4]})
def all_lattice_components_are_removed_from_the_representative_block(k: int, l1: bool, l2: bool, l3: bool, l4: bool):
    """_removeLatticeComponents ('Remove the lattice component from the representative block') on a block of 1..4
    components (enumerated) of which ANY subset are lattice components: afterwards no lattice component is left.
    REFUTED: the method removes children while it walks the live child list, so the component after a removed one is
    skipped - of two adjacent lattice components the second stays."""
    k = choose(k, 1, 4)
    lattice_case(k, [l1, l2, l3, l4][:k])


@lemma(gen={"ka": [1, 2, 3], "kb": [1, 2, 3], "a1": [1, 2], "a2": [3, 4, 3], "a3": [5, 5, 6], "b1": [1, 2], "b2": [3, 4, 3], "b3": [5, 5, 6]})
def members_with_different_numbers_of_components_are_not_averaged_per_component(ka: int, kb: int, a1: int, a2: int, a3: int, b1: int,
                                                                                b2: int, b3: int):
    """AverageBlockCollection._checkBlockSimilarity ('Check if blocks in the collection have similar components') for
    two eligible members of ka and kb components (both enumerated 1..3): members with DIFFERENT numbers of
    components are not similar - there is no 'matching component' for the extra ones.  REFUTED: zip() truncates the
    comparison to the common prefix, so (fuel, clad) and (fuel, clad, duct) count as similar; the representative
    block is then averaged per component over the first two and the third is dropped silently (template = the
    shorter member) or createRepresentativeBlock dies with IndexError (template = the longer one)."""
    ka = choose(ka, 1, 3)
    kb = choose(kb, 1, 3)
    flags = [[a1, a2, a3], [b1, b2, b3]]
    bc = similarity_case(2, [ka, kb], flags, [True, True], True)
    similar = ka == kb and all(flags[0][j] == flags[1][j] for j in range(ka))
    assert bc._checkBlockSimilarity() == similar, "similar = same number of components and the same flags position by position"




def check_signed_mean(avg, ws, xs, what):
    """avg is the weight-normalised mean of xs for weights of ONE sign (not all zero): the normalised weights w / W
    are >= 0 and sum to one, hence avg lies between min and max and is the common value when the members agree"""
    W = sum(ws)
    assert eq(avg * W, sum(w * x for w, x in zip(ws, xs))), what + ": weight-normalised mean"
    tol = 1e-9 * (1.0 + abs(avg)) if NATIVE else 0.0  # rounding of the floating-point mean only (A1)
    assert any(w != 0 and x <= avg + tol for w, x in zip(ws, xs)), what + ": not below the minimum"
    assert any(w != 0 and x >= avg - tol for w, x in zip(ws, xs)), what + ": not above the maximum"
    for w0, x0 in zip(ws, xs):
        assert implies(w0 != 0 and all(implies(w != 0, x == x0) for w, x in zip(ws, xs)), eq(avg, x0)), what + ": the common value"


GENA_NEG = {"n": [1, 2, 3], "w1": (0.1, 50.0), "w2": (0.1, 50.0), "w3": (0.1, 50.0), "A1": [0.0, -0.5, -2.0], "A2": [-1.5, -3.0], "A3": [-0.25, -4.0, 0.0],
            "u1": (0.0, 0.05), "u2": (0.0, 0.05), "u3": (0.0, 0.05)}


@lemma(gen=GENA_NEG)
def matching_components_of_negative_area_keep_their_average_density(n: int, w1: float, w2: float, w3: float, A1: float, A2: float, A3: float,
                                                                    u1: float, u2: float, u3: float):
    """CylindricalComponentsAverageBlockCollection._getAverageComponentNucs for the matching components of 1..3
    members (enumerated) whose area is NEGATIVE (<= 0, not all zero) in every member - armi's representation of a gap
    that the neighbouring components overlap (Component.getArea / getVolume are negative there, and the gap may hold
    a bond material, not only void).  Weight of a member = block weight x component area; all weights have one sign,
    so the weight-normalised mean is the same convex combination as for positive areas.  REFUTED: the method tests
    `totalWeight > 0.0` where it means `!= 0.0` and returns ZERO densities for every nuclide: the bond of the
    representative block is emptied although every member holds the same density."""
    n = choose(n, 1, 3)
    bw, ar, us = [w1, w2, w3][:n], [A1, A2, A3][:n], [u1, u2, u3][:n]
    assume(all(w > 0 for w in bw) and all(a <= 0 for a in ar) and any(a < 0 for a in ar))
    comps = [ccomp(0, {"U235": u}, area=a) for u, a in zip(us, ar)]
    names, dens = Cyl(NUCS)._getAverageComponentNucs(comps, bw)
    assert names == ["U235"] and len(dens) == 1
    check_signed_mean(dens[0], [w * a for w, a in zip(bw, ar)], us, "U235")
