"""C15 - which interfaces are called at an event, in which order, with which arguments; tight-coupling iterations.

The real Operator.getActiveInterfaces / _interactAll / interactAll* / _performTightCoupling / interactAllCoupled /
_checkTightCouplingConvergence and the real Interface.enabled / bolForce are executed.  Stand-ins (collaborators):
`Rec` (an Interface subclass whose hooks only record the call: hook bodies are plugin code), `Timer`/`TimerCtx`
(self.timer.getTimer(...) is a context manager without effect on the stack), `Coupler` (a TightCoupler whose
convergence answer is an arbitrary boolean per iteration), `Holder`/`PMap` (reactor parameters as attributes).
Shapes enumerated: a stack of exactly 3 interfaces (covers 0..3 active ones through the flags); every flag is a
symbolic boolean; excluded / deferred name sets are enumerated completely over the 8 subsets of the 3 names.
"""
from spec import *

Operator = repo("armi.operators.operator:Operator")
Interface = repo("armi.interfaces:Interface")

NAMES = ("a", "b", "c")


class PMap:
    pass


class Holder:
    pass


class TimerCtx:
    def __enter__(self):
        return self

    def __exit__(self, *a):
        return False


class Timer:
    """stand-in for armi.utils.codeTiming master timer: a context manager per message, no effect"""

    def getTimer(self, msg):
        return TimerCtx()


class Rec(Interface):
    """recording interface: real Interface flags (enabled()/bolForce()/reverseAtEOL), hooks record (hook, name, args)"""

    def interactBOL(self):
        self.trace.append(("BOL", self.name))

    def interactBOC(self, cycle=None):
        self.trace.append(("BOC", self.name, cycle))
        return self.halts

    def interactEveryNode(self, cycle, node):
        self.trace.append(("EveryNode", self.name, cycle, node))

    def interactEOC(self, cycle=None):
        self.trace.append(("EOC", self.name, cycle))

    def interactEOL(self):
        self.trace.append(("EOL", self.name))

    def interactCoupled(self, iteration):
        self.trace.append(("Coupled", self.name, iteration))


def subset(mask):
    return tuple(NAMES[k] for k in range(3) if (mask // (2 ** k)) % 2 == 1)


def stack(trace, en, bf, rev, halts=(False, False, False)):
    return [new(Rec, name=NAMES[k], _enabled=en[k], _bolForce=bf[k], reverseAtEOL=rev[k], trace=trace, halts=halts[k],
                coupler=None) for k in range(3)]


def operator(ifaces, deferred=(), deferredCycle=0):
    r = new(Holder, p=new(PMap, cycle=0, timeNode=0, time=0.0), core=new(Holder, p=new(PMap, coupledIteration=0)))
    cs = {"verbosity": "info", "debugMem": False, "debugDB": False, "deferredInterfaceNames": list(deferred),
          "deferredInterfacesCycle": deferredCycle}
    return new(Operator, interfaces=ifaces, cs=cs, r=r, timer=new(Timer))


def wanted(hook, en, bf, rev, excluded, args):
    """the property text: enabled (or forced at BOL), not excluded / deferred, stack order, reverse-flagged last reversed"""
    act = [k for k in range(3) if (en[k] or (hook == "BOL" and bf[k])) and NAMES[k] not in excluded]
    if hook == "EOL":
        act = [k for k in act if not rev[k]] + [k for k in act if rev[k]][::-1]
    return [(hook, NAMES[k]) + tuple(args) for k in act]




@lemma(gen={"mask": (0, 7), "cycle": (0, 9), "node": (0, 9)})
def every_node_and_end_of_cycle_call_enabled_unexcluded_in_stack_order(
        e0: bool, e1: bool, e2: bool, b0: bool, b1: bool, b2: bool, r0: bool, r1: bool, r2: bool, mask: int, cycle: int, node: int):
    mask = choose(mask, 0, 7)
    en, bf, rev = (e0, e1, e2), (b0, b1, b2), (r0, r1, r2)
    excluded = subset(mask)
    trace = []
    o = operator(stack(trace, en, bf, rev))
    o.interactAllEveryNode(cycle, node, excludedInterfaceNames=excluded)
    assert trace == wanted("EveryNode", en, bf, rev, excluded, (cycle, node)), "every node: enabled, not excluded, once each, stack order, (cycle, node) passed"
    del trace[:]
    o.interactAllEOC(cycle, excludedInterfaceNames=excluded)
    assert trace == wanted("EOC", en, bf, rev, excluded, (cycle,)), "end of cycle: the same selection, cycle passed"


@lemma(gen={"xmask": (0, 7), "dmask": (0, 7), "dcycle": (0, 5)})
def beginning_of_life_calls_enabled_or_forced_not_deferred_not_excluded(
        e0: bool, e1: bool, e2: bool, b0: bool, b1: bool, b2: bool, r0: bool, r1: bool, r2: bool, xmask: int, dmask: int, dcycle: int):
    xmask = choose(xmask, 0, 7)
    dmask = choose(dmask, 0, 7)
    en, bf, rev = (e0, e1, e2), (b0, b1, b2), (r0, r1, r2)
    excluded, deferred = subset(xmask), subset(dmask)
    trace = []
    o = operator(stack(trace, en, bf, rev), deferred, dcycle)
    o.interactAllBOL(excludedInterfaceNames=excluded)
    assert trace == wanted("BOL", en, bf, rev, excluded + deferred, ()), "BOL: enabled or forced, neither excluded nor deferred, stack order"


@lemma(gen={"dmask": (0, 7), "dcycle": (0, 5), "cycle": (0, 5)})
def beginning_of_cycle_defers_until_the_start_cycle_and_reports_any_halt(
        e0: bool, e1: bool, e2: bool, b0: bool, b1: bool, b2: bool, h0: bool, h1: bool, h2: bool, dmask: int, dcycle: int, cycle: int):
    dmask = choose(dmask, 0, 7)
    en, bf, rev = (e0, e1, e2), (b0, b1, b2), (False, False, False)
    halts = (h0, h1, h2)
    deferred = subset(dmask) if cycle < dcycle else ()
    trace = []
    o = operator(stack(trace, en, bf, rev, halts), subset(dmask), dcycle)
    halt = o.interactAllBOC(cycle)
    assert trace == wanted("BOC", en, bf, rev, deferred, (cycle,)), "BOC: enabled, not deferred before the start cycle, ALL of them called (also after a halt request), cycle passed"
    called = [k for k in range(3) if en[k] and NAMES[k] not in deferred]
    assert bool(halt) == any([halts[k] for k in called]), "a halt request of any called interface is reported"


@lemma(gen={"mask": (0, 7)})
def end_of_life_runs_reverse_flagged_last_in_reverse_order(
        e0: bool, e1: bool, e2: bool, b0: bool, b1: bool, b2: bool, r0: bool, r1: bool, r2: bool, mask: int):
    mask = choose(mask, 0, 7)
    en, bf, rev = (e0, e1, e2), (b0, b1, b2), (r0, r1, r2)
    excluded = subset(mask)
    trace = []
    o = operator(stack(trace, en, bf, rev))
    o.interactAllEOL(excludedInterfaceNames=excluded)
    assert trace == wanted("EOL", en, bf, rev, excluded, ()), "EOL: plain ones in stack order, then reverse-flagged ones in reverse order"
    if e0 and e1 and e2 and r0 and r2 and not r1 and mask == 0:
        cover("first-also-last")
        assert [t[1] for t in trace] == ["b", "c", "a"]


@lemma(gen={"cycle": (0, 9), "node": (0, 9), "n": (0, 1)})
def an_empty_or_one_interface_stack_is_handled_like_any_other(cycle: int, node: int, n: int, e0: bool, b0: bool, r0: bool, h0: bool):
    """the lemmas above fix the stack at three interfaces: here the EMPTY stack (every event calls nobody, BOC reports no
    halt, nothing raises) and a stack of ONE interface (enabled / forced / reverse-flagged / halting or not)"""
    n = choose(n, 0, 1)
    trace = []
    ifs = [new(Rec, name="a", _enabled=e0, _bolForce=b0, reverseAtEOL=r0, trace=trace, halts=h0, coupler=None)][:n]
    o = operator(ifs)
    o.interactAllBOL()
    halt = o.interactAllBOC(cycle)
    o.interactAllEveryNode(cycle, node)
    o.interactAllEOC(cycle)
    o.interactAllEOL()
    want = []
    if n == 1:
        want = ([("BOL", "a")] if e0 or b0 else []) + ([("BOC", "a", cycle), ("EveryNode", "a", cycle, node), ("EOC", "a", cycle), ("EOL", "a")] if e0 else [])
    assert trace == want, "exactly the enabled (or BOL-forced) interface, once per event, with the current cycle and node"
    assert bool(halt) == (n == 1 and e0 and h0), "a halt is reported only if a called interface asked for it"


# ----------------------------------------------------------------------------- tight coupling
class Coupler:
    """stand-in for interfaces.TightCoupler: whether interface k has converged after iteration n is an ARBITRARY
    boolean pat[n] (symbolic list); counts store/isConverged calls"""

    parameter = "power"
    eps = 0.0

    def storePreviousIterationValue(self, val):
        self.stored = self.stored + 1

    def isConverged(self, val):
        r = self.pat[self.asked]
        self.asked = self.asked + 1
        return r


class CRec(Rec):
    def getTightCouplingValue(self):
        return 1.0


class DbRec(Rec):
    """stand-in for the database interface (its name is what _performTightCoupling looks up)"""

    def writeDBEveryNode(self):
        self.trace.append(("DBWRITE",))


def no_report(summary):
    """contract of reportingUtils.writeTightCouplingConvergenceSummary: logging only"""
    return None


def coupled_operator(trace, pats, en, cap, skip):
    ifs = [new(CRec, name=NAMES[k], _enabled=en[k], _bolForce=False, reverseAtEOL=False, trace=trace, halts=False,
               coupler=(None if pats[k] is None else new(Coupler, pat=pats[k], asked=0, stored=0))) for k in range(3)]
    ifs.append(new(DbRec, name="database", _enabled=True, _bolForce=False, reverseAtEOL=False, trace=trace, halts=False, coupler=None))
    o = operator(ifs)
    o.cs["tightCoupling"] = True
    o.cs["tightCouplingMaxNumIters"] = cap
    o.cs["cyclesSkipTightCouplingInteraction"] = skip
    return o


@lemma(gen={"cap": (1, 4), "cycle": (0, 3), "node": (0, 3)},
       stubs={"armi.bookkeeping.report.reportingUtils:writeTightCouplingConvergenceSummary": "no_report"})
def coupling_iterates_until_all_converged_or_cap(cap: int, cycle: int, node: int, e0: bool, e2: bool):
    """cap enumerated 1..4; two couplers (interfaces a and c; b has none) with arbitrary convergence patterns;
    a, c enabled or not (a disabled coupler does not take part)"""
    cap = choose(cap, 1, 4)
    pa = sym_list("bool", "pa", maxlen=6)
    pc = sym_list("bool", "pc", maxlen=6)
    assume(len(pa) >= cap and len(pc) >= cap)
    trace = []
    o = coupled_operator(trace, (pa, None, pc), (e0, True, e2), cap, [7])
    assume(cycle != 7)
    o._performTightCoupling(cycle, node)
    # the property: iterate until every (active) coupler has converged, at most cap times
    n = 0
    done = False
    want = []
    while n < cap and not done:
        want = want + [("Coupled", NAMES[k], n) for k in range(3) if (e0, True, e2)[k]] + [("Coupled", "database", n)]
        done = (not e0 or pa[n]) and (not e2 or pc[n])
        n = n + 1
    want.append(("DBWRITE",))
    assert trace == want, "Coupled hooks of the enabled interfaces, in stack order, once per iteration, iterations 0..n-1; then one DB write"
    assert o.r.core.p.coupledIteration == n, "the reactor carries the iteration count"
    for k in (0, 2):
        c = o.interfaces[k].coupler
        assert c.asked == (n if (e0, True, e2)[k] else 0) and c.stored == c.asked, "previous value stored and convergence asked once per iteration"


@lemma(gen={"cap": (1, 4), "cycle": (0, 3), "node": (0, 3)},
       stubs={"armi.bookkeeping.report.reportingUtils:writeTightCouplingConvergenceSummary": "no_report"})
def exempt_cycle_has_no_coupling_iterations(cap: int, cycle: int, node: int, other: int):
    cap = choose(cap, 1, 3)
    assume(other != cycle)
    pa = sym_list("bool", "pa", maxlen=6)
    assume(len(pa) >= cap)
    trace = []
    o = coupled_operator(trace, (pa, None, None), (True, True, True), cap, [other, cycle])
    o._performTightCoupling(cycle, node)
    assert trace == [("DBWRITE",)], "exempt cycle: no Coupled call, the node is still written"
    o.cs["tightCoupling"] = False
    o._performTightCoupling(cycle, node)
    assert trace == [("DBWRITE",)], "coupling off: nothing happens here (the database interface writes in its own hook)"


# ----------------------------------------------------------------------------- any iteration cap (loop invariant)
LOOP_INVARIANTS = {
    ("armi.operators.operator:Operator._performTightCoupling", 1): {
        "inv": [
            "self.calls == _i",
            "self.inOrder",
            "_i == 0 or self.r.core.p.coupledIteration == _i",
            "_i == 0 or not converged",
            "forall(lambda j: not (0 <= j and j < _i) or not self.pat[j])",
        ],
        "havoc": ["self.calls", "self.inOrder", "self.r.core.p.coupledIteration"],
    },
}


class CountingOperator(Operator):
    """the real _performTightCoupling; the fan-out interactAllCoupled (contract proved for the real one in
    coupling_iterates_until_all_converged_or_cap: calls the hooks, answers 'all couplers converged') is replaced by a
    counter whose answer in iteration k is the arbitrary boolean pat[k]"""

    def interactAllCoupled(self, coupledIteration):
        self.inOrder = self.inOrder and coupledIteration == self.calls
        self.calls = self.calls + 1
        return self.pat[coupledIteration]


@lemma(gen={"cap": (1, 6), "cycle": (0, 3), "node": (0, 3)})
def any_cap_iterations_stop_at_first_convergence_or_cap(cap: int, cycle: int, node: int):
    """cap is ANY integer >= 1 and the convergence pattern ANY boolean sequence (symbolic list): loop invariant"""
    assume(cap >= 1)  # (C) the setting has no lower bound; cap <= 0 raises UnboundLocalError: C15_stack_finding.py a_cap_of_zero_iterations_...; design round: candidate F7, dropped
    pat = sym_list("bool", "pat", maxlen=8)
    assume(len(pat) >= cap + 2)  # the pattern is longer than any run needs
    trace = []
    db = new(DbRec, name="database", _enabled=True, _bolForce=False, reverseAtEOL=False, trace=trace, halts=False, coupler=None)
    r = new(Holder, p=new(PMap, cycle=cycle, timeNode=node, time=0.0), core=new(Holder, p=new(PMap, coupledIteration=0)))
    cs = {"tightCoupling": True, "tightCouplingMaxNumIters": cap, "cyclesSkipTightCouplingInteraction": []}
    o = new(CountingOperator, interfaces=[db], cs=cs, r=r, pat=pat, calls=0, inOrder=True)
    o._performTightCoupling(cycle, node)
    n = o.calls
    assert 1 <= n and n <= cap, "at least one, at most cap iterations"
    assert o.inOrder, "numbered 0, 1, 2, ... in order"
    assert forall(lambda j: not (0 <= j and j < n - 1) or not pat[j]), "no earlier iteration had converged"
    assert pat[n - 1] or n == cap, "stopped because all converged, or because the cap was reached"
    assert r.core.p.coupledIteration == n
    assert trace == [("DBWRITE",)], "then the node is written, once"


# ----------------------------------------------------------------------------- stack construction
class FluxA(Rec):
    name = "fluxA"
    function = "globalFlux"


class FluxB(Rec):
    name = "fluxB"
    function = "globalFlux"


class FluxA2(FluxA):
    name = "fluxA2"


def fresh(cls, trace, name=None):
    i = new(cls, _enabled=True, _bolForce=False, reverseAtEOL=False, trace=trace, halts=False, coupler=None, r=None, cs=None, o=None)
    if name is not None:
        i.name = name
    return i


@lemma(gen={"where": (0, 3)})
def add_interface_places_flags_and_refuses_duplicates(where: int, enabled: bool, force: bool, rev: bool):
    """stack [a, b]; a third interface added at index 0..2 or appended (where = 3); flags symbolic"""
    where = choose(where, 0, 3)
    trace = []
    a, b, c = fresh(Rec, trace, "a"), fresh(Rec, trace, "b"), fresh(Rec, trace, "c")
    o = operator([a, b])
    o.addInterface(c, index=(None if where == 3 else where), reverseAtEOL=rev, enabled=enabled, bolForce=force)
    want = [a, b]
    want.insert(2 if where == 3 else where, c)
    assert len(o.interfaces) == 3 and all([same(x, y) for x, y in zip(o.interfaces, want)]), "inserted at the index / appended; the others keep their order"
    assert c.enabled() == enabled and c.bolForce() == force and c.reverseAtEOL == rev, "flags as requested"
    assert same(c.o, o) and same(c.r, o.r), "attached to the operator and its reactor"
    o.interactAllBOL()
    assert [t[1] for t in trace] == [i.name for i in want if i.enabled() or i.bolForce()], "and it is called at its place in the stack"
    dup = fresh(Rec, trace, "b")
    try:
        o.addInterface(dup)
        ok = True
    except RuntimeError:
        ok = False
    assert not ok and len(o.interfaces) == 3, "a second interface of the same name is refused; the stack is unchanged"


@lemma
def one_interface_per_function_the_more_derived_wins():
    trace = []
    base, other, derived = fresh(FluxA, trace), fresh(FluxB, trace), fresh(FluxA2, trace)
    first = fresh(Rec, trace, "a")
    o = operator([first, base])
    try:
        o.addInterface(other)
        ok = True
    except RuntimeError:
        ok = False
    assert not ok and len(o.interfaces) == 2, "two unrelated interfaces of one function are refused"
    o.addInterface(derived)
    assert len(o.interfaces) == 2 and same(o.interfaces[1], derived) and base.o is None, "a subclass replaces the more general interface of that function"
    o.addInterface(fresh(FluxA, trace))
    assert len(o.interfaces) == 2 and same(o.interfaces[1], derived), "the more general one is then ignored"
    assert same(o.getInterface(function="globalFlux"), derived) and same(o.getInterface("a"), first) and o.getInterface("zz") is None
