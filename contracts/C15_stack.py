"""C15 - which interfaces are called at an event, in which order, with which arguments; tight-coupling iterations.

The real Operator.getActiveInterfaces / _interactAll / interactAll* / _performTightCoupling / interactAllCoupled /
_checkTightCouplingConvergence and the real Interface.enabled / bolForce are executed.  Stand-ins (collaborators):
`Rec` (an Interface subclass whose hooks only record the call: hook bodies are plugin code), `Timer`/`TimerCtx`
(self.timer.getTimer(...) is a context manager without effect on the stack), `Coupler` (a TightCoupler whose
convergence answer is an arbitrary boolean per iteration), `Holder`/`PMap` (reactor parameters as attributes).
Shapes enumerated: a stack of exactly 3 interfaces (covers 0..3 active ones through the flags); every flag is a
symbolic boolean; excluded / deferred name sets are enumerated completely over the 8 subsets of the 3 names.
"""
from spec import *

Operator = repo("armi.operators.operator:Operator")
Interface = repo("armi.interfaces:Interface")

NAMES = ("a", "b", "c")


class PMap:
    pass


class Holder:
    pass


class TimerCtx:
    def __enter__(self):
        return self

    def __exit__(self, *a):
        return False


class Timer:
    """stand-in for armi.utils.codeTiming master timer: a context manager per message, no effect"""

    def getTimer(self, msg):
        return TimerCtx()


class Rec(Interface):
    """recording interface: real Interface flags (enabled()/bolForce()/reverseAtEOL), hooks record (hook, name, args)"""

    def interactBOL(self):
        self.trace.append(("BOL", self.name))

    def interactBOC(self, cycle=None):
        self.trace.append(("BOC", self.name, cycle))
        return self.halts

    def interactEveryNode(self, cycle, node):
        self.trace.append(("EveryNode", self.name, cycle, node))

    def interactEOC(self, cycle=None):
        self.trace.append(("EOC", self.name, cycle))

    def interactEOL(self):
        self.trace.append(("EOL", self.name))

    def interactCoupled(self, iteration):
        self.trace.append(("Coupled", self.name, iteration))


def subset(mask):
    return tuple(NAMES[k] for k in range(3) if (mask // (2 ** k)) % 2 == 1)


def stack(trace, en, bf, rev, halts=(False, False, False)):
    return [new(Rec, name=NAMES[k], _enabled=en[k], _bolForce=bf[k], reverseAtEOL=rev[k], trace=trace, halts=halts[k],
                coupler=None) for k in range(3)]


def operator(ifaces, deferred=(), deferredCycle=0):
    r = new(Holder, p=new(PMap, cycle=0, timeNode=0, time=0.0), core=new(Holder, p=new(PMap, coupledIteration=0)))
    cs = {"verbosity": "info", "debugMem": False, "debugDB": False, "deferredInterfaceNames": list(deferred),
          "deferredInterfacesCycle": deferredCycle}
    return new(Operator, interfaces=ifaces, cs=cs, r=r, timer=new(Timer))


def wanted(hook, en, bf, rev, excluded, args):
    """the property text: enabled (or forced at BOL), not excluded / deferred, stack order, reverse-flagged last reversed"""
    act = [k for k in range(3) if (en[k] or (hook == "BOL" and bf[k])) and NAMES[k] not in excluded]
    if hook == "EOL":
        act = [k for k in act if not rev[k]] + [k for k in act if rev[k]][::-1]
    return [(hook, NAMES[k]) + tuple(args) for k in act]




@lemma(gen={"mask": (0, 7), "cycle": (0, 9), "node": (0, 9)})
def every_node_and_end_of_cycle_call_enabled_unexcluded_in_stack_order(
        e0: bool, e1: bool, e2: bool, b0: bool, b1: bool, b2: bool, r0: bool, r1: bool, r2: bool, mask: int, cycle: int, node: int):
    mask = choose(mask, 0, 7)
    en, bf, rev = (e0, e1, e2), (b0, b1, b2), (r0, r1, r2)
    excluded = subset(mask)
    trace = []
    o = operator(stack(trace, en, bf, rev))
    o.interactAllEveryNode(cycle, node, excludedInterfaceNames=excluded)
    assert trace == wanted("EveryNode", en, bf, rev, excluded, (cycle, node)), "every node: enabled, not excluded, once each, stack order, (cycle, node) passed"
    del trace[:]
    o.interactAllEOC(cycle, excludedInterfaceNames=excluded)
    assert trace == wanted("EOC", en, bf, rev, excluded, (cycle,)), "end of cycle: the same selection, cycle passed"


@lemma(gen={"xmask": (0, 7), "dmask": (0, 7), "dcycle": (0, 5)})
def beginning_of_life_calls_enabled_or_forced_not_deferred_not_excluded(
        e0: bool, e1: bool, e2: bool, b0: bool, b1: bool, b2: bool, r0: bool, r1: bool, r2: bool, xmask: int, dmask: int, dcycle: int):
    xmask = choose(xmask, 0, 7)
    dmask = choose(dmask, 0, 7)
    en, bf, rev = (e0, e1, e2), (b0, b1, b2), (r0, r1, r2)
    excluded, deferred = subset(xmask), subset(dmask)
    trace = []
    o = operator(stack(trace, en, bf, rev), deferred, dcycle)
    o.interactAllBOL(excludedInterfaceNames=excluded)
    assert trace == wanted("BOL", en, bf, rev, excluded + deferred, ()), "BOL: enabled or forced, neither excluded nor deferred, stack order"


@lemma(gen={"dmask": (0, 7), "dcycle": (0, 5), "cycle": (0, 5)})
def beginning_of_cycle_defers_until_the_start_cycle_and_reports_any_halt(
        e0: bool, e1: bool, e2: bool, b0: bool, b1: bool, b2: bool, h0: bool, h1: bool, h2: bool, dmask: int, dcycle: int, cycle: int):
    dmask = choose(dmask, 0, 7)
    en, bf, rev = (e0, e1, e2), (b0, b1, b2), (False, False, False)
    halts = (h0, h1, h2)
    deferred = subset(dmask) if cycle < dcycle else ()
    trace = []
    o = operator(stack(trace, en, bf, rev, halts), subset(dmask), dcycle)
    halt = o.interactAllBOC(cycle)
    assert trace == wanted("BOC", en, bf, rev, deferred, (cycle,)), "BOC: enabled, not deferred before the start cycle, ALL of them called (also after a halt request), cycle passed"
    called = [k for k in range(3) if en[k] and NAMES[k] not in deferred]
    assert bool(halt) == any([halts[k] for k in called]), "a halt request of any called interface is reported"


@lemma(gen={"mask": (0, 7)})
def end_of_life_runs_reverse_flagged_last_in_reverse_order(
        e0: bool, e1: bool, e2: bool, b0: bool, b1: bool, b2: bool, r0: bool, r1: bool, r2: bool, mask: int):
    mask = choose(mask, 0, 7)
    en, bf, rev = (e0, e1, e2), (b0, b1, b2), (r0, r1, r2)
    excluded = subset(mask)
    trace = []
    o = operator(stack(trace, en, bf, rev))
    o.interactAllEOL(excludedInterfaceNames=excluded)
    assert trace == wanted("EOL", en, bf, rev, excluded, ()), "EOL: plain ones in stack order, then reverse-flagged ones in reverse order"
    if e0 and e1 and e2 and r0 and r2 and not r1 and mask == 0:
        cover("first-also-last")
        assert [t[1] for t in trace] == ["b", "c", "a"]
