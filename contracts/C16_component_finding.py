"""C16 finding (refuted on the unchanged tree): a LINKED dimension that is re-assigned inside a retainState scope is not restored.

Component.restoreBackup collects the links that exist WHEN THE SCOPE ENDS (`_getLinkedDimsAndValues`), restores the pickled
parameter state - in which the linked field had been deleted before pickling, so it comes back as the placeholder class
`NoDefault` - and re-installs only the links it collected.  If the dimension was given a plain number inside the scope
(Component.setDimension does that), nothing is re-installed: afterwards the dimension is neither the entry link nor a
number but the class NoDefault.  C16: "arbitrary assignments to parameters of that object ... are undone when the scope ends".

Not picked up by ./check (directory contracts/pending).  Run:
  python3-vt -m pyvc.run contracts/pending/C16_component_finding.py
Native reproduction (PYTHONPATH=/repo /venv/bin/python):
  import armi; armi.configure(permissive=True)
  from armi.reactor.components.basicShapes import Circle
  fuel = Circle("fuel", "UZr", 25.0, 600.0, od=0.8, id=0.0, mult=1)
  clad = Circle("clad", "HT9", 25.0, 450.0, od=1.0, id="fuel.od", mult=1); clad.resolveLinkedDims({"fuel": fuel})
  with clad.retainState():
      clad.setDimension("id", 0.9, cold=True)
  print(repr(clad.p.id))     # observed: <class '...parameterDefinitions.NoDefault'>; expected: the link (<Circle: fuel>, 'od')
  print(clad.getDimension("id", cold=True))   # observed: the class NoDefault; expected 0.8

(The passing variant - link left alone inside the scope - is contracts/C16_component.py; text below is its set-up.)

C16 - a Component inside a retainState scope: dimensions, temperature and number densities come back, LINKED dimensions stay links.

Component.backUp / restoreBackup take the dimension links (tuples holding ANOTHER component) out of the parameter
collection before it is pickled and put them back afterwards.  Executed symbolically on a real `Circle` object:
Component.backUp / restoreBackup / _getLinkedDimsAndValues / _restoreLinkedDims, Composite.backUp / restoreBackup /
retainState, StateRetainer, ParameterCollection.backUp / restoreBackup / __getitem__ / __delitem__ / __setattr__ /
__getstate__ / __setstate__, Parameter.__init__ (REAL constructor) / setter / __get__ / __set__ / backUp / restoreBackup,
ParameterDefinitionCollection.__init__ / add / lock / __getitem__ / __iter__ (REAL).

Stand-ins / hypotheses: `PCC` is a harness subclass of the real ParameterCollection whose class attributes
(_allFields, _slots, one descriptor per parameter) are set to what applyParameters builds; `CircleProbe` subclasses
the real Circle only to state DIMENSION_NAMES, which the ComponentType metaclass derives from Circle.__init__'s
signature (natively the metaclass computes the same tuple).  Pickle of plain data is the engine model; a state that
still contained a link (an object) could not be pickled by the model -> the lemma would be undecided, not ok.
"""
from spec import *

ParameterCollection = repo("armi.reactor.parameters.parameterCollections:ParameterCollection")
Parameter = repo("armi.reactor.parameters.parameterDefinitions:Parameter")
PDC = repo("armi.reactor.parameters.parameterDefinitions:ParameterDefinitionCollection")
NoDefault = repo("armi.reactor.parameters.parameterDefinitions:NoDefault")
SINCE_ANYTHING = repo("armi.reactor.parameters.parameterDefinitions:SINCE_ANYTHING")
Circle = repo("armi.reactor.components.basicShapes:Circle")
DimensionLink = repo("armi.reactor.components.component:_DimensionLink")


class PCC(ParameterCollection):
    """the parameter collection class of the circle (set up by mk_class)"""


class CircleProbe(Circle):
    DIMENSION_NAMES = ("od", "id", "mult", "modArea")


NAMES = ("od", "id", "mult", "modArea", "temperatureInC", "numberDensities")


def mk_class():
    pdc = PDC()
    defs = []
    for nm in NAMES:
        pd = Parameter(nm, "cm", "a parameter of the circle", None, True, None, NoDefault, set())  # the REAL constructor
        pd.collectionType = PCC
        pdc.add(pd)
        setattr(PCC, nm, pd)  # the descriptor binding applyParameters makes
        defs.append(pd)
    pdc.lock()
    PCC.pDefs = pdc
    PCC._allFields = sorted(["_backup", "_hist", "assigned"] + [pd.fieldName for pd in defs])
    PCC._slots = set(PCC._allFields) | set(NAMES) | {"readOnly"}
    return defs


def mk_circle(name, a, od, idim, mult, T, n):
    pc = new(PCC, _backup=None, _hist={}, assigned=a, readOnly=False, _p_od=od, _p_id=idim, _p_mult=mult, _p_modArea=None,
             _p_temperatureInC=T, _p_numberDensities={"U235": n})
    return new(CircleProbe, name=name, parent=None, _children=[], cached={}, _backupCache=None, p=pc, spatialGrid=None, material=None)


@lemma(gen={"a0": (0, 63), "mult": (1, 300)})
def component_scope_restores_a_link_that_was_reassigned_inside(a0: int, fuelOd: float, cladOd: float, mult: int, T0: float, n0: float, newId: float, newOd: float, newT: float, newN: float,
                                                        relink: bool, keepT: bool):
    """clad.id is LINKED to fuel.od.  Inside a retainState scope on the clad: its od, temperature and number densities are
    re-assigned / updated, and its id link is either left alone or replaced by a plain number.  Afterwards: id is the
    very same link object (still resolving to the fuel), od / T / number densities are the entry values (T kept when
    asked), nothing is left behind."""
    defs = mk_class()
    fuel = mk_circle("fuel", 0, fuelOd, 0.0, mult, T0, n0)
    link = DimensionLink((fuel, "od"))
    clad = mk_circle("clad", a0, cladOd, link, mult, T0, n0)
    assert same(clad.p["id"], link), "reading the dimension hands out the link"
    with clad.retainState([defs[4]] if keepT else []):
        assert same(clad.p._p_id, link), "the link is in place inside the scope as well"
        clad.p.od = newOd
        clad.p.temperatureInC = newT
        clad.p._p_numberDensities["U235"] = newN
        clad.p.assigned = SINCE_ANYTHING
        if relink:
            clad.p.id = newId
    assert same(clad.p._p_id, link), "the linked dimension is the same link after the scope"
    assert same(clad.p["id"].getLinkedComponent(), fuel) and clad.p["id"][1] == "od"
    assert clad.p.od == cladOd, "own dimension as at entry"
    assert clad.p.temperatureInC == (newT if keepT else T0), "temperature as at entry unless kept"
    assert clad.p._p_numberDensities["U235"] == n0, "number densities as at entry"
    assert clad.p.mult == mult and clad.p._p_modArea is None
    assert clad.p._backup is None and clad._backupCache is None
    assert fuel.p.od == fuelOd and fuel.p.assigned == 0, "the component linked to is not part of the scope"
