"""C07 - a grid rebuilt from its stored constructor arguments (StructuredGrid.reduce, as the database does) gives the
same coordinates and metadata for EVERY index, for all pitches / offsets / bounds.

Real code executed: HexGrid.fromPitch, CartesianGrid.fromRectangle, AxialGrid.__init__, StructuredGrid.__init__ /
reduce / getCoordinates / getCellBase / getCellTop, the class constructors applied to the reduced arguments.
Shapes enumerated: axial / bounds grids with 1..3 cells; hex both orientations; Cartesian with and without offset.
"""
import numpy as np

from spec import *

HexGrid = repo("armi.reactor.grids.hexagonal:HexGrid")
CartesianGrid = repo("armi.reactor.grids.cartesian:CartesianGrid")
AxialGrid = repo("armi.reactor.grids.axial:AxialGrid")
ThetaRZGrid = repo("armi.reactor.grids.thetarz:ThetaRZGrid")


def same_grid(g, g2, idx):
    assert type(g2) is type(g)
    for fn in ("getCoordinates", "getCellBase", "getCellTop"):
        a, b = getattr(g2, fn)(idx), getattr(g, fn)(idx)
        assert eq(a[0], b[0]) and eq(a[1], b[1]) and eq(a[2], b[2]), "same cell centre / base / top for every index"
    assert g2._geomType == g._geomType and g2._symmetry == g._symmetry, "same metadata (geometry type and symmetry)"
    assert g2._unitStepLimits == g._unitStepLimits
    assert g2.isAxialOnly == g.isAxialOnly
    assert g2._stepDims == g._stepDims and g2._boundDims == g._boundDims


G = {"i": (-20, 20), "j": (-20, 20), "k": (-3, 3), "pitch": (0.1, 30.0)}


@lemma(gen=G)
def hex_grid_rebuilt_from_reduce(i: int, j: int, k: int, pitch: float, cornersUp: bool, moved: bool, ox: float, oy: float, p2: float):
    assume(pitch > 0 and p2 > 0)
    g = HexGrid.fromPitch(pitch, numRings=3, cornersUp=cornersUp)
    if moved:
        g._offset = np.array((ox, oy, 0.0))  # e.g. a grid placed off-centre
        g.changePitch(p2)  # transformations between construction and reduction must be kept
    g2 = HexGrid(*g.reduce())
    same_grid(g, g2, (i, j, k))
    assert eq(g2.pitch, g.pitch) and g2.cornersUp == g.cornersUp


@lemma(gen={"i": (-20, 20), "j": (-20, 20), "k": (-3, 3), "w": (0.1, 30.0), "h": (0.1, 30.0)})
def cartesian_grid_rebuilt_from_reduce(i: int, j: int, k: int, w: float, h: float, isOffset: bool):
    assume(w > 0 and h > 0)
    g = CartesianGrid.fromRectangle(w, h, numRings=3, isOffset=isOffset)
    g.geomType = "cartesian"
    g.symmetry = "quarter reflective"
    g2 = CartesianGrid(*g.reduce())
    same_grid(g, g2, (i, j, k))
    assert g2._isThroughCenter() == g._isThroughCenter()


@lemma(gen={"n": (1, 3), "k": (0, 2), "z0": (-5.0, 5.0), "d1": (0.1, 9.0), "d2": (0.1, 9.0), "d3": (0.1, 9.0)})
def axial_grid_rebuilt_from_reduce(n: int, k: int, z0: float, d1: float, d2: float, d3: float):
    assume(d1 > 0 and d2 > 0 and d3 > 0)
    n = choose(n, 1, 3)
    k = choose(k, 0, 2)
    assume(k < n)
    zb = [z0, z0 + d1, z0 + d1 + d2, z0 + d1 + d2 + d3][:n + 1]
    g = AxialGrid(bounds=(None, None, zb))
    g2 = AxialGrid(*g.reduce())
    same_grid(g, g2, (0, 0, k))


# ----------------------------------------------------------------------------- widened hypotheses (assumption review)
@lemma(gen=G)
def hex_grid_rebuilt_from_reduce_any_offset(i: int, j: int, k: int, pitch: float, cornersUp: bool, ox: float, oy: float, oz: float):
    """the lemma above moves the grid in the plane only (offset z = 0): here all three offset components are free,
    given to the constructor (as the database does) - including the all-zero offset, which reduce() stores as None"""
    assume(pitch > 0)  # (P) a pitch is a length
    us = HexGrid._getRawUnitSteps(pitch, cornersUp)
    g = HexGrid(unitSteps=us, unitStepLimits=((-1, 2), (-1, 2), (0, 1)), offset=(ox, oy, oz))
    g2 = HexGrid(*g.reduce())
    same_grid(g, g2, (i, j, k))
    c = g2.getCoordinates((i, j, k))
    assert eq(c[2], oz)
    assert eq(g2.pitch, g.pitch) and g2.cornersUp == g.cornersUp


@lemma(gen={"n": (1, 3), "k": (0, 2)})
def axial_grid_rebuilt_from_reduce_any_bounds_and_offset(n: int, k: int, b0: float, b1: float, b2: float, b3: float, ox: float, oy: float, oz: float):
    """axial_grid_rebuilt_from_reduce with ANY bounds (equal / decreasing neighbours included) and any grid offset"""
    n = choose(n, 1, 3)
    k = choose(k, 0, 2)
    assume(k < n)  # (P) a cell of the grid
    zb = [b0, b1, b2, b3][:n + 1]
    g = AxialGrid(bounds=(None, None, zb), offset=(ox, oy, oz))
    g2 = AxialGrid(*g.reduce())
    same_grid(g, g2, (0, 0, k))
    c = g2.getCoordinates((0, 0, k))
    assert eq(c[0], ox) and eq(c[1], oy) and eq(c[2], (zb[k] + zb[k + 1]) / 2.0 + oz)


@lemma(gen={"nt": (1, 2), "nr": (1, 2), "i": (0, 1), "j": (0, 1), "t0": (0.0, 2.0), "t1": (0.0, 2.0), "t2": (0.0, 2.0)})
def thetarz_grid_rebuilt_from_reduce(nt: int, nr: int, i: int, j: int, t0: float, t1: float, t2: float, r0: float, r1: float, r2: float, z0: float, z1: float):
    """the theta-R-Z bounds grid of the quantifier (built as gridBlueprint / meshConverters build it: three bounds axes)"""
    nt = choose(nt, 1, 2)
    nr = choose(nr, 1, 2)
    i = choose(i, 0, 1)
    j = choose(j, 0, 1)
    assume(i < nt and j < nr)  # (P) a cell of the grid
    tb = [t0, t1, t2][:nt + 1]
    rb = [r0, r1, r2][:nr + 1]
    # (P) ThetaRZGrid.getCoordinates refuses azimuths outside 0..2 pi ("angular meshes are limited to 0 to 2pi")
    assume(0 <= t0 and t0 <= 6 and 0 <= t1 and t1 <= 6 and 0 <= t2 and t2 <= 6)
    g = ThetaRZGrid(bounds=(tb, rb, (z0, z1)))
    g.geomType = "thetarz"
    g2 = ThetaRZGrid(*g.reduce())
    assert type(g2) is type(g)
    a, b = g2.getCoordinates((i, j, 0), nativeCoords=True), g.getCoordinates((i, j, 0), nativeCoords=True)
    assert eq(a[0], (tb[i] + tb[i + 1]) / 2.0) and eq(a[1], (rb[j] + rb[j + 1]) / 2.0) and eq(a[2], (z0 + z1) / 2.0)
    assert eq(a[0], b[0]) and eq(a[1], b[1]) and eq(a[2], b[2])
    for fn in ("getCellBase", "getCellTop"):
        a, b = getattr(g2, fn)((i, j, 0)), getattr(g, fn)((i, j, 0))
        assert eq(a[0], b[0]) and eq(a[1], b[1]) and eq(a[2], b[2])
    assert g2._geomType == g._geomType and g2._symmetry == g._symmetry
    assert g2._unitStepLimits == g._unitStepLimits and g2.isAxialOnly == g.isAxialOnly
    assert g2._stepDims == g._stepDims and g2._boundDims == g._boundDims
    assert g2.getRingPos((i, j, 0)) == g.getRingPos((i, j, 0))
