"""C07 - a grid rebuilt from its stored constructor arguments (StructuredGrid.reduce, as the database does) gives the
same coordinates and metadata for EVERY index, for all pitches / offsets / bounds.

Real code executed: HexGrid.fromPitch, CartesianGrid.fromRectangle, AxialGrid.__init__, StructuredGrid.__init__ /
reduce / getCoordinates / getCellBase / getCellTop, the class constructors applied to the reduced arguments.
Shapes enumerated: axial / bounds grids with 1..3 cells; hex both orientations; Cartesian with and without offset.
"""
import numpy as np

from spec import *

HexGrid = repo("armi.reactor.grids.hexagonal:HexGrid")
CartesianGrid = repo("armi.reactor.grids.cartesian:CartesianGrid")
AxialGrid = repo("armi.reactor.grids.axial:AxialGrid")
ThetaRZGrid = repo("armi.reactor.grids.thetarz:ThetaRZGrid")


def same_grid(g, g2, idx):
    assert type(g2) is type(g)
    for fn in ("getCoordinates", "getCellBase", "getCellTop"):
        a, b = getattr(g2, fn)(idx), getattr(g, fn)(idx)
        assert eq(a[0], b[0]) and eq(a[1], b[1]) and eq(a[2], b[2]), "same cell centre / base / top for every index"
    assert g2._geomType == g._geomType and g2._symmetry == g._symmetry, "same metadata (geometry type and symmetry)"
    assert g2._unitStepLimits == g._unitStepLimits
    assert g2.isAxialOnly == g.isAxialOnly
    assert g2._stepDims == g._stepDims and g2._boundDims == g._boundDims


G = {"i": (-20, 20), "j": (-20, 20), "k": (-3, 3), "pitch": (0.1, 30.0)}


@lemma(gen=G)
def hex_grid_rebuilt_from_reduce(i: int, j: int, k: int, pitch: float, cornersUp: bool, moved: bool, ox: float, oy: float, p2: float):
    assume(pitch > 0 and p2 > 0)
    g = HexGrid.fromPitch(pitch, numRings=3, cornersUp=cornersUp)
    if moved:
        g._offset = np.array((ox, oy, 0.0))  # e.g. a grid placed off-centre
        g.changePitch(p2)  # transformations between construction and reduction must be kept
    g2 = HexGrid(*g.reduce())
    same_grid(g, g2, (i, j, k))
    assert eq(g2.pitch, g.pitch) and g2.cornersUp == g.cornersUp


@lemma(gen={"i": (-20, 20), "j": (-20, 20), "k": (-3, 3), "w": (0.1, 30.0), "h": (0.1, 30.0)})
def cartesian_grid_rebuilt_from_reduce(i: int, j: int, k: int, w: float, h: float, isOffset: bool):
    assume(w > 0 and h > 0)
    g = CartesianGrid.fromRectangle(w, h, numRings=3, isOffset=isOffset)
    g.geomType = "cartesian"
    g.symmetry = "quarter reflective"
    g2 = CartesianGrid(*g.reduce())
    same_grid(g, g2, (i, j, k))
    assert g2._isThroughCenter() == g._isThroughCenter()


@lemma(gen={"n": (1, 3), "k": (0, 2), "z0": (-5.0, 5.0), "d1": (0.1, 9.0), "d2": (0.1, 9.0), "d3": (0.1, 9.0)})
def axial_grid_rebuilt_from_reduce(n: int, k: int, z0: float, d1: float, d2: float, d3: float):
    assume(d1 > 0 and d2 > 0 and d3 > 0)
    n = choose(n, 1, 3)
    k = choose(k, 0, 2)
    assume(k < n)
    zb = [z0, z0 + d1, z0 + d1 + d2, z0 + d1 + d2 + d3][:n + 1]
    g = AxialGrid(bounds=(None, None, zb))
    g2 = AxialGrid(*g.reduce())
    same_grid(g, g2, (0, 0, k))
