"""C16 finding (refuted on the unchanged tree).

Composite.backUp / restoreBackup guard the grid with `if self.spatialGrid:`.  A StructuredGrid has no __bool__ but a
__len__ (= number of location OBJECTS created so far), so a grid that holds no location object yet is falsy and is
skipped: its pitch / bounds / offset changed inside a retainState scope are NOT undone when the scope ends.
C16: "arbitrary assignments ... (including ... grid pitch or bounds) are undone when the scope ends".

Not picked up by ./check (directory contracts/pending).  Run:
  python3-vt -m pyvc.run contracts/pending/C16_grid_finding.py
Native reproduction (PYTHONPATH=/repo /venv/bin/python):
  import armi; armi.configure(permissive=True)
  from armi.reactor.composites import Composite
  from armi.reactor import grids
  c = Composite("c"); g = grids.HexGrid.fromPitch(1.0, numRings=0); g.armiObject = c; c.spatialGrid = g
  with c.retainState():
      g.changePitch(2.0)
  print(g.pitch)      # observed 2.0000000000000004, expected 1.0   (len(g) == 0, bool(g) is False)
The same call with numRings=1 (one location object) restores 1.0.  blocks.HexBlock.autoCreateSpatialGrids builds its
pin grid with numRings=0.
"""
import numpy as np

from spec import *

HexGrid = repo("armi.reactor.grids.hexagonal:HexGrid")
Composite = repo("armi.reactor.composites:Composite")


class PStub:
    """parameter collection stand-in: back-up / restore of the parameters is not the subject here"""

    paramDefs = ()

    def backUp(self):
        pass

    def restoreBackup(self, keep):
        pass


@lemma(gen={"p1": (0.1, 30.0), "p2": (0.1, 30.0)})
def retain_state_restores_the_pitch_of_a_grid_without_location_objects(p1: float, p2: float):
    assume(p1 > 0 and p2 > 0)
    us = HexGrid._getRawUnitSteps(p1, False)
    g = new(HexGrid, _unitSteps=np.array(us), _bounds=(None, None, None), _stepDims=((0, 1, 2),), _boundDims=((),),
            _offset=np.array((0.0, 0.0, 0.0)), _unitStepLimits=((-3, 3), (-3, 3), (0, 1)), _backup=None, _locations={}, armiObject=None)
    c = new(Composite, name="c", parent=None, _children=[], cached={}, _backupCache=None, p=new(PStub), spatialGrid=g)
    g.armiObject = c
    with c.retainState():
        g.changePitch(p2)
    assert eq(g.pitch, p1), "grid pitch as at entry"
