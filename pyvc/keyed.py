"""Dictionary keys with user-defined equality, and tuple keys with symbolic components.

Python finds a key in a dict by `stored is key or (hash(stored) == hash(key) and stored == key)`, trying the
stored keys of the probed slots.  For plain concrete keys (str, int, tuples of those, objects WITHOUT `__eq__`)
the engine keeps using the host dictionary.  This module adds the two remaining cases, exactly:

* an object whose class defines `__eq__` (e.g. armi's IndexLocation: equal indices and the same grid), and
* a tuple with symbolic (z3) components, e.g. the `(i, j, k)` key of StructuredGrid._locations.

`resolve_key` walks the stored keys in insertion order and decides `stored == key` for each: a concrete outcome is
followed, a symbolic one forks the path (both outcomes kept, the condition joins the path condition).  The first
stored key that is equal is the entry Python finds (at most one stored key can be equal to a given key when `==`
is an equivalence, which the dict itself relies on); if none is equal the key is new.

Trusted assumption (Python data model, logged as `dict-eq-hash`): `a == b` implies `hash(a) == hash(b)` for the
classes involved and `__eq__` has no side effect, so that skipping the hash pre-check does not change the result.
A class that defines `__eq__` without `__hash__` is unhashable: TypeError, as in Python.
"""
import z3

from .values import Ref, Exc, FuncVal, ClassVal, Opaque, Unsupported, is_z3


def _user_eq(I, st, k):
    """the user-defined __eq__ of an object key, or None"""
    if isinstance(k, Ref):
        e = st.get(k)
        if e.kind == "obj" and isinstance(e.cls, ClassVal):
            m, _ = I.class_lookup(e.cls, "__eq__")
            if isinstance(m, FuncVal):
                return m
    return None


def _has_symbolic(k):
    if is_z3(k):
        return True
    if isinstance(k, tuple):
        return any(_has_symbolic(x) for x in k)
    return False


def is_special(I, st, k):
    if isinstance(k, tuple):
        return _has_symbolic(k) or any(is_special(I, st, x) for x in k)
    return _user_eq(I, st, k) is not None


def _has_user_eq(I, st, k):
    if isinstance(k, tuple):
        return any(_has_user_eq(I, st, x) for x in k)
    return _user_eq(I, st, k) is not None


def user_eq_involved(I, st, items, k=None):
    """a key with a user-defined __eq__ takes part (as the probed key or as a stored key): this module decides the lookup"""
    if k is not None and _has_user_eq(I, st, k):
        return True
    return any(_has_user_eq(I, st, s) for s in items)


def needs_resolution(I, st, items, k):
    if is_z3(k):
        return False  # scalar symbolic keys keep their existing model (dict_symbolic_get)
    if is_special(I, st, k):
        return True
    return any(is_special(I, st, s) for s in items)


def _hashable_or_exc(I, st, k):
    """TypeError for an object whose class sets __hash__ to None by defining __eq__ alone."""
    from .ops import exc

    if isinstance(k, tuple):
        for x in k:
            r = _hashable_or_exc(I, st, x)
            if r is not None:
                return r
        return None
    if isinstance(k, Ref):
        e = st.get(k)
        if e.kind in ("list", "dict", "set", "deque", "symlist", "nd"):
            return exc("TypeError", "unhashable type")
        if e.kind == "obj" and isinstance(e.cls, ClassVal):
            for c in I.mro(e.cls):
                if not isinstance(c, ClassVal):
                    continue
                m = I.class_members(c)
                if "__hash__" in m:
                    if isinstance(m["__hash__"], FuncVal):
                        return None
                    return exc("TypeError", "unhashable type: '%s'" % e.cls.name)
                if "__eq__" in m:
                    return exc("TypeError", "unhashable type: '%s'" % e.cls.name)
    return None


def _keys_equal(I, st, stored, key):
    """yield (st, bool | z3 Bool | Exc) for `stored == key`"""
    if isinstance(stored, Ref) and isinstance(key, Ref) and stored.id == key.id:
        yield st, True
        return
    if isinstance(stored, tuple) and isinstance(key, tuple):
        if len(stored) != len(key):
            yield st, False
            return

        def rec(st1, i, acc):
            if i == len(stored):
                yield st1, I.models.conj(acc)
                return
            for st2, r in _keys_equal(I, st1, stored[i], key[i]):
                if isinstance(r, Exc):
                    yield st2, r
                elif r is False:
                    yield st2, False
                else:
                    yield from rec(st2, i + 1, acc + [r])

        yield from rec(st, 0, [])
        return
    if _user_eq(I, st, stored) is not None or _user_eq(I, st, key) is not None:
        for st1, r in I.models.compare(I, st, "Eq", stored, key):
            if isinstance(r, Opaque):
                raise Unsupported("dict key comparison returned %s" % r.desc)
            yield st1, r
        return
    if isinstance(stored, tuple) != isinstance(key, tuple):
        yield st, False
        return
    yield st, I.models.eq_values(I, st, stored, key)


def resolve_key(I, st, ref, k):
    """yield (st, key, found): key is the stored key of dict `ref` equal to k (found=True), or k itself when
    there is none (found=False); (st, Exc, False) when k is unhashable or a comparison raises.
    Callers must re-read the dict from the yielded state."""
    bad = _hashable_or_exc(I, st, k)
    if bad is not None:
        yield st, bad, False
        return
    I.trust("dict-eq-hash", "dict keys with user-defined __eq__ / symbolic tuple keys: lookup = first stored key with `is` or `==` "
            "(assumes a == b implies hash(a) == hash(b), side-effect free __eq__)")

    def walk(st1, pos):
        stored = list(st1.get(ref).items)
        while pos < len(stored):
            s = stored[pos]
            outs = list(_keys_equal(I, st1, s, k))
            if len(outs) == 1 and not isinstance(outs[0][1], Exc) and not is_z3(outs[0][1]):
                st1 = outs[0][0]
                if outs[0][1]:
                    yield st1, s, True
                    return
                pos += 1
                continue
            for st2, r in outs:
                if isinstance(r, Exc):
                    yield st2, r, False
                    continue
                for st3, b in I.branch(st2, r):
                    if b:
                        yield st3, s, True
                    else:
                        yield from walk(st3, pos + 1)
            return
        yield st1, k, False

    yield from walk(st, 0)
