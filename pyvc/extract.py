"""Locate modules / classes / functions in /repo's *current working tree* and hand out their ASTs.

Nothing is rewritten: the AST handed to the symbolic executor is ``ast.parse`` of the file on disk.
What the executor ignores (docstrings, annotations, runLog calls) is listed by ``dropped_for``.
"""
import ast
import hashlib
import os

REPO = os.environ.get("ARMI_REPO", "/repo")


class ModuleInfo:
    def __init__(self, name, path):
        self.name = name
        self.path = path
        with open(path, "r", encoding="utf-8") as f:
            self.source = f.read()
        self.tree = ast.parse(self.source, filename=path)
        self.lines = self.source.splitlines()
        self.defs = {}  # name -> ast node (FunctionDef / ClassDef / value expr of Assign)
        self.imports = {}  # local name -> (module name, attr or None)
        self.assigns = {}  # name -> ast expr (last top-level assignment)
        self.stars = []  # modules imported with `from m import *`
        self.mutations = {}  # name -> [top-level statements that mutate the global after its assignment]
        self.mutated_opaquely = set()  # globals mutated by module-level code the executor does not replay
        self.is_package = os.path.basename(path) == "__init__.py"
        self._scan(self.tree.body)

    def _scan(self, body):
        for node in body:
            if isinstance(node, (ast.FunctionDef, ast.ClassDef)):
                self.defs[node.name] = node
            elif isinstance(node, ast.Assign):
                self._scan_mutation(node)
                for t in node.targets:
                    if isinstance(t, ast.Name):
                        self.assigns[t.id] = node.value
                        self.mutations.pop(t.id, None)
                    elif isinstance(t, ast.Tuple) and isinstance(node.value, ast.Tuple) and len(t.elts) == len(node.value.elts):
                        for tt, vv in zip(t.elts, node.value.elts):
                            if isinstance(tt, ast.Name):
                                self.assigns[tt.id] = vv
            elif isinstance(node, ast.AnnAssign) and isinstance(node.target, ast.Name) and node.value is not None:
                self.assigns[node.target.id] = node.value
            elif isinstance(node, ast.Import):
                for a in node.names:
                    if a.asname:
                        self.imports[a.asname] = (a.name, None)
                    else:
                        top = a.name.split(".")[0]
                        self.imports[top] = (top, None)
            elif isinstance(node, ast.ImportFrom):
                mod = node.module or ""
                if node.level:
                    base = self.name.split(".")
                    if not self.is_package:
                        base = base[:-1]
                    base = base[: len(base) - (node.level - 1)]
                    mod = ".".join(base + ([mod] if mod else []))
                for a in node.names:
                    if a.name == "*":
                        self.stars.append(mod)
                    else:
                        self.imports[a.asname or a.name] = (mod, a.name)
            elif isinstance(node, ast.If) and isinstance(node.test, ast.Name) and node.test.id == "NATIVE":
                # harness files: `if NATIVE: ... else: ...` - NATIVE is False on the symbolic side, so the else branch is the
                # one that defines the module's names (taking the body would silently make symbolic constants concrete)
                self._scan(node.orelse)
            elif isinstance(node, ast.Try) and self._import_fails(node):
                # try: from mpi4py import MPI; NAME = ... / except ImportError: ...  - the interpreter that runs armi here
                # (/venv, the native side of every lemma) has no mpi4py: the import raises, the REST of the try body never
                # runs and the handler does.  Taking the body's assignments would give names values they never get.
                for h in node.handlers:
                    self._scan(h.body)
            elif isinstance(node, (ast.If, ast.Try)):
                # e.g. try: import x / except ImportError
                self._scan(node.body)
            else:
                self._scan_mutation(node)

    ABSENT_MODULES = ("mpi4py",)  # optional dependencies that are not installed where armi runs (serial runs only)

    @classmethod
    def _import_fails(cls, node):
        first = node.body[0] if node.body else None
        mods = []
        if isinstance(first, ast.Import):
            mods = [a.name for a in first.names]
        elif isinstance(first, ast.ImportFrom) and not first.level:
            mods = [first.module or ""]
        if not any(m.split(".")[0] in cls.ABSENT_MODULES for m in mods):
            return False
        for h in node.handlers:
            names = [h.type] if not isinstance(h.type, ast.Tuple) else list(h.type.elts)
            if h.type is None or any(getattr(n, "id", None) in ("ImportError", "ModuleNotFoundError", "Exception") for n in names):
                return True
        return False

    @staticmethod
    def _mutated_name(node):
        """NAME.method(...), NAME[...] = v, NAME.attr = v, NAME += v, del NAME[...] at module level -> NAME"""
        def base(t):
            while isinstance(t, (ast.Subscript, ast.Attribute)):
                t = t.value
            return t.id if isinstance(t, ast.Name) else None

        if isinstance(node, ast.Expr) and isinstance(node.value, ast.Call) and isinstance(node.value.func, ast.Attribute):
            return [base(node.value.func.value)]
        if isinstance(node, ast.Assign):
            return [base(t) for t in node.targets if isinstance(t, (ast.Subscript, ast.Attribute))]
        if isinstance(node, ast.AugAssign):
            return [base(node.target)]
        if isinstance(node, ast.Delete):
            return [base(t) for t in node.targets if isinstance(t, (ast.Subscript, ast.Attribute))]
        return []

    def _scan_mutation(self, node):
        simple = (isinstance(node, ast.Expr) and isinstance(node.value, ast.Call) and isinstance(node.value.func, ast.Attribute)
                  and isinstance(node.value.func.value, ast.Name)) or (
            isinstance(node, ast.Assign) and len(node.targets) == 1 and isinstance(node.targets[0], ast.Subscript)
            and isinstance(node.targets[0].value, ast.Name))
        if simple:
            for nm in self._mutated_name(node):
                if nm in self.assigns:
                    self.mutations.setdefault(nm, []).append(node)
            return
        for sub in ast.walk(node):
            if isinstance(sub, (ast.FunctionDef, ast.ClassDef, ast.Lambda)):
                continue
            for nm in self._mutated_name(sub):
                if nm in self.assigns:
                    self.mutated_opaquely.add(nm)


_cache = {}


def module_path(modname):
    rel = modname.replace(".", "/")
    p = os.path.join(REPO, rel + ".py")
    if os.path.isfile(p):
        return p
    p = os.path.join(REPO, rel, "__init__.py")
    if os.path.isfile(p):
        return p
    return None


def load_module(modname):
    if modname in _cache:
        return _cache[modname]
    p = module_path(modname)
    if p is None:
        _cache[modname] = None
        return None
    mi = ModuleInfo(modname, p)
    _cache[modname] = mi
    return mi


def clear_cache():
    _cache.clear()


def func_source(mi, node):
    seg = "\n".join(mi.lines[node.lineno - 1 : node.end_lineno])
    return seg


def func_hash(mi, node):
    return hashlib.sha256(func_source(mi, node).encode()).hexdigest()[:16]


def find_qualified(spec):
    """spec = 'pkg.mod:Class.method' or 'pkg.mod:func' or 'pkg.mod' -> (ModuleInfo, [nodes along the path])"""
    if ":" in spec:
        modname, qual = spec.split(":", 1)
    else:
        modname, qual = spec, ""
    mi = load_module(modname)
    if mi is None:
        raise KeyError("module not found in repo: %s" % modname)
    nodes = []
    if qual:
        scope = mi.defs
        for part in qual.split("."):
            if part not in scope:
                raise KeyError("unbound name %s in %s" % (part, spec))
            n = scope[part]
            nodes.append(n)
            if isinstance(n, ast.ClassDef):
                scope = {c.name: c for c in n.body if isinstance(c, (ast.FunctionDef, ast.ClassDef))}
            else:
                scope = {}
    return mi, nodes
