"""Specification vocabulary available inside harness (lemma) functions - symbolic side.

The native counterparts live in /verif/contracts/spec.py (imported by the harness files when they are
run on the real armi for cross-check and counterexample replay).
"""
import ast
from fractions import Fraction

import z3

from . import extract
from .values import (
    Ref, ListE, DictE, ObjE, SymListE, FuncVal, BoundMethod, ClassVal, BuiltinClass, ModuleVal, Builtin, ExcVal, Exc,
    Opaque, Unsupported, EngineError, is_z3, z3val, as_arith, coerce_pair, is_boollike,
)
from .heap import HObj, obj_sort, heap_none, field_array


def install(I, B):
    def reg(name, fn):
        def f(I, st, a, k):
            yield st, fn(I, st, *a, **k)

        B[name] = Builtin("spec." + name, f)

    def repo(I, st, spec):
        mi, nodes = extract.find_qualified(spec)
        if not nodes:
            return ModuleVal(info=mi)
        if len(nodes) == 1 and not isinstance(nodes[0], (ast.ClassDef, ast.FunctionDef)):
            return I.resolve_global(mi, spec.split(":")[1])
        cur = None
        for n in nodes:
            if isinstance(n, ast.ClassDef):
                cur = I.class_val(n, mi)
            else:
                if cur is not None:
                    m, _ = I.class_lookup(cur, n.name)
                    return m
                return FuncVal(n, mi)
        return cur

    def repo_any(I, st, spec):
        if ":" in spec:
            modname, q = spec.split(":", 1)
            mi = extract.load_module(modname)
            if mi is None:
                raise Unsupported("UNBOUND contract target %s" % spec)
            parts = q.split(".")
            try:
                v = I.resolve_global(mi, parts[0])
            except KeyError:
                raise Unsupported("UNBOUND contract target %s" % spec)
            for p in parts[1:]:
                if isinstance(v, ClassVal):
                    m, _ = I.class_lookup(v, p)
                    if m is None:
                        raise Unsupported("UNBOUND contract target %s" % spec)
                    v = m
                else:
                    raise Unsupported("UNBOUND contract target %s" % spec)
            return I.thaw(v, st)
        mi = extract.load_module(spec)
        if mi is None:
            raise Unsupported("UNBOUND module %s" % spec)
        return ModuleVal(info=mi)

    reg("repo", repo_any)

    def assume(I, st, c):
        t = I.truth(c, st)
        st.pc.append(z3val(t))
        return None

    reg("assume", assume)

    def implies(I, st, a, b):
        ta, tb = I.truth(a, st), I.truth(b, st)
        if not is_z3(ta):
            return tb if ta else True
        return z3.Implies(ta, z3val(tb))

    reg("implies", implies)

    def iff(I, st, a, b):
        ta, tb = I.truth(a, st), I.truth(b, st)
        return z3val(ta) == z3val(tb)

    reg("iff", iff)

    def eq(I, st, a, b, tol=None):
        from . import models

        return models.eq_values(I, st, a, b)

    reg("eq", eq)

    def new(I, st, cls, **attrs):
        if not isinstance(cls, ClassVal):
            raise Unsupported("new() of non-repo class")
        if I.is_subclass(cls, BuiltinClass("list", list)) and "__list__" not in attrs:
            # cls.__new__(cls) of a list subclass is an empty list
            attrs = dict(attrs)
            attrs["__list__"] = st.alloc(ListE([]))
        if I.is_subclass(cls, BuiltinClass("dict", dict)) and "__dictdata__" not in attrs:
            # cls.__new__(cls) of a dict subclass is an empty dict
            attrs = dict(attrs)
            attrs["__dictdata__"] = st.alloc(DictE({}))
        return st.alloc(ObjE(cls, attrs))

    reg("new", new)

    def sym_list(I, st, kind="real", name="L", mono=False, maxlen=6):
        sort = {"int": z3.IntSort(), "real": z3.RealSort(), "bool": z3.BoolSort()}[kind]
        n = I.fresh("int", name + "_len")
        arr = I.fresh(z3.ArraySort(z3.IntSort(), sort), name)
        st.pc.append(n >= 0)
        I.sym_inputs.append((name, ("list", n, arr)))
        return st.alloc(SymListE(n, arr))

    reg("sym_list", sym_list)

    def sym_int(I, st, name="n"):
        v = I.fresh("int", name)
        I.sym_inputs.append((name, v))
        return v

    def sym_real(I, st, name="x"):
        v = I.fresh("real", name)
        I.sym_inputs.append((name, v))
        return v

    def sym_bool(I, st, name="b"):
        v = I.fresh("bool", name)
        I.sym_inputs.append((name, v))
        return v

    reg("sym_int", sym_int)
    reg("sym_real", sym_real)
    reg("sym_bool", sym_bool)

    def quant(which):
        def f(I, st, a, k):
            fn = a[0]
            if not isinstance(fn, FuncVal):
                raise Unsupported("forall/exists needs a lambda")
            names = [x.arg for x in fn.node.args.args]
            sorts = list(a[1:]) + ["int"] * (len(names) - len(a[1:]))
            vs, args = [], []
            for n, s in zip(names, sorts):
                if isinstance(s, ClassVal) or s == "obj":
                    v = I.fresh(obj_sort(), "q_" + n)
                    vs.append(v)
                    args.append(HObj(v, s if isinstance(s, ClassVal) else None))
                else:
                    v = I.fresh(s if isinstance(s, str) else "int", "q_" + n)
                    vs.append(v)
                    args.append(v)
            trial = st.fork()
            I.spec_mode += 1
            try:
                outs = list(I.call(fn, args, {}, trial))
            finally:
                I.spec_mode -= 1
            if any(isinstance(v, Exc) for _, v in outs) or not outs:
                raise Unsupported("quantifier body raises: %s" % [(getattr(v, "exc", None) and (v.exc.name, v.exc.args)) or "ok" for _, v in outs])
            n0 = len(st.pc)
            if len(outs) == 1:
                s1, body = outs[0]
                extra = s1.pc[n0:]
                t = z3val(I.truth(body, s1))
                if extra:
                    # side conditions produced while evaluating the body (e.g. sqrt facts) are premises
                    t = z3.Implies(z3.And(*extra), t) if which == "forall" else z3.And(*(extra + [t]))
            else:
                # the body split into cases: the cases partition, so body = OR_k (case_k and value_k)
                parts = []
                for s1, body in outs:
                    delta = s1.pc[n0:]
                    parts.append(z3.And(*(delta + [z3val(I.truth(body, s1))])) if delta else z3val(I.truth(body, s1)))
                t = z3.Or(*parts)
            yield st, (z3.ForAll(vs, t) if which == "forall" else z3.Exists(vs, t))

        return f

    B["forall"] = Builtin("spec.forall", quant("forall"))
    B["exists"] = Builtin("spec.exists", quant("exists"))

    def entry(I, st, name):
        for fr in reversed(st.frames):
            e = fr.entry
            if e is not None and name in e and not fr.is_harness:
                return e[name]
        raise Unsupported("entry(%s): no such parameter" % name)

    reg("entry", entry)

    def psum(I, st, seq, k):
        """Sum of the first k elements of a symbolic list (recursive definition as a quantified axiom)."""
        e = st.get(seq)
        if e.kind != "symlist":
            raise Unsupported("psum over a concrete list: use sum()")
        key = ("psum", e.arr.get_id())
        rng = e.arr.sort().range()
        f = I.func("psum_%d" % e.arr.get_id(), z3.IntSort(), rng)
        j = z3.Int("j!ps")
        zero = z3.IntVal(0) if rng == z3.IntSort() else z3.RealVal(0)
        ax = z3.And(f(0) == zero, z3.ForAll([j], z3.Implies(j >= 0, f(j + 1) == f(j) + z3.Select(e.arr, j)), patterns=[f(j + 1)]))
        if key not in st.ghost:
            st.ghost[key] = True
            st.pc.append(ax)
        kk = z3val(as_arith(k))
        # instantiate at k and k-1 to help the solver
        st.pc.append(z3.Implies(kk >= 1, f(kk) == f(kk - 1) + z3.Select(e.arr, kk - 1)))
        I.trust("psum", "psum(L,k) is defined by psum(L,0)=0, psum(L,j+1)=psum(L,j)+L[j]")
        return f(kk)

    reg("psum", psum)

    def psum_monotone(I, st, seq, strict=False):
        """Adds  forall i<=j (within bounds): psum(i) <= psum(j)  (strict: i<j -> <).
        Justification: induction on j over the one-step fact psum(j+1) = psum(j) + L[j] with L[j] >= 0 (> 0),
        which is the defining axiom; the hypothesis forall k. L[k] >= 0 (>= 1) must already be on the path."""
        e = st.get(seq)
        psum(I, st, seq, 0)
        f = I.uf["psum_%d" % e.arr.get_id()]
        i, j = z3.Int("i!pm"), z3.Int("j!pm")
        k = z3.Int("k!pm")
        elems_ok = z3.ForAll([k], z3.Implies(z3.And(k >= 0, k < e.length), z3.Select(e.arr, k) >= (1 if strict else 0)))
        # the element hypothesis is checked, not assumed
        I.oblige(st, elems_ok, "psum_monotone.hypothesis", "lemma-hypothesis")
        body = z3.Implies(z3.And(0 <= i, i <= j, j <= e.length), f(i) <= f(j))
        st.pc.append(z3.ForAll([i, j], body, patterns=[z3.MultiPattern(f(i), f(j))]))
        if strict:
            st.pc.append(z3.ForAll([i, j], z3.Implies(z3.And(0 <= i, i < j, j <= e.length), f(i) < f(j)), patterns=[z3.MultiPattern(f(i), f(j))]))
        I.trust("psum-monotone", "psum is monotone for non-negative lists: induction schema over the defining step axiom (hypothesis on the elements discharged as an obligation)")
        return None

    reg("psum_monotone", psum_monotone)

    def uf(I, st, name, *args):
        """uninterpreted real-valued function of real arguments (an arbitrary correlation)"""
        zs = []
        for a in args:
            z = z3val(as_arith(a))
            zs.append(z3.ToReal(z) if z3.is_int(z) else z)
        f = I.func("uf_" + name, *([z3.RealSort()] * (len(zs) + 1)))
        return f(*zs)

    reg("uf", uf)

    def memstream(I, st):
        import ast as _ast
        from . import bytesmodel

        cv = I._memstream_cls if hasattr(I, "_memstream_cls") else None
        if cv is None:
            cv = ClassVal(_ast.ClassDef(name="MemStream", bases=[], keywords=[], body=[], decorator_list=[]), None)
            cv._members = {}
            I._memstream_cls = cv
        return st.alloc(ObjE(cv, {"__memstream__": bytesmodel.MemStream()}))

    reg("memstream", memstream)

    def blob(I, st, n):
        from . import bytesmodel

        return bytesmodel.BytesVal([bytesmodel.Part("raw", Opaque("blob"), n)])

    reg("blob", blob)

    def choose(I, st, a, k):
        """case split on a bounded integer: forks one path per value in [lo, hi] and returns it as a concrete int"""
        x, lo, hi = a
        if not is_z3(x):
            yield st, x
            return
        for v in range(lo, hi + 1):
            if I.feasible(st, x == v):
                s2 = st.fork()
                s2.pc.append(x == v)
                yield s2, v

    B["choose"] = Builtin("spec.choose", choose)

    def ufb(I, st, name, *args):
        """uninterpreted predicate over reals (an abstract set / property)"""
        zs = []
        for a in args:
            z = z3val(as_arith(a))
            zs.append(z3.ToReal(z) if z3.is_int(z) else z)
        f = I.func("ufb_" + name, *([z3.RealSort()] * len(zs) + [z3.BoolSort()]))
        return f(*zs)

    reg("ufb", ufb)

    def to_real(I, st, x):
        x = as_arith(x)
        if is_z3(x) and z3.is_int(x):
            return z3.ToReal(x)
        if isinstance(x, int):
            return Fraction(x)
        return x

    reg("to_real", to_real)

    def cover(I, st, label="cover"):
        I.covers.setdefault(label, []).append(list(st.pc))
        return None

    reg("cover", cover)

    def is_none(I, st, x):
        from . import models

        return models.identical(I, st, x, None)

    reg("is_none", is_none)

    # abstract heap --------------------------------------------------------------------
    def declare_field(I, st, name, kind, cls=None):
        I.heap_decls[name] = (kind, cls)
        field_array(I, st, name)
        I._decl_heap = dict(st.heap)
        return None

    reg("declare_field", declare_field)

    def heap_obj(I, st, cls=None, name="o", maybe_none=False):
        t = I.fresh(obj_sort(), name)
        if not maybe_none:
            st.pc.append(t != heap_none(I))
        I.sym_inputs.append((name, t))
        return HObj(t, cls)

    reg("heap_obj", heap_obj)

    def field_of(I, st, name, o):
        """spec-level read of a declared field without None checks"""
        from .heap import heap_getattr

        return heap_getattr(I, st, o, name)

    reg("field_of", field_of)

    def seq_len(I, st, s):
        return s.length(I, st)

    def seq_at(I, st, s, k):
        return s.at(I, st, z3val(as_arith(k)))

    reg("seq_len", seq_len)
    reg("seq_at", seq_at)

    def same(I, st, a, b):
        from . import models

        return models.identical(I, st, a, b)

    reg("same", same)

    def snapshot(I, st):
        """Freeze the abstract heap (for old-state comparison in heap lemmas)."""
        for n in I.heap_decls:
            field_array(I, st, n)
        return HeapSnap(dict(st.heap))

    reg("snapshot", snapshot)

    def in_snapshot(I, st, snap, fn):
        """Evaluate lambda fn() against an earlier heap."""
        cur = st.heap
        st.heap = dict(snap.heap)
        try:
            outs = list(I.call(fn, [], {}, st))
        finally:
            pass
        if len(outs) != 1 or isinstance(outs[0][1], Exc):
            st.heap = cur
            raise Unsupported("in_snapshot body forks or raises")
        s1, v = outs[0]
        s1.heap = cur
        return v

    reg("in_snapshot", in_snapshot)


class HeapSnap:
    def __init__(self, heap):
        self.heap = heap
