"""Arithmetic, comparison and numeric builtin models (trusted base A1-A3)."""
from fractions import Fraction
import math

import z3

from .values import *  # noqa
from .values import (
    Ref, ExcVal, Exc, BuiltinClass, Unsupported, is_z3, z3val, coerce_pair, as_arith,
    is_intlike, is_reallike, is_boollike, Opaque,
)


def exc(name, *args):
    import builtins

    return Exc(ExcVal(BuiltinClass(name, getattr(builtins, name)), args))


def is_number(v):
    return (isinstance(v, (int, Fraction)) and True) or (is_z3(v) and (z3.is_int(v) or z3.is_real(v) or z3.is_bool(v)))


def py_floordiv(a, b):
    if isinstance(a, Fraction) or isinstance(b, Fraction):
        return Fraction(math.floor(Fraction(a) / Fraction(b)))
    return a // b


def z_floordiv(a, b):
    """Python floor division on z3 Int terms (b != 0 assumed by caller)."""
    return z3.If(b > 0, a / b, (-a) / (-b))


def z_floor(x):
    return z3.ToInt(x)


def z_ceil(x):
    return -z3.ToInt(-x)


def z_trunc(x):
    return z3.If(x >= 0, z3.ToInt(x), -z3.ToInt(-x))


def z_abs(x):
    return z3.If(x >= 0, x, -x)


def z_round_half_even(x):
    f = z3.ToInt(x + z3.RealVal(Fraction(1, 2)))
    tie = z3.ToReal(f) == x + z3.RealVal(Fraction(1, 2))
    return z3.If(z3.And(tie, f % 2 != 0), f - 1, f)


def neg(I, st, v):
    from .values import Inf as _Inf

    if isinstance(v, _Inf):
        return _Inf(-v.sign)  # -float("inf") is float("-inf")
    v = as_arith(v)
    if is_z3(v):
        return -v
    if isinstance(v, (int, Fraction)):
        return -v
    if isinstance(v, Ref) and st.get(v).kind == "nd":
        from . import npmodel

        if npmodel.dtype_of(st.get(v)) not in ("i", "f"):
            # numpy: `-boolarr` raises TypeError (the boolean negative is not supported); other kinds are not modelled
            raise Unsupported("unary minus on an array that is not int64 / float64")
        return npmodel.nd_map(I, st, v, lambda x: neg(I, st, x))
    raise Unsupported("unary minus on %r" % (v,))


def _sqrt_power(I, st, a):
    """a ** 0.5: the square root for a >= 0; a NEGATIVE base gives a complex number in CPython (no exception, unlike
    math.sqrt): outside the model"""
    for st1, r in sqrt(I, st, a):
        if isinstance(r, Exc):
            raise Unsupported("negative base to the power 0.5 (complex result)")
        yield st1, r


def power(I, st, a, b):
    """a ** b, yields."""
    a, b = as_arith(a), as_arith(b)
    if not is_z3(a) and not is_z3(b):
        if isinstance(b, Fraction) and b.denominator != 1:
            if b == Fraction(1, 2):
                yield from _sqrt_power(I, st, a)
                return
            yield from rational_power(I, st, a, b)
            return
        bb = int(b)
        try:
            r = Fraction(a) ** bb if (isinstance(a, Fraction) or bb < 0 or isinstance(b, Fraction)) else a**bb
        except ZeroDivisionError:
            yield st, exc("ZeroDivisionError")
            return
        yield st, r
        return
    if is_z3(b):
        if not is_z3(a) and isinstance(a, (int, Fraction)) and not isinstance(a, bool) and a > 1 and (z3.is_real(b) or isinstance(a, Fraction)):
            yield from const_base_power(I, st, a, b)
            return
        raise Unsupported("symbolic exponent")
    if isinstance(b, Fraction) and b.denominator != 1:
        if b == Fraction(1, 2):
            yield from _sqrt_power(I, st, a)
            return
        yield from rational_power(I, st, a, b)
        return
    n = int(b)
    isfloat = isinstance(b, Fraction) or is_reallike(a) or n < 0
    base = z3val(a)
    if isfloat and z3.is_int(base):
        base = z3.ToReal(base)
    if n == 0:
        yield st, (Fraction(1) if isfloat else 1)
        return
    r = base
    for _ in range(abs(n) - 1):
        r = r * base
    if n < 0:
        for st1, nz in I.branch(st, base != 0):
            if nz:
                yield st1, 1 / r
            else:
                yield st1, exc("ZeroDivisionError")
        return
    yield st, r


def _definitely_infeasible(I, st, ms=5000):
    """second look at a branch the 400 ms feasibility pruning kept (it keeps a branch on `unknown`): True only when the
    quantifier-free path condition is UNSAT within a longer budget - used before giving up with Unsupported"""
    qf = [t for t in st.pc if not I._has_quant(t)]
    r, _ = I.check(qf, timeout_ms=ms)
    return r == "unsat"


def rational_power(I, st, a, b):
    """a ** (p/q) for a concrete non-integer rational exponent p/q (q > 1, lowest terms) over the reals (A1):
    a > 0: (root_q a) ** p where root_q a is THE positive real y with y**q == a (uninterpreted function + its defining
    facts, like sqrt); a == 0: 0.0 for p > 0, ZeroDivisionError for p < 0 (as CPython); a < 0: CPython returns a
    complex number - outside the model (Unsupported when that branch is feasible)."""
    p, q = b.numerator, b.denominator
    zx = z3val(as_arith(a))
    if z3.is_int(zx):
        zx = z3.ToReal(zx)
    I.trust("root", "A1: x ** (p/q) for x > 0 is y**p with y the positive real q-th root of x (y > 0, y**q = x)")
    for st1, neg_ in I.branch(st, zx < 0):
        if neg_:
            if _definitely_infeasible(I, st1):
                continue
            raise Unsupported("negative base ** fractional exponent (complex result)")
        for st2, zero in I.branch(st1, zx == 0):
            if zero:
                yield st2, (Fraction(0) if p > 0 else exc("ZeroDivisionError", "0.0 cannot be raised to a negative power"))
                continue
            f = I.func("root%d" % q, z3.RealSort(), z3.RealSort())
            y = f(zx)
            yq = y
            for _ in range(q - 1):
                yq = yq * y
            st2.pc.append(y > 0)
            st2.pc.append(yq == zx)
            r = y
            for _ in range(abs(p) - 1):
                r = r * y
            yield st2, (r if p > 0 else 1 / r)


LN_DBL_MAX_LO = Fraction(70978, 100)  # ln(DBL_MAX) = 709.7827...: below 709.78 e**x is a finite float, above 709.79 it is not
LN_DBL_MAX_HI = Fraction(70979, 100)


def _positive_real_function(I, st, fname, zx, lo, hi, what):
    """shared by exp and const_base_power: fork OverflowError where CPython certainly overflows (x >= hi), refuse the
    thin band lo < x < hi (Unsupported when feasible), else the under-specified uninterpreted positive function"""
    for st1, over in I.branch(st, zx >= z3val(hi)):
        if over:
            yield st1, exc("OverflowError", "(34, 'Numerical result out of range')")
            continue
        for st2, band in I.branch(st1, zx > z3val(lo)):
            if band:
                if _definitely_infeasible(I, st2):
                    continue
                raise Unsupported(what + " within rounding distance of the float overflow threshold")
            f = I.func(fname, z3.RealSort(), z3.RealSort())
            y = f(zx)
            st2.pc.append(y > 0)
            st2.pc.append((y <= 1) == (zx <= 0))
            st2.pc.append((y == 1) == (zx == 0))
            yield st2, y


def const_base_power(I, st, a, x):
    """a ** x for a CONCRETE real base a > 1 and a symbolic real exponent x (float result), UNDER-SPECIFIED like exp: an
    uninterpreted function per base with the facts a**x > 0, (a**x <= 1) == (x <= 0), (a**x == 1) == (x == 0) - all true
    of the real power, so whatever is proved holds for it.  CPython raises OverflowError when the result exceeds the
    float range (x ln a > ln DBL_MAX = 709.78..): forked as that exception (thresholds rounded outwards, the band in
    between is Unsupported)."""
    zx = z3val(as_arith(x))
    if z3.is_int(zx):
        zx = z3.ToReal(zx)
    lna = math.log(float(a))
    lo = Fraction(int(float(LN_DBL_MAX_LO) / lna * 1000 - 1), 1000)
    hi = Fraction(int(float(LN_DBL_MAX_HI) / lna * 1000 + 2), 1000)
    I.trust("cpow", "A1: c ** x (concrete c > 1) is an uninterpreted positive real function of x with c**x <= 1 iff x <= 0 (sound facts only)")
    fa = Fraction(a)
    yield from _positive_real_function(I, st, "pow_%d_%d" % (fa.numerator, fa.denominator), zx, lo, hi, "constant ** symbolic exponent")


def exp(I, st, x):
    """math.exp(x) over the reals (A1) as an UNDER-SPECIFIED uninterpreted function: only facts true of the real
    exponential are given (e(x) > 0, e(x) >= 1 + x, e(x) <= 1 iff x <= 0, e(x) = 1 iff x = 0), so whatever is proved
    holds for the real exp.  CPython raises OverflowError above ln DBL_MAX = 709.78..: forked as that exception."""
    x = as_arith(x)
    if not is_z3(x) and x == 0:
        yield st, Fraction(1)
        return
    zx = z3val(x)
    if z3.is_int(zx):
        zx = z3.ToReal(zx)
    I.trust("exp", "A1: math.exp is an uninterpreted real function with exp(x) > 0, exp(x) >= 1 + x, exp(x) <= 1 iff x <= 0 (sound facts only)")
    for st1, y in _positive_real_function(I, st, "exp", zx, LN_DBL_MAX_LO, LN_DBL_MAX_HI, "math.exp"):
        if not isinstance(y, Exc):
            st1.pc.append(y >= 1 + zx)
        yield st1, y


def sqrt(I, st, x):
    x = as_arith(x)
    if not is_z3(x):
        if x < 0:
            yield st, exc("ValueError", "math domain error")
            return
        fx = Fraction(x)
        # exact rational roots stay concrete
        for num_r in [math.isqrt(fx.numerator)]:
            den_r = math.isqrt(fx.denominator)
            if num_r * num_r == fx.numerator and den_r * den_r == fx.denominator:
                yield st, Fraction(num_r, den_r)
                return
    zx = z3val(x)
    if z3.is_int(zx):
        zx = z3.ToReal(zx)
    f = I.func("sqrt", z3.RealSort(), z3.RealSort())
    y = f(zx)
    I.trust("sqrt", "A1: math.sqrt(x) is the non-negative real y with y*y = x")
    for st1, ok in I.branch(st, zx >= 0):
        if ok:
            st1.pc.append(y >= 0)
            st1.pc.append(y * y == zx)
            yield st1, y
        else:
            yield st1, exc("ValueError", "math domain error")


# ---------------------------------------------------------------------------- rational multiples of pi
def _pi_free(v, seen=None):
    """True when the z3 term v does not mention the constant `pi` (math.pi)."""
    if seen is None:
        seen = {}
    i = v.get_id()
    if i in seen:
        return seen[i]
    if z3.is_const(v):
        r = not (v.decl().kind() == z3.Z3_OP_UNINTERPRETED and v.decl().name() == "pi")
    elif z3.is_app(v):
        r = all(_pi_free(c, seen) for c in v.children())
    else:
        r = False  # quantifiers / variables: do not look inside
    seen[i] = r
    return r


def pi_coeff(v):
    """q with v == q * pi IDENTICALLY (structural decomposition, no solver), or None.

    v: Fraction / int / z3 arithmetic term.  q: Fraction when the coefficient is a constant, else a pi-free z3 Real term.
    Only sums, products with pi-free factors, quotients by pi-free terms, negation and ToReal-free leaves are followed,
    so the identity holds for every value of pi (it is used with pi > 0 only where stated)."""
    if isinstance(v, (int, Fraction)) and not isinstance(v, bool):
        return Fraction(0) if v == 0 else None
    if not (is_z3(v) and z3.is_real(v)):
        return None

    def num(t):
        if z3.is_app_of(t, z3.Z3_OP_TO_REAL) and z3.is_int_value(t.arg(0)):
            t = t.arg(0)
        return Fraction(t.as_fraction()) if z3.is_rational_value(t) else (Fraction(t.as_long()) if z3.is_int_value(t) else None)

    def mul(a, b):
        if isinstance(a, Fraction) and isinstance(b, Fraction):
            return a * b
        return z3val(a) * z3val(b)

    def rec(t):
        if z3.is_const(t) and t.decl().kind() == z3.Z3_OP_UNINTERPRETED and t.decl().name() == "pi":
            return Fraction(1)
        n = num(t)
        if n is not None:
            return Fraction(0) if n == 0 else None
        if z3.is_app_of(t, z3.Z3_OP_UMINUS):
            q = rec(t.arg(0))
            return None if q is None else mul(Fraction(-1), q)
        if z3.is_add(t) or z3.is_sub(t):
            qs = [rec(c) for c in t.children()]
            if any(q is None for q in qs):
                return None
            acc = qs[0]
            for q in qs[1:]:
                if z3.is_add(t):
                    acc = acc + q if isinstance(acc, Fraction) and isinstance(q, Fraction) else z3val(acc) + z3val(q)
                else:
                    acc = acc - q if isinstance(acc, Fraction) and isinstance(q, Fraction) else z3val(acc) - z3val(q)
            return acc
        if z3.is_mul(t):
            cs = t.children()
            withpi = [c for c in cs if not _pi_free(c)]
            if len(withpi) != 1:
                return None
            q = rec(withpi[0])
            if q is None:
                return None
            for c in cs:
                if c is withpi[0]:
                    continue
                n = num(c)
                q = mul(q, n if n is not None else c)
            return q
        if z3.is_app_of(t, z3.Z3_OP_DIV):
            a, b = t.arg(0), t.arg(1)
            if not _pi_free(b):
                return None
            nb = num(b)
            if nb is None or nb == 0:
                return None  # only concrete non-zero divisors (x / 0 is unspecified in SMT)
            q = rec(a)
            if q is None:
                return None
            return q / nb if isinstance(q, Fraction) else q / z3val(nb)
        return None

    return rec(v)


def _int_times_rational(q):
    """(n, c) with q == ToReal(n) * c identically (n a z3 Int term, c a Fraction), or None"""
    def num(t):
        if z3.is_app_of(t, z3.Z3_OP_TO_REAL) and z3.is_int_value(t.arg(0)):
            t = t.arg(0)
        return Fraction(t.as_fraction()) if z3.is_rational_value(t) else (Fraction(t.as_long()) if z3.is_int_value(t) else None)

    def rec(t):
        if z3.is_app_of(t, z3.Z3_OP_TO_REAL):
            return (t.arg(0), Fraction(1)) if num(t) is None else None
        if z3.is_app_of(t, z3.Z3_OP_UMINUS):
            r = rec(t.arg(0))
            return None if r is None else (r[0], -r[1])
        if z3.is_mul(t):
            c = Fraction(1)
            rest = []
            for ch in t.children():
                v = num(ch)
                if v is None:
                    rest.append(ch)
                else:
                    c *= v
            if len(rest) != 1:
                return None
            r = rec(rest[0])
            return None if r is None else (r[0], r[1] * c)
        if z3.is_app_of(t, z3.Z3_OP_DIV):
            d = num(t.arg(1))
            if d is None or d == 0:
                return None
            r = rec(t.arg(0))
            return None if r is None else (r[0], r[1] / d)
        return None

    if not (is_z3(q) and z3.is_real(q)):
        return None
    r = rec(q)
    if r is None or r[1] == 0:
        return None
    return r


def pi_quotient(op, x, y):
    """x op y for op in Div / FloorDiv / Mod when x = q1 * pi and y = q2 * pi with a CONCRETE non-zero rational q2:
    pi cancels exactly (pi > 0 for the floor): x / y = q1 / q2, x // y = floor(q1 / q2), x % y = (q1 - q2 floor(q1 / q2)) pi.
    -> value, or None when the operands are not of that form."""
    if not (is_z3(x) and is_z3(y)) or not (z3.is_real(x) and z3.is_real(y)):
        return None
    q2 = pi_coeff(y)
    if not isinstance(q2, Fraction) or q2 == 0:
        return None
    q1 = pi_coeff(x)
    if q1 is None:
        return None
    pi = z3.Real("pi")
    if isinstance(q1, Fraction):
        r = q1 / q2
        fl = Fraction(math.floor(r))
        if op == "Div":
            return r
        if op == "FloorDiv":
            return fl
        m = q1 - q2 * fl
        return Fraction(0) if m == 0 else z3.RealVal(m) * pi
    nc = _int_times_rational(q1)
    if nc is not None:
        # q1 = n * c with an Int term n and a rational c: q1 / q2 = n * a / b (b > 0), so the floor and the remainder
        # are INTEGER division / modulus of a * n by b (SMT-LIB div / mod are floor / non-negative for b > 0)
        n, c = nc
        ratio = c / q2
        a, b = ratio.numerator, ratio.denominator
        an = n if a == 1 else z3.IntVal(a) * n
        if op == "Div":
            return z3.ToReal(n) if ratio == 1 else z3.ToReal(n) * z3.RealVal(ratio)
        if op == "FloorDiv":
            return z3.ToReal(an if b == 1 else an / b)
        if b == 1:
            return Fraction(0)
        return z3.ToReal(an % b) * z3.RealVal(q2 / b) * pi
    r = q1 / z3val(q2)
    if op == "Div":
        return r
    fl = z3.ToReal(z3.ToInt(r))
    if op == "FloorDiv":
        return fl
    return (q1 - z3val(q2) * fl) * pi


def binop(I, st, op, a, b, inplace=False):
    """yield (st, value|Exc)"""
    from . import npmodel, models

    # containers ---------------------------------------------------------------
    if isinstance(a, Ref) or isinstance(b, Ref):
        ea = st.get(a) if isinstance(a, Ref) else None
        eb = st.get(b) if isinstance(b, Ref) else None
        if models.is_view(st, a) or models.is_view(st, b):
            raise Unsupported("binary %s on a dictionary view / an iterator object" % op)
        if (ea is not None and ea.kind == "nd") or (eb is not None and eb.kind == "nd"):
            if inplace and ea is not None and ea.kind == "nd" and op != "MatMult":
                # `arr += x` on a numpy array updates the array IN PLACE: every other reference to it sees the new values
                if getattr(ea, "shared", False):
                    raise Unsupported("in-place arithmetic on an array that shares memory with a buffer")
                for st1, r in npmodel.nd_binop(I, st, op, a, b):
                    if isinstance(r, Exc):
                        yield st1, r
                        continue
                    res, tgt = st1.get(r), st1.get(a)
                    if res.shape != tgt.shape:
                        yield st1, exc("ValueError", "non-broadcastable output operand")
                        continue
                    # the result is written back into the array's OWN dtype under numpy's same_kind casting rule:
                    # bool -> int64 -> float64 is allowed, the other direction raises UFuncTypeError (a TypeError):
                    # `intarr += 1.5`, `intarr /= 2`, `boolarr += 1`
                    rk, tk = npmodel.dtype_of(res), npmodel.dtype_of(tgt)
                    order = {"b": 0, "i": 1, "f": 2}
                    if tk != "O" and rk != tk:
                        if rk not in order or tk not in order:
                            raise Unsupported("in-place arithmetic between arrays of kinds %s and %s" % (tk, rk))
                        if order[rk] > order[tk]:
                            yield st1, exc("TypeError", "Cannot cast ufunc output from dtype %s to dtype %s with casting rule 'same_kind'" % (rk, tk))
                            continue
                    vals = [npmodel.cast_elem(I, st1, tgt, x) for x in res.data]
                    if any(isinstance(x, Exc) for x in vals):
                        raise Unsupported("in-place arithmetic: element not storable")
                    tgt.data[:] = vals
                    npmodel.sync_views(st1, a)
                    yield st1, a
                return
            yield from npmodel.nd_binop(I, st, op, a, b)
            return
        if ea is not None and ea.kind == "obj":
            yield from models.obj_binop(I, st, op, a, b, inplace)
            return
        if eb is not None and eb.kind == "obj" and ea is None:
            yield from models.obj_binop(I, st, op, a, b, inplace, reflected=True)
            return
        if op == "Add" and ea is not None and eb is not None and ea.kind == "list" and eb.kind == "list":
            if inplace:
                ea.items.extend(eb.items)
                yield st, a
            else:
                yield st, st.alloc(type(ea)(ea.items + eb.items))
            return
        if op == "Mult" and ea is not None and ea.kind == "list" and isinstance(b, int):
            if inplace:  # lst *= n repeats the list object itself
                ea.items[:] = ea.items * b
                yield st, a
                return
            yield st, st.alloc(type(ea)(ea.items * b))
            return
        if op == "Mult" and eb is not None and eb.kind == "list" and isinstance(a, int):
            yield st, st.alloc(type(eb)(eb.items * a))
            return
        if ea is not None and eb is not None and ea.kind == "set" and eb.kind == "set":
            r = models.set_binop(I, st, op, ea, eb)
            if inplace and not ea.frozen:  # s |= t, s &= t, s -= t, s ^= t update the set object itself (every reference
                # sees it); a frozenset has no in-place operators: `fs |= t` is fs = fs | t (a new object)
                ea.items[:] = list(st.get(r).items)
                yield st, a
                return
            yield st, r
            return
        raise Unsupported("binary %s on containers" % op)
    if isinstance(a, tuple) and isinstance(b, tuple) and op == "Add":
        yield st, a + b
        return
    if isinstance(a, tuple) and isinstance(b, int) and op == "Mult":
        yield st, a * b
        return
    if isinstance(a, str):
        if op == "Add" and isinstance(b, str):
            yield st, a + b
            return
        if op == "Mod":
            from . import bytesmodel

            if a == "%ds" and is_z3(b):
                yield st, bytesmodel.SymFmt(b)
                return
            def _c(x):
                if isinstance(x, (int, str, bool)):
                    return True
                if isinstance(x, tuple):
                    return all(_c(y) for y in x)
                return False
            if _c(b):
                try:
                    yield st, a % b
                except Exception as e:  # noqa
                    yield st, exc(type(e).__name__, str(e))
                return
            yield st, Opaque("str % args")
            return
        if op == "Mult" and isinstance(b, int):
            yield st, a * b
            return
    if isinstance(a, Opaque) or isinstance(b, Opaque):
        if op in ("Add", "Mod") :
            yield st, Opaque("string arithmetic")
            return
    if isinstance(a, (frozenset,)) and isinstance(b, frozenset):
        r = {"BitOr": a | b, "BitAnd": a & b, "Sub": a - b, "BitXor": a ^ b}.get(op)
        if r is None:
            raise Unsupported("frozenset op " + op)
        yield st, r
        return
    if models.is_flagval(a) or models.is_flagval(b):
        yield from models.flag_binop(I, st, op, a, b)
        return
    from .values import Inf as _Inf

    if isinstance(a, _Inf) or isinstance(b, _Inf):
        raise Unsupported("arithmetic on float('inf')")
    if a is None or b is None or not (is_number(a) and is_number(b)):
        # TypeError only where CPython certainly raises it: both operands are None / numbers / str / tuple and the
        # combination is not one Python defines (str * int, int * str, tuple * int, int * tuple, str + str, tuple + tuple,
        # str % x were handled above when concrete).  Anything else (a symbolic repeat count, bytes, uninterpreted
        # values ...) is outside the model, not an error of the program.
        def plain(v):
            return v is None or is_number(v) or isinstance(v, (str, tuple))

        def seq(v):
            return isinstance(v, (str, tuple))

        defined = ((op == "Mult" and ((seq(a) and is_number(b) and not is_reallike(b)) or (seq(b) and is_number(a) and not is_reallike(a))))
                   or (op == "Add" and type(a) is type(b) and seq(a)) or (op == "Mod" and isinstance(a, str)))
        if not (plain(a) and plain(b)) or defined:
            if op == "Mult" and isinstance(a, int) and type(b) in (str, tuple):
                yield st, a * b  # int * str, int * tuple
                return
            raise Unsupported("operator %s on %s and %s" % (op, type(a).__name__, type(b).__name__))
        yield st, exc("TypeError", "unsupported operand type(s) for %s: %r %r" % (op, type(a).__name__, type(b).__name__))
        return
    # numbers --------------------------------------------------------------------
    if op == "Pow":
        yield from power(I, st, a, b)
        return
    x, y, sym = coerce_pair(a, b)
    if not sym:
        try:
            if op == "Add":
                r = x + y
            elif op == "Sub":
                r = x - y
            elif op == "Mult":
                r = x * y
            elif op == "Div":
                r = Fraction(x) / Fraction(y)
            elif op == "FloorDiv":
                r = py_floordiv(x, y)
            elif op == "Mod":
                r = x - y * py_floordiv(x, y)
            elif op in ("BitAnd", "BitOr", "BitXor", "LShift", "RShift") and isinstance(x, int) and isinstance(y, int):
                if op in ("LShift", "RShift") and y < 0:
                    yield st, exc("ValueError", "negative shift count")
                    return
                r = {"BitAnd": lambda: x & y, "BitOr": lambda: x | y, "BitXor": lambda: x ^ y, "LShift": lambda: x << y, "RShift": lambda: x >> y}[op]()
            else:
                raise Unsupported("operator %s" % op)
        except ZeroDivisionError:
            yield st, exc("ZeroDivisionError")
            return
        yield st, r
        return
    if op == "Add":
        yield st, x + y
    elif op == "Sub":
        yield st, x - y
    elif op == "Mult":
        yield st, x * y
    elif op in ("Div", "FloorDiv", "Mod") and pi_quotient(op, x, y) is not None:
        # both operands are multiples of math.pi (divisor: a concrete non-zero rational multiple): pi cancels exactly
        yield st, pi_quotient(op, x, y)
    elif op in ("Div", "FloorDiv", "Mod"):
        for st1, nz in I.branch(st, y != 0):
            if not nz:
                yield st1, exc("ZeroDivisionError")
                continue
            if op == "Div":
                xr = z3.ToReal(x) if z3.is_int(x) else x
                yr = z3.ToReal(y) if z3.is_int(y) else y
                yield st1, xr / yr
            elif z3.is_int(x) and z3.is_int(y):
                q = z_floordiv(x, y)
                yield st1, (q if op == "FloorDiv" else x - y * q)
            else:
                q = z3.ToReal(z3.ToInt(x / y))
                yield st1, (q if op == "FloorDiv" else x - y * q)
    elif (op in ("BitAnd", "BitOr", "BitXor") and z3.is_int(x) and z3.is_int(y) and (z3.is_int_value(x) or z3.is_int_value(y))
          and not is_boollike(a) and not is_boollike(b)):
        # one operand is a concrete mask: exact two's-complement semantics of Python ints through floor division
        # (bit b of v is (v div 2^b) mod 2 for every integer v, negative ones included)
        m, v = (x.as_long(), y) if z3.is_int_value(x) else (y.as_long(), x)
        a = mask_and(v, m)
        if op == "BitAnd":
            yield st, a
        elif op == "BitOr":
            yield st, v + m - a
        else:
            yield st, v + m - 2 * a
    else:
        raise Unsupported("bit operator %s on mathematical integers" % op)


def mask_and(v, m):
    """v & m for a symbolic integer v and a concrete integer m (any sign)."""
    if m < 0:
        # v = (v & m) + (v & ~m): the two masks partition the bits
        return v - mask_and(v, -m - 1)
    bits = [b for b in range(m.bit_length()) if (m >> b) & 1]
    if len(bits) > 16:
        raise Unsupported("bit mask with more than 16 set bits on a symbolic integer")
    r = z3.IntVal(0)
    for b in bits:
        r = r + ((v / (2 ** b)) % 2) * (2 ** b)
    return r


def invert(I, st, v):
    """~v = -v - 1 (exact for Python ints)"""
    v = as_arith(v)
    if isinstance(v, int):
        return ~v
    if is_z3(v) and z3.is_int(v):
        return -v - 1
    raise Unsupported("unary ~ on %r" % (v,))


def num_compare(op, a, b):
    x, y, sym = coerce_pair(a, b)
    if op == "Lt":
        return x < y
    if op == "LtE":
        return x <= y
    if op == "Gt":
        return x > y
    if op == "GtE":
        return x >= y
    raise Unsupported(op)


def zmin(a, b):
    x, y, sym = coerce_pair(a, b)
    if not sym:
        return a if not (y < x) else b
    return z3.If(y < x, y, x)


def zmax(a, b):
    x, y, sym = coerce_pair(a, b)
    if not sym:
        return a if not (y > x) else b
    return z3.If(y > x, y, x)
