"""Abstract (unbounded) heap: objects are terms of an uninterpreted sort, one SMT array per field.

Used where a property quantifies over arbitrary object graphs (C01, C14, C16).  A field is declared
by the sidecar:  I.heap_decls[name] = ("obj", ClassVal|None) | ("int",) | ("real",) | ("bool",) | ("seq", ClassVal|None)
Sequence fields (python lists of objects) are a pair of arrays  len: Obj->Int  and  arr: Obj->(Int->Obj).
"""
import z3

from .values import Exc, ExcVal, BuiltinClass, Unsupported, is_z3, z3val, as_arith

_OBJ = None


def obj_sort():
    global _OBJ
    if _OBJ is None:
        _OBJ = z3.DeclareSort("Obj")
    return _OBJ


def heap_none(I):
    return z3.Const("None!Obj", obj_sort())


def heap_is_obj(I, v):
    return is_z3(v) and v.sort() == obj_sort()


class HObj:
    """A heap object: term of sort Obj + static class used for method dispatch."""

    def __init__(self, term, cls):
        self.term = term
        self.cls = cls

    def __repr__(self):
        return "<HObj %s:%s>" % (self.term, getattr(self.cls, "name", None))


def _exc(name, *a):
    import builtins

    return Exc(ExcVal(BuiltinClass(name, getattr(builtins, name)), a))


def field_array(I, st, name):
    d = I.heap_decls[name]
    if name not in st.heap:
        if d[0] == "seq":
            st.heap[name + ".len"] = z3.Const("H0_%s_len" % name, z3.ArraySort(obj_sort(), z3.IntSort()))
            st.heap[name + ".arr"] = z3.Const("H0_%s_arr" % name, z3.ArraySort(obj_sort(), z3.ArraySort(z3.IntSort(), obj_sort())))
            st.heap[name] = True
        else:
            sort = {"obj": obj_sort(), "int": z3.IntSort(), "real": z3.RealSort(), "bool": z3.BoolSort()}[d[0]]
            st.heap[name] = z3.Const("H0_%s" % name, z3.ArraySort(obj_sort(), sort))
    return st.heap[name]


def wrap(I, term, cls):
    return HObj(term, cls)


def unwrap(v):
    if isinstance(v, HObj):
        return v.term
    if v is None:
        return z3.Const("None!Obj", obj_sort())
    return v


def heap_getattr(I, st, o, name):
    """o: HObj.  yields (st, value)"""
    d = I.heap_decls.get(name)
    if d is None:
        return None
    field_array(I, st, name)
    if d[0] == "seq":
        return HeapSeq(o.term, name, d[1])
    v = z3.Select(st.heap[name], o.term)
    if d[0] == "obj":
        return HObj(v, d[1])
    return v


def heap_setattr(I, st, o, name, v):
    d = I.heap_decls.get(name)
    if d is None:
        raise Unsupported("assignment to undeclared heap field %s" % name)
    field_array(I, st, name)
    if d[0] == "seq":
        if isinstance(v, HeapSeq):
            st.heap[name + ".len"] = z3.Store(st.heap[name + ".len"], o.term, v.length(I, st))
            st.heap[name + ".arr"] = z3.Store(st.heap[name + ".arr"], o.term, v.array(I, st))
            return
        from .values import Ref

        if isinstance(v, Ref) and st.get(v).kind == "list":
            items = st.get(v).items
            arr = z3.K(z3.IntSort(), unwrap(None))
            for k, x in enumerate(items):
                arr = z3.Store(arr, k, unwrap(x))
            st.heap[name + ".len"] = z3.Store(st.heap[name + ".len"], o.term, z3.IntVal(len(items)))
            st.heap[name + ".arr"] = z3.Store(st.heap[name + ".arr"], o.term, arr)
            return
        raise Unsupported("assigning %r to sequence field %s" % (v, name))
    val = unwrap(v) if d[0] == "obj" else z3val(as_arith(v))
    if d[0] == "real" and z3.is_int(val):
        val = z3.ToReal(val)
    st.heap[name] = z3.Store(st.heap[name], o.term, val)


class HeapSeq:
    """Handle on a list-valued field of a heap object (aliasing-correct: reads go through st.heap)."""

    def __init__(self, owner, field, elemcls):
        self.owner = owner
        self.field = field
        self.elemcls = elemcls

    def length(self, I, st):
        field_array(I, st, self.field)
        return z3.Select(st.heap[self.field + ".len"], self.owner)

    def array(self, I, st):
        field_array(I, st, self.field)
        return z3.Select(st.heap[self.field + ".arr"], self.owner)

    def _set(self, I, st, n, arr):
        st.heap[self.field + ".len"] = z3.Store(st.heap[self.field + ".len"], self.owner, n)
        st.heap[self.field + ".arr"] = z3.Store(st.heap[self.field + ".arr"], self.owner, arr)

    def at(self, I, st, k):
        return HObj(z3.Select(self.array(I, st), k), self.elemcls)

    # list protocol -------------------------------------------------------------------
    def getitem(self, I, st, idx):
        i = z3val(as_arith(idx))
        n = self.length(I, st)
        for st1, ok in I.branch(st, z3.And(i >= -n, i < n)):
            if ok:
                j = z3.simplify(z3.If(i < 0, i + self.length(I, st1), i))
                yield st1, self.at(I, st1, j)
            else:
                yield st1, _exc("IndexError", "list index out of range")

    def setitem(self, I, st, idx, v):
        i = z3val(as_arith(idx))
        n = self.length(I, st)
        for st1, ok in I.branch(st, z3.And(i >= -n, i < n)):
            if ok:
                j = z3.simplify(z3.If(i < 0, i + n, i))
                self._set(I, st1, self.length(I, st1), z3.Store(self.array(I, st1), j, unwrap(v)))
                yield st1, None
            else:
                yield st1, _exc("IndexError", "list assignment index out of range")

    def append(self, I, st, v):
        n = self.length(I, st)
        self._set(I, st, n + 1, z3.Store(self.array(I, st), n, unwrap(v)))
        yield st, None

    def insert(self, I, st, idx, v):
        """list.insert clamps the index into [0, len]."""
        i = z3val(as_arith(idx))
        n = self.length(I, st)
        p = z3.If(i < 0, z3.If(i + n < 0, z3.IntVal(0), i + n), z3.If(i > n, n, i))
        a = self.array(I, st)
        k = z3.Int("k!ins")
        new = z3.Lambda([k], z3.If(k < p, z3.Select(a, k), z3.If(k == p, unwrap(v), z3.Select(a, k - 1))))
        I.trust("list.insert", "A3: list.insert(i, x) shifts the tail right; index clamped to [0, len]")
        self._set(I, st, n + 1, new)
        yield st, None

    def _first_index(self, I, st, v):
        """yield (st, position term) on the found path and (st, None) on the not-found path."""
        n = self.length(I, st)
        a = self.array(I, st)
        x = unwrap(v)
        k = z3.Int("k!q")
        found = z3.Exists([k], z3.And(k >= 0, k < n, z3.Select(a, k) == x))
        for st1, ok in I.branch(st, found):
            if ok:
                p = I.fresh("int", "pos")
                st1.pc.append(z3.And(p >= 0, p < n, z3.Select(a, p) == x))
                st1.pc.append(z3.ForAll([k], z3.Implies(z3.And(k >= 0, k < p), z3.Select(a, k) != x)))
                yield st1, p
            else:
                st1.pc.append(z3.ForAll([k], z3.Implies(z3.And(k >= 0, k < n), z3.Select(a, k) != x)))
                yield st1, None

    def remove(self, I, st, v):
        I.trust("list.remove", "A3: list.remove(x) deletes the first element equal (identical) to x or raises ValueError")
        for st1, p in self._first_index(I, st, v):
            if p is None:
                yield st1, _exc("ValueError", "list.remove(x): x not in list")
                continue
            a = self.array(I, st1)
            n = self.length(I, st1)
            k = z3.Int("k!rm")
            new = z3.Lambda([k], z3.If(k < p, z3.Select(a, k), z3.Select(a, k + 1)))
            st1.ghost["last_removed_pos"] = p
            self._set(I, st1, n - 1, new)
            yield st1, None

    def index(self, I, st, v):
        for st1, p in self._first_index(I, st, v):
            if p is None:
                yield st1, _exc("ValueError", "x not in list")
            else:
                yield st1, p

    def pop(self, I, st, idx=-1):
        i = z3val(as_arith(idx))
        n = self.length(I, st)
        for st1, ok in I.branch(st, z3.And(i >= -n, i < n)):
            if not ok:
                yield st1, _exc("IndexError", "pop index out of range")
                continue
            a = self.array(I, st1)
            p = z3.simplify(z3.If(i < 0, i + n, i))
            k = z3.Int("k!pop")
            val = self.at(I, st1, p)
            new = z3.Lambda([k], z3.If(k < p, z3.Select(a, k), z3.Select(a, k + 1)))
            self._set(I, st1, n - 1, new)
            yield st1, val

    def contains(self, I, st, v):
        n = self.length(I, st)
        a = self.array(I, st)
        k = z3.Int("k!in")
        yield st, z3.Exists([k], z3.And(k >= 0, k < n, z3.Select(a, k) == unwrap(v)))

    def clear(self, I, st):
        self._set(I, st, z3.IntVal(0), self.array(I, st))
        yield st, None
