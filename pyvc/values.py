"""Value domain of the symbolic executor."""
import z3
from fractions import Fraction


class Unsupported(Exception):
    """The code under analysis left the verifiable subset (never reported as a violation)."""


class EngineError(Exception):
    pass


class Ref:
    """Pointer into St.store (mutable things: list, dict, object, ndarray, set, deque, symbolic list)."""

    __slots__ = ("id",)

    def __init__(self, id):
        self.id = id

    def __repr__(self):
        return "Ref(%d)" % self.id

    def __eq__(self, o):
        return isinstance(o, Ref) and o.id == self.id

    def __hash__(self):
        return hash(("Ref", self.id))


class ListE:
    kind = "list"

    def __init__(self, items):
        self.items = list(items)

    def copy(self):
        return ListE(self.items)


class IterE(ListE):
    """An ITERATOR object: the result of a generator expression, a generator function, iter(), zip(), map(), filter(),
    enumerate(), reversed(), itertools.*.  The engine computes its items eagerly (A3); this entry keeps what is still
    to be delivered.  It is not a list (no len / subscripts / == / methods: Unsupported), it is always true, next() takes
    the first pending item (`for` does the same, so a loop left by `break` leaves the rest), and a full consumption
    (list(it), a `for` that runs to the end, sum(it) ...) empties it and marks it `consumed`: CPython
    would deliver nothing on a second pass, the engine refuses one (Unsupported) so that no consumer can silently see
    the items twice.  `free`: (activation id, {name: value}) of the free variables a stored generator expression reads -
    CPython evaluates the element expressions only when the generator is consumed, so they must be unchanged then."""

    consumed = False
    free = None
    pending = None  # (exception, state at creation): computing the items RAISED without changing anything - CPython raises
    #                 that exception when the iterator is consumed; only a complete consumer (list, sum ...) may take it

    taken = False  # run to its end by the eager evaluation of another lazy iterator built on it (Interp._unchanged)

    def copy(self):
        c = IterE(self.items)
        c.consumed, c.free, c.pending, c.taken = self.consumed, self.free, self.pending, self.taken
        return c


class DictViewE(ListE):
    """d.keys() / d.values() / d.items(): a LIVE view of the dictionary `dref` (which = "keys" | "values" | "items").
    St.get() recomputes `items` from the dictionary's current contents at every access, so a view taken before an
    insertion shows the new entry and a loop over d.items() reads the current values, as in CPython.  It is NOT a list:
    subscripts, list methods, + and == on a view are refused (Unsupported) - only iteration, len, `in`, truth."""

    def __init__(self, dref, which, items=()):
        ListE.__init__(self, items)
        self.dref, self.which = dref, which

    def copy(self):
        return DictViewE(self.dref, self.which, self.items)


class DequeE(ListE):
    kind = "deque"

    def copy(self):
        return DequeE(self.items)


class SetE:
    kind = "set"
    frozen = False

    def __init__(self, items):
        self.items = list(items)  # concrete hashables, insertion ordered

    def copy(self):
        return SetE(self.items)


class FrozenSetE(SetE):
    """frozenset(...): the element model of SetE, but IMMUTABLE as in CPython - `fs |= x` rebinds the name to a new
    object (frozenset has no __ior__), there is no add / discard / update ..., and it is not an instance of `set`."""

    frozen = True

    def copy(self):
        return FrozenSetE(self.items)


class NumSetE(SetE):
    """a set whose elements are numbers, some of them symbolic; invariant: the elements are pairwise different under
    the path condition (established by the forking `add`).  Only add / len / truth / sorted are modelled."""

    kind = "numset"

    def copy(self):
        return NumSetE(self.items)


class DictE:
    kind = "dict"

    owner = None  # Ref of the object whose live __dict__ this is (St.get re-binds items to that object's attrs)

    def __init__(self, items=None):
        self.items = dict(items or {})

    def copy(self):
        d = DictE(self.items)
        if "default_factory" in self.__dict__:  # collections.defaultdict keeps its factory across path forks
            d.default_factory = self.default_factory
        d.owner = self.owner
        return d


class ObjE:
    kind = "obj"

    def __init__(self, cls, attrs=None):
        self.cls = cls  # ClassVal
        self.attrs = dict(attrs or {})

    def copy(self):
        return ObjE(self.cls, self.attrs)


class NdE:
    kind = "nd"

    def __init__(self, shape, data):
        self.shape = tuple(shape)
        self.data = list(data)  # flat, row-major

    def copy(self):
        """the same array in a forked state (ids are kept, so the view links stay valid)"""
        c = NdE(self.shape, self.data)
        # optional marks set by the numpy model: forced dtype, view of a buffer, numpy views ((root Ref, positions in the
        # root) / ((view Ref, positions), ...)), memory layout not known to be C-contiguous, ndarray.flat
        for k in ("dtype", "shared", "viewof", "views", "layout_unknown", "flatiter", "cursor"):
            if k in self.__dict__:
                setattr(c, k, self.__dict__[k])
        return c

    def c_contiguous(self):
        """is the array stored in C (row-major) order without gaps?  True / False / None (layout not known).  The model
        keeps elements in LOGICAL order; the memory layout only decides whether ravel() / reshape() can return a view.
        A fresh array is C-contiguous; a view is iff its positions in the root are consecutive."""
        if len(self.data) <= 1:
            return True
        if self.__dict__.get("layout_unknown"):
            return None
        vo = self.__dict__.get("viewof")
        if vo is None:
            return True
        pos = vo[1]
        return all(pos[k] == pos[0] + k for k in range(len(pos)))

    def detached(self, order="K"):
        """an independent array with the same contents: owns its memory, no view links.  order="C": ndarray.copy() /
        flatten() (row-major memory).  order="K" (np.array(a), copy.copy, deepcopy, pickle, astype, results of elementwise
        operations): numpy keeps the memory order of the source, so the copy of a transposed / Fortran-ordered array is NOT
        C-contiguous: its layout is marked unknown (ravel / reshape of it are then refused instead of guessed)."""
        c = NdE(self.shape, self.data)
        for k in ("dtype", "shared"):  # optional marks set by the numpy model (forced object dtype, view of a buffer)
            if k in self.__dict__:
                setattr(c, k, self.__dict__[k])
        if order == "K" and len(self.shape) >= 2 and self.c_contiguous() is not True:
            c.layout_unknown = True
        return c


class SymListE:
    """List of symbolic length: (length term, z3 Array Int->elem)."""

    kind = "symlist"

    def __init__(self, length, arr):
        self.length = length
        self.arr = arr

    def copy(self):
        return SymListE(self.length, self.arr)


class FuncVal:
    def __init__(self, node, module, cls=None, closure=None, name=None):
        self.node = node
        self.module = module
        self.cls = cls  # ClassVal where defined
        self.closure = closure  # dict of enclosing locals (lambda / nested def)
        self.name = name or getattr(node, "name", "<lambda>")

    def qualname(self):
        q = self.name
        if self.cls is not None:
            q = self.cls.name + "." + q
        return (self.module.name if self.module else "?") + ":" + q

    def decorators(self):
        out = []
        for d in getattr(self.node, "decorator_list", []):
            if hasattr(d, "id"):
                out.append(d.id)
            elif hasattr(d, "attr"):
                out.append(d.attr)
        return out

    def __repr__(self):
        return "<func %s>" % self.qualname()


class Partial:
    def __init__(self, func, args, kwargs):
        self.func, self.args, self.kwargs = func, list(args), dict(kwargs)


class PropertyVal:
    """property(fget, fset) object created at run time (e.g. by a property factory)"""

    def __init__(self, fget, fset=None):
        self.fget, self.fset = fget, fset


class BoundMethod:
    def __init__(self, func, self_val):
        self.func = func
        self.self_val = self_val


class ClassVal:
    def __init__(self, node, module):
        self.node = node
        self.module = module
        self.name = node.name
        self._members = None

    def __repr__(self):
        return "<class %s>" % self.name

    def __eq__(self, o):
        return isinstance(o, ClassVal) and o.node is self.node

    def __hash__(self):
        return hash(id(self.node))


class BuiltinClass:
    """int, float, list, ValueError ..."""

    def __init__(self, name, pyobj=None):
        self.name = name
        self.pyobj = pyobj

    def __repr__(self):
        return "<builtin class %s>" % self.name

    def __eq__(self, o):
        return isinstance(o, BuiltinClass) and o.name == self.name

    def __hash__(self):
        return hash(("bc", self.name))


class ModuleVal:
    def __init__(self, info=None, model=None, name=None):
        self.info = info  # extract.ModuleInfo for repo modules
        self.model = model  # name of a modelled external module ('math', 'numpy', ...)
        self.name = name or (info.name if info else model)

    def __repr__(self):
        return "<module %s>" % self.name


class Builtin:
    """Modelled callable. fn(interp, st, args, kwargs) -> iterable of (st, value-or-Exc)."""

    def __init__(self, name, fn):
        self.name = name
        self.fn = fn

    def __repr__(self):
        return "<builtin %s>" % self.name


class ExcVal:
    """Exception instance."""

    def __init__(self, cls, args=()):
        self.cls = cls  # BuiltinClass or ClassVal
        self.args = tuple(args)

    @property
    def name(self):
        return self.cls.name

    def __repr__(self):
        return "Exc<%s>" % self.name


class Exc:
    """Marker returned from expression evaluation: evaluation raised."""

    __slots__ = ("exc",)

    def __init__(self, exc):
        self.exc = exc


class Opaque:
    """A value the engine does not interpret (formatted strings, log handles ...)."""

    def __init__(self, desc=""):
        self.desc = desc

    def __repr__(self):
        return "<opaque %s>" % self.desc


class FmtStr(Opaque):
    """A formatted string of KNOWN structure with symbolic integer fields: parts are ("lit", str) or
    ("int", z3 Int term, minimum width, fill character).  Everywhere else it behaves as an uninterpreted string
    (Opaque); int() of it is modelled exactly (attrs.to_int)."""

    def __init__(self, parts):
        Opaque.__init__(self, "formatted string")
        self.parts = parts


def fmt_int_field(value, spec):
    """One replacement field of str.format / an f-string applied to an int.  -> part, or None if the spec is not one
    of the modelled ones: '', 'd', 'Nd', '0Nd', '>Nd', '>0Nd' (all right-aligned, fill ' ' or '0')."""
    import re as _re

    m = _re.fullmatch(r"(>)?(0)?([1-9][0-9]*)?(d)?", spec or "")
    if m is None:
        return None
    width = int(m.group(3)) if m.group(3) else 0
    fill = "0" if m.group(2) else " "
    if isinstance(value, bool):
        return None
    if isinstance(value, int):
        return ("lit", format(value, spec or ""))
    return ("int", value, width, fill)


def build_fmtstr(parts):
    """merge adjacent literals; a string without symbolic field is returned as a plain str"""
    out = []
    for p in parts:
        if p[0] == "lit" and out and out[-1][0] == "lit":
            out[-1] = ("lit", out[-1][1] + p[1])
        elif p[0] == "lit" and p[1] == "":
            continue
        else:
            out.append(p)
    if all(p[0] == "lit" for p in out):
        return "".join(p[1] for p in out)
    return FmtStr(out)


class Inf:
    """float("inf") / float("-inf").  Only comparisons are modelled: every modelled real (A1: concrete rationals and
    symbolic reals are finite) is strictly between -inf and +inf.  Arithmetic on it is Unsupported."""

    def __init__(self, sign=1):
        self.sign = 1 if sign > 0 else -1

    def __repr__(self):
        return "inf" if self.sign > 0 else "-inf"

    def __eq__(self, o):
        return isinstance(o, Inf) and o.sign == self.sign

    def __hash__(self):
        return hash(("Inf", self.sign))


class SliceVal:
    def __init__(self, lo, hi, step):
        self.lo, self.hi, self.step = lo, hi, step


class SuperVal:
    def __init__(self, cls, self_val):
        self.cls = cls
        self.self_val = self_val


class Unknown:
    """An imported name the engine has no model for; using it raises Unsupported."""

    def __init__(self, desc):
        self.desc = desc

    def __repr__(self):
        return "<unknown %s>" % self.desc


def is_z3(v):
    return isinstance(v, z3.ExprRef)


def is_num(v):
    return (isinstance(v, (int, Fraction)) and not isinstance(v, bool)) or isinstance(v, bool) or (
        is_z3(v) and (z3.is_int(v) or z3.is_real(v))
    )


def to_frac(x):
    """python float literal -> exact decimal Fraction (A1: reals)."""
    if isinstance(x, float):
        if x != x or x in (float("inf"), float("-inf")):
            raise Unsupported("non-finite float constant")
        return Fraction(repr(x))
    return x


def z3val(v):
    """Concrete number / bool -> z3 term (or pass through)."""
    if is_z3(v):
        return v
    if isinstance(v, bool):
        return z3.BoolVal(v)
    if isinstance(v, int):
        return z3.IntVal(v)
    if isinstance(v, Fraction):
        return z3.RealVal(v)
    if isinstance(v, float):
        return z3.RealVal(to_frac(v))
    raise Unsupported("cannot convert %r to SMT term" % (v,))


def is_intlike(v):
    return (isinstance(v, int)) or (is_z3(v) and z3.is_int(v))


def is_reallike(v):
    return isinstance(v, Fraction) or (is_z3(v) and z3.is_real(v))


def is_boollike(v):
    return isinstance(v, bool) or (is_z3(v) and z3.is_bool(v))


def as_arith(v):
    """bools -> ints for arithmetic."""
    if isinstance(v, bool):
        return int(v)
    if is_z3(v) and z3.is_bool(v):
        return z3.If(v, z3.IntVal(1), z3.IntVal(0))
    return v


def coerce_pair(a, b):
    """Both concrete -> python; else z3 terms of a common sort."""
    a, b = as_arith(a), as_arith(b)
    if not is_z3(a) and not is_z3(b):
        return a, b, False
    real = is_reallike(a) or is_reallike(b)
    za, zb = z3val(a), z3val(b)
    if real:
        if z3.is_int(za):
            za = z3.ToReal(za)
        if z3.is_int(zb):
            zb = z3.ToReal(zb)
    return za, zb, True
