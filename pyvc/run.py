"""Run the lemmas of a harness file: symbolic execution of harness + real armi source, then discharge."""
import ast
import json
import multiprocessing as mp
import os
import subprocess
import sys
import tempfile
import time
import traceback
from fractions import Fraction

import z3

from . import extract
from .symex import Interp, St, Frame
from .values import Exc, FuncVal, Unsupported, EngineError, is_z3, Ref
from .loops import LoopInv
from .heap import HObj

CONTRACTS_DIR = os.path.join(os.path.dirname(os.path.dirname(os.path.abspath(__file__))), "contracts")


def load_harness(path):
    name = "contracts." + os.path.splitext(os.path.basename(path))[0]
    mi = extract.ModuleInfo(name, path)
    mi.is_harness = True
    # names imported from spec are builtins of the engine
    mi.imports = {k: v for k, v in mi.imports.items() if v[0] not in ("spec", "contracts.spec")}
    return mi


def _literal_env(mi):
    env = {}
    for k, v in mi.assigns.items():
        try:
            env[k] = ast.literal_eval(v)
        except Exception:
            pass
    env["dict"] = dict
    return env


def lemma_defs(mi):
    out = []
    env = _literal_env(mi)
    for node in mi.tree.body:
        if isinstance(node, ast.FunctionDef):
            for d in node.decorator_list:
                dn = d.func if isinstance(d, ast.Call) else d
                if isinstance(dn, ast.Name) and dn.id == "lemma":
                    opts = {}
                    if isinstance(d, ast.Call):
                        for kw in d.keywords:
                            try:
                                opts[kw.arg] = eval(compile(ast.Expression(kw.value), mi.path, "eval"), {"__builtins__": {}}, env)
                            except Exception:
                                opts[kw.arg] = ast.unparse(kw.value)
                    out.append((node, opts))
    return out


def loop_invariants_of(mi, I):
    """LOOP_INVARIANTS = {("module:Class.func", ordinal): ["inv", ...] | {"inv": [...], "decreases": "..."}}"""
    node = mi.assigns.get("LOOP_INVARIANTS")
    if node is None:
        return
    env = {k: v.value for k, v in mi.assigns.items() if isinstance(v, ast.Constant) and isinstance(v.value, (str, int))}
    d = eval(compile(ast.Expression(node), mi.path, "eval"), {"__builtins__": {}}, env)
    for (q, n), v in d.items():
        if isinstance(v, dict):
            I.loop_invariants[(q, n)] = LoopInv(v["inv"], v.get("havoc", ()), v.get("decreases"), fresh=v.get("fresh"))
        else:
            I.loop_invariants[(q, n)] = LoopInv(v)


def sym_param(I, st, name, ann):
    t = ast.unparse(ann) if ann is not None else "int"
    if t == "int":
        v = z3.Int(name)
    elif t == "float":
        v = z3.Real(name)
    elif t == "bool":
        v = z3.Bool(name)
    else:
        raise Unsupported("lemma parameter type %s" % t)
    I.sym_inputs.append((name, v))
    return v


def model_value(m, v):
    r = m.eval(v, model_completion=True)
    if z3.is_int_value(r):
        return r.as_long()
    if z3.is_rational_value(r):
        return [r.numerator_as_long(), r.denominator_as_long()]
    if z3.is_true(r):
        return True
    if z3.is_false(r):
        return False
    if z3.is_algebraic_value(r):
        ap = r.approx(20)
        return [ap.numerator_as_long(), ap.denominator_as_long()]
    return str(r)


def extract_inputs(I, m):
    out = {}
    try:
        declared = {d.name() for d in m.decls()}
    except Exception:  # noqa
        declared = None
    for name, v in I.sym_inputs:
        # sym_int/sym_real called after a case split creates one variable per path under the same input name: report
        # the one the model talks about, not the (unconstrained, completed to 0) variable of another path
        if declared is not None and name in out and z3.is_expr(v) and z3.is_const(v) and v.decl().name() not in declared:
            continue
        try:
            if isinstance(v, tuple) and v[0] == "list":
                n = model_value(m, v[1])
                if isinstance(n, int) and 0 <= n <= 64:
                    out[name] = [model_value(m, z3.Select(v[2], k)) for k in range(n)]
                else:
                    out[name] = {"len": n}
            else:
                out[name] = model_value(m, v)
        except Exception as e:  # noqa
            out[name] = "?(%s)" % e
    return out


def z3cli_check(smt2, timeout_s):
    """z3 5.1 command line with a HARD time limit (the API's soft timeout is ignored on some quantified goals)."""
    with tempfile.NamedTemporaryFile("w", suffix=".smt2", delete=False, dir=os.environ.get("PYVC_TMP", None)) as f:
        f.write(smt2 + "\n")
        p = f.name
    try:
        r = subprocess.run(["z3-new", "-T:%d" % int(timeout_s), p], capture_output=True, text=True, timeout=timeout_s + 10)
        out = r.stdout.strip().splitlines()
        return out[0] if out and out[0] in ("sat", "unsat", "unknown") else "unknown"
    except Exception:
        return "unknown"
    finally:
        os.unlink(p)


def has_quantifier(terms):
    seen = set()
    todo = list(terms)
    while todo:
        e = todo.pop()
        i = e.get_id()
        if i in seen:
            continue
        seen.add(i)
        if z3.is_quantifier(e):
            return True
        if z3.is_app(e):
            todo.extend(e.children())
    return False


def _consts(terms):
    out, seen, todo = {}, set(), list(terms)
    while todo:
        e = todo.pop()
        i = e.get_id()
        if i in seen:
            continue
        seen.add(i)
        if z3.is_quantifier(e):
            todo.append(e.body())
        elif z3.is_app(e):
            if e.num_args() == 0 and e.decl().kind() == z3.Z3_OP_UNINTERPRETED:
                out[e.decl().name()] = e
            todo.extend(e.children())
    return list(out.values())


def cvc5_check(smt2, timeout_s):
    with tempfile.NamedTemporaryFile("w", suffix=".smt2", delete=False, dir=os.environ.get("PYVC_TMP", None)) as f:
        f.write("(set-logic ALL)\n" + smt2 + "\n")
        p = f.name
    try:
        r = subprocess.run(["/usr/bin/cvc5", "--tlimit=%d" % int(timeout_s * 1000), p], capture_output=True, text=True, timeout=timeout_s + 5)
        out = r.stdout.strip().splitlines()
        return out[0] if out else "unknown"
    except Exception:
        return "unknown"
    finally:
        os.unlink(p)


_XCHECK = {"left": 120.0, "done": 0}  # per lemma process: seconds left for cvc5 cross-checks of z3 proofs (thorough tier)


def discharge(I, ob, z3_timeout_s, cvc5_timeout_s, both=False):
    t0 = time.time()
    goal = ob.goal
    s = z3.Solver()
    s.set("timeout", int(z3_timeout_s * 1000))
    for a in I.axioms:
        s.add(a)
    for c in ob.pc:
        s.add(c)
    if not is_z3(goal):
        if goal:
            ob.status, ob.backend = "discharged", "eval"
            ob.time = time.time() - t0
            return
        neg = None
    else:
        neg = z3.Not(goal)
        s.add(neg)
    from . import smt

    allterms = list(I.axioms) + list(ob.pc) + ([neg] if neg is not None else [])
    if has_quantifier(allterms):
        # quantified goal: external solvers with hard limits, z3 first then cvc5
        smt2 = s.to_smt2()
        r1 = z3cli_check(smt2, z3_timeout_s)
        ob.backend = "z3-cli"
        if r1 == "unknown":
            r1 = cvc5_check(smt2, cvc5_timeout_s)
            ob.backend = "cvc5"
        if r1 == "unsat":
            ob.status = "discharged"
        elif r1 == "sat":
            ob.status = "refuted"
            ob.model = None
            ob.reason = "%s reports sat on a quantified goal (no model extracted)" % ob.backend
        else:
            # counter-model search on a finite universe: a model of (premises and not goal) with only N objects is
            # also a model without that restriction, so `sat` here is a genuine refutation of the obligation
            found = None
            from .heap import obj_sort

            for n in (2, 3, 4):
                s2 = z3.Solver()
                for a in allterms:
                    s2.add(a)
                us = [z3.Const("u!%d" % k, obj_sort()) for k in range(n)]
                x = z3.Const("x!u", obj_sort())
                s2.add(z3.ForAll([x], z3.Or(*[x == u for u in us])))
                # small child lists in the initial heap keep the integer quantifiers finite for the model finder
                for c in _consts(allterms):
                    if c.decl().name().startswith("H0_") and c.decl().name().endswith("_len"):
                        s2.add(z3.ForAll([x], z3.And(z3.Select(c, x) >= 0, z3.Select(c, x) <= 3)))
                r2 = z3cli_check(s2.to_smt2(), min(20, z3_timeout_s * 2))
                if r2 == "sat":
                    found = n
                    break
            if found:
                ob.status = "refuted"
                ob.model = None
                ob.backend = "z3-cli-finite-universe"
                ob.reason = "counter-model with %d heap objects exists (premises hold, goal fails)" % found
            else:
                ob.status = "undecided"
                ob.reason = "z3 and cvc5 unknown/timeout on a quantified goal; no counter-model with <=4 objects found"
        ob.time = time.time() - t0
        return
    if smt.fast_unsat(allterms, int(z3_timeout_s * 1000)):
        ob.status, ob.backend = "discharged", "z3-nlsat"
        ob.time = time.time() - t0
        return
    r = s.check()
    ob.backend = "z3"
    if r == z3.unsat:
        ob.status = "discharged"
        if both and _XCHECK["left"] > 0:
            # thorough tier: second opinion from cvc5 on what z3 proved, within a per-lemma time budget
            tx = time.time()
            c = cvc5_check(s.to_smt2(), min(cvc5_timeout_s, 10))
            _XCHECK["left"] -= time.time() - tx
            _XCHECK["done"] += 1
            ob.cvc5 = c
            if c == "sat":
                ob.status = "undecided"
                ob.reason = "z3 unsat but cvc5 sat"
    elif r == z3.sat:
        ob.status = "refuted"
        m = s.model()
        ob.model = extract_inputs(I, m)
        ob.model_text = str(m)[:4000]
    else:
        c = cvc5_check(s.to_smt2(), cvc5_timeout_s)
        ob.backend = "cvc5"
        if c == "unsat":
            ob.status = "discharged"
        elif c == "sat":
            # cvc5 found a model but we cannot read it through the CLI cheaply: retry z3 longer for a model
            s.set("timeout", int(z3_timeout_s * 10000))
            r2 = s.check()
            if r2 == z3.sat:
                ob.status = "refuted"
                ob.model = extract_inputs(I, s.model())
                ob.model_text = str(s.model())[:4000]
            else:
                ob.status = "refuted"
                ob.model = None
                ob.reason = "cvc5 sat; no z3 model"
        elif smt.fast_unsat(allterms, int(z3_timeout_s * 10000)):
            # the relaxed nlsat route again with the long budget (a loaded machine can push a 5 s query past the short one)
            ob.status, ob.backend = "discharged", "z3-nlsat-retry"
        else:
            s.set("timeout", int(z3_timeout_s * 10000))
            r2 = s.check()
            if r2 == z3.unsat:
                ob.status, ob.backend = "discharged", "z3-retry"
            elif r2 == z3.sat:
                ob.status, ob.backend = "refuted", "z3-retry"
                ob.model = extract_inputs(I, s.model())
                ob.model_text = str(s.model())[:4000]
            else:
                ob.status = "undecided"
                ob.reason = "z3 unknown (%s); cvc5 %s" % (s.reason_unknown(), c)
    ob.time = time.time() - t0


def _source_trail(e):
    """developer aid (PYVC_DEBUG=1): the analysed source lines on the interpreter stack when Unsupported was raised"""
    import ast as _ast

    out, tb = [], e.__traceback__
    while tb is not None:
        nd = tb.tb_frame.f_locals.get("node")
        if isinstance(nd, _ast.AST) and hasattr(nd, "lineno"):
            try:
                txt = _ast.unparse(nd).splitlines()[0][:110]
            except Exception:
                txt = type(nd).__name__
            item = "L%d %s" % (nd.lineno, txt)
            if not out or out[-1] != item:
                out.append(item)
        tb = tb.tb_next
    return "\n".join(out[-40:])


def run_lemma(path, lemma_name, tier="quick"):
    """-> result dict (picklable).  Executed in a worker process."""
    t0 = time.time()
    res = {"lemma": lemma_name, "file": os.path.basename(path), "status": "ok", "obligations": [], "error": None}
    import signal

    def _alarm(signum, frame):
        raise TimeoutError("lemma wall-clock budget exceeded")

    _XCHECK["left"], _XCHECK["done"] = 120.0, 0
    budget = int(os.environ.get("PYVC_LEMMA_BUDGET", "240" if tier == "quick" else "1800"))
    try:
        signal.signal(signal.SIGALRM, _alarm)
        signal.alarm(budget)
    except Exception:
        pass
    try:
        extract.clear_cache()
        mi = load_harness(path)
        node, opts = [x for x in lemma_defs(mi) if x[0].name == lemma_name][0]
        I = Interp()
        I.covers = {}
        I.cur_lemma = lemma_name
        loop_invariants_of(mi, I)
        for q, fname in (opts.get("stubs") or {}).items():
            if fname not in mi.defs:
                raise Unsupported("stub function %s not defined in harness" % fname)
            I.stubs[q] = FuncVal(mi.defs[fname], mi)
        st = St()
        for q, gname in (opts.get("overrides") or {}).items():
            # a module global of the repo replaced by a harness-level value (e.g. the nuclide table by an abstract one)
            modname, attr = q.split(":")
            I.global_overrides[(modname, attr)] = I.resolve_global(mi, gname)
            I.trust("override:" + q, "module global %s replaced by the harness value `%s`" % (q, gname))
        vars = {}
        for a in node.args.args:
            vars[a.arg] = sym_param(I, st, a.arg, a.annotation)
        f = FuncVal(node, mi)
        # module-level declarations of the harness (declare_field(...)) are executed first
        st.frames.append(Frame({}, None, mi, None, is_harness=True))
        for top in mi.tree.body:
            if isinstance(top, ast.Expr) and isinstance(top.value, ast.Call) and isinstance(top.value.func, ast.Name) and top.value.func.id in ("declare_field",):
                list(I.ev(top.value, st))
        st.frames.pop()
        fr = Frame(vars, f, mi, None, is_harness=True)
        st.frames.append(fr)
        st.const = False  # the lemma's own state (and its forks); constant evaluations use throw-away states
        ends = []
        for st1, ctrl in I.ex_block(node.body, st):
            I.stats["paths"] += 1
            if ctrl is not None and ctrl[0] == "raise":
                I.oblige(st1, False, "uncaught-%s" % ctrl[1].name, "no-exception", note="uncaught %s%s" % (ctrl[1].name, _excargs(ctrl[1])))
            else:
                ends.append(list(st1.pc))
        # the z3 API does not reliably honour long timeouts on nonlinear goals (a 60 s limit ran for > 30 min): both tiers use
        # the short limits first; the x10 retry stage and (thorough) the cvc5 cross-check give the extra depth
        zt, ct = (10, 20)
        zt, ct = int(os.environ.get("PYVC_ZT", zt)), int(os.environ.get("PYVC_CT", ct))
        zt = opts.get("timeout", zt)
        for ob in I.obligations:
            discharge(I, ob, zt, ct, both=(tier == "thorough"))
        # vacuity: at least one complete path must be satisfiable
        cover_ok = False
        for pc in ends:
            if has_quantifier(pc):
                # quantified path condition: only "provably contradictory" is detectable (canary: False is not provable)
                sv = z3.Solver()
                for a in I.axioms:
                    sv.add(a)
                for c in pc:
                    sv.add(c)
                rr = z3cli_check(sv.to_smt2(), 5)
                if rr == "sat":
                    cover_ok = True
                    break
                if rr == "unknown":
                    cover_ok = cover_ok or None
                continue
            r, _ = I.check(pc, 10000)
            if r == "sat":
                cover_ok = True
                break
            if r == "unknown":
                cover_ok = cover_ok or None
        res["cover"] = cover_ok
        res["paths"] = I.stats["paths"]
        res["ends"] = len(ends)
        for ob in I.obligations:
            res["obligations"].append(
                {
                    "name": ob.name, "base": ob.base, "kind": ob.kind, "where": ob.where, "status": ob.status, "backend": ob.backend,
                    "time": round(ob.time, 4), "model": ob.model, "note": ob.note, "reason": ob.reason,
                    "model_text": getattr(ob, "model_text", None), "cvc5": getattr(ob, "cvc5", None),
                }
            )
        res["functions"] = dict(I.functions_used)
        res["assumptions"] = list(I.assumption_log)
        res["solver_s"] = round(I.stats["solver_s"] + sum(o.time for o in I.obligations), 3)
        res["feas_checks"] = I.stats["feas_checks"]
        res["hypotheses"] = opts
    except TimeoutError as e:
        res["status"] = "unsupported"
        res["error"] = "timeout: %s" % e
        res["trace"] = traceback.format_exc()[-1500:]
    except Unsupported as e:
        res["status"] = "unsupported"
        res["error"] = str(e)
        res["trace"] = traceback.format_exc()[-1500:]
        if os.environ.get("PYVC_DEBUG"):
            res["trace"] += "\n" + _source_trail(e)
    except Exception as e:  # noqa
        res["status"] = "error"
        res["error"] = "%s: %s" % (type(e).__name__, e)
        res["trace"] = traceback.format_exc()[-3000:]
    try:
        signal.alarm(0)
    except Exception:
        pass
    res["wall_s"] = round(time.time() - t0, 3)
    return res


def _excargs(e):
    try:
        return "(" + ", ".join(str(a)[:60] for a in e.args) + ")"
    except Exception:
        return ""


def _child(q, args):
    try:
        q.put(run_lemma(*args))
    except BaseException as e:  # noqa
        q.put({"lemma": args[1], "file": os.path.basename(args[0]), "status": "error", "obligations": [], "error": "worker crashed: %r" % (e,), "wall_s": 0})


def _worker(args):
    """Run one lemma in its own process with a HARD wall-clock limit (z3 can ignore soft timeouts on quantified goals)."""
    path, name, tier = args
    budget = int(os.environ.get("PYVC_LEMMA_BUDGET", "240" if tier == "quick" else "1800")) + 45
    ctx = mp.get_context("fork")
    q = ctx.Queue()
    p = ctx.Process(target=_child, args=(q, args))
    t0 = time.time()
    p.start()
    res = None
    try:
        res = q.get(timeout=budget)
    except Exception:
        res = None
    if p.is_alive():
        p.terminate()
        p.join(5)
        if p.is_alive():
            p.kill()
    else:
        p.join(1)
    if res is None:
        res = {"lemma": name, "file": os.path.basename(path), "status": "unsupported", "obligations": [],
               "error": "hard timeout after %ds (solver did not return)" % budget, "wall_s": round(time.time() - t0, 1)}
    return res


def run_file(path, tier="quick", only=None, jobs=None):
    mi = load_harness(path)
    names = [n.name for n, _ in lemma_defs(mi)]
    if only:
        names = [n for n in names if n in only]
    jobs = jobs or min(16, max(1, len(names)))
    tasks = [(path, n, tier) for n in names]
    from concurrent.futures import ThreadPoolExecutor

    with ThreadPoolExecutor(jobs) as ex:
        return list(ex.map(_worker, tasks))


def main(argv):
    import argparse

    ap = argparse.ArgumentParser()
    ap.add_argument("file")
    ap.add_argument("--tier", default="quick")
    ap.add_argument("--only", nargs="*")
    ap.add_argument("-j", type=int, default=None)
    ap.add_argument("-v", action="store_true")
    a = ap.parse_args(argv)
    results = run_file(a.file, a.tier, a.only, a.j)
    bad = 0
    for r in results:
        n = len(r["obligations"])
        d = sum(1 for o in r["obligations"] if o["status"] == "discharged")
        print("%-50s %-11s %d/%d paths=%s cover=%s %.2fs %s" % (r["lemma"], r["status"], d, n, r.get("paths"), r.get("cover"), r["wall_s"], r["error"] or ""))
        if r["status"] != "ok" and a.v:
            print(r.get("trace"))
        for o in r["obligations"]:
            if o["status"] != "discharged":
                bad += 1
                print("    %s %s model=%s %s %s" % (o["status"].upper(), o["name"], o["model"], o["note"], o["reason"]))
            elif a.v:
                print("    ok %s [%s %.3fs]" % (o["name"], o["backend"], o["time"]))
    return 1 if bad else 0


if __name__ == "__main__":
    sys.exit(main(sys.argv[1:]))
