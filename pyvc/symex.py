"""Symbolic executor over a Python subset.  See DESIGN.md 1.3 / Appendix B.

Paths are explored explicitly (state forking, infeasible branches pruned with z3).  Values are
concrete Python values where the program is concrete and z3 terms where it is symbolic.
"""
import ast
import builtins as _pybuiltins
import itertools
import re
import time
from fractions import Fraction

import z3

from . import extract
from .values import *  # noqa: F401,F403
from .values import (
    Partial,
    Ref,
    ListE,
    DequeE,
    SetE,
    DictE,
    ObjE,
    NdE,
    SymListE,
    FuncVal,
    BoundMethod,
    ClassVal,
    BuiltinClass,
    ModuleVal,
    Builtin,
    ExcVal,
    Exc,
    Opaque,
    SliceVal,
    SuperVal,
    Unknown,
    Unsupported,
    EngineError,
    is_z3,
    z3val,
    to_frac,
    coerce_pair,
    as_arith,
    is_intlike,
    is_reallike,
    is_boollike,
)

MAX_UNROLL = 400
_KEEP_GOING = bool(__import__("os").environ.get("PYVC_KEEP_GOING"))
MAX_DEPTH = 60


_FRAME_IDS = __import__("itertools").count(1)


class _NameErr(Exception):
    """raised by Interp.lookup for an unbound local / free variable; ev_Name turns it into the Python exception"""

    def __init__(self, cls, msg):
        Exception.__init__(self, msg)
        self.cls = cls


class Frame:
    __slots__ = ("vars", "func", "module", "cls", "is_harness", "loopno", "entry", "fid", "has_closures")

    def __init__(self, vars, func, module, cls=None, is_harness=False):
        self.vars = vars
        self.func = func
        self.module = module
        self.cls = cls
        self.is_harness = is_harness
        self.loopno = 0
        self.entry = None
        self.fid = next(_FRAME_IDS)  # identity of this activation (kept by copy(): the same activation on a forked path)
        self.has_closures = False  # a lambda / nested def was created in this activation (its variables outlive it)

    def copy(self):
        f = Frame(dict(self.vars), self.func, self.module, self.cls, self.is_harness)
        f.loopno = self.loopno
        f.entry = self.entry
        f.fid = self.fid
        f.has_closures = self.has_closures
        return f


class St:
    """One path."""

    def __init__(self):
        self.pc = []
        self.store = {}
        self.frames = []
        self.ghost = {}
        self.heap = {}  # abstract heap: field name -> z3 array (see heap.py)
        self.nid = [0]
        self.trail = []  # branch decisions (for reporting)

    def fork(self):
        s = St()
        s.pc = list(self.pc)
        s.store = {k: e.copy() for k, e in self.store.items()}
        s.frames = [f.copy() for f in self.frames]
        s.ghost = dict(self.ghost)
        s.heap = dict(self.heap)
        s.nid = self.nid
        s.trail = list(self.trail)
        return s

    def alloc(self, entry):
        self.nid[0] += 1
        i = self.nid[0]
        self.store[i] = entry
        return Ref(i)

    def get(self, ref):
        e = self.store[ref.id]
        if e.kind == "dict" and e.owner is not None:
            e.items = self.store[e.owner.id].attrs  # obj.__dict__ is a live view: reads and writes go to the object
        elif e.__class__ is DictViewE:
            # d.keys() / d.values() / d.items() are live views of d: recomputed from the dictionary at every access
            d = self.get(e.dref).items
            e.items = list(d) if e.which == "keys" else (list(d.values()) if e.which == "values" else list(d.items()))
        return e

    @property
    def frame(self):
        return self.frames[-1]


class Obligation:
    def __init__(self, name, pc, goal, where, kind="assert", note=""):
        self.name = name
        self.pc = pc
        self.goal = goal
        self.where = where
        self.kind = kind
        self.note = note
        self.status = None
        self.backend = None
        self.time = 0.0
        self.model = None
        self.reason = ""


class Interp:
    def __init__(self, feas_timeout_ms=int(__import__("os").environ.get("PYVC_FEAS_MS", "400"))):
        self.obligations = []
        self.axioms = []
        self._axiom_keys = set()
        self.assumption_log = []  # trusted models actually used
        self._assumption_keys = set()
        self.functions_used = {}  # qualname -> hash
        self.dropped = {}  # qualname -> set of dropped things
        self.feas_timeout_ms = feas_timeout_ms
        self._feas_cache = {}
        self._quant_cache = {}
        self._quant_keep = []
        self._global_keep = []
        self._globals_cache = {}
        self._resolving = set()
        self._class_cache = {}
        self.contracts = {}  # qualname -> Contract
        self.use_contracts = set()
        self.stubs = {}
        self.global_overrides = {}
        self.spec_mode = 0
        self.loop_invariants = {}  # (qualname, ordinal) -> LoopInv
        self.fresh_counter = itertools.count()
        self.sym_inputs = []
        self.cur_lemma = "?"
        self.assert_counter = {}
        self.stats = {"feas_checks": 0, "paths": 0, "solver_s": 0.0}
        self.uf = {}
        self.extra_globals = {}  # names visible in harness files
        self.heap_decls = {}
        from . import models

        self.models = models
        self.builtins = models.make_builtins(self)
        self.ext_modules = models.make_ext_modules(self)

    # ------------------------------------------------------------------ bookkeeping
    def trust(self, key, text):
        if key not in self._assumption_keys:
            self._assumption_keys.add(key)
            self.assumption_log.append(text)

    def axiom(self, key, fact):
        if key not in self._axiom_keys:
            self._axiom_keys.add(key)
            self.axioms.append(fact)

    def fresh(self, sort, hint="v"):
        n = "%s!%d" % (hint, next(self.fresh_counter))
        if isinstance(sort, z3.SortRef):
            return z3.Const(n, sort)
        if sort == "int":
            return z3.Int(n)
        if sort == "real":
            return z3.Real(n)
        if sort == "bool":
            return z3.Bool(n)
        if isinstance(sort, z3.SortRef):
            return z3.Const(n, sort)
        raise EngineError("fresh: bad sort %r" % (sort,))

    def func(self, name, *sorts):
        if name not in self.uf:
            self.uf[name] = z3.Function("pv_" + name, *sorts)
        return self.uf[name]

    # ------------------------------------------------------------------ solver
    def check(self, terms, timeout_ms=None):
        from . import smt

        t0 = time.time()
        if smt.fast_unsat(list(self.axioms) + list(terms), min(timeout_ms or self.feas_timeout_ms, 1500)):
            self.stats["solver_s"] += time.time() - t0
            self.stats["feas_checks"] += 1
            return "unsat", None
        s = z3.Solver()
        s.set("timeout", timeout_ms or self.feas_timeout_ms)
        for a in self.axioms:
            s.add(a)
        for t in terms:
            s.add(t)
        t0 = time.time()
        r = s.check()
        self.stats["solver_s"] += time.time() - t0
        self.stats["feas_checks"] += 1
        if r == z3.sat:
            return "sat", s
        if r == z3.unsat:
            return "unsat", s
        return "unknown", s

    def feasible(self, st, extra):
        """False only when pc ∧ extra is definitely unsat."""
        if not is_z3(extra):
            return bool(extra)
        e = z3.simplify(extra)
        if z3.is_true(e):
            return True
        if z3.is_false(e):
            return False
        # feasibility pruning uses only the quantifier-free part of the path condition: weaker premises can only
        # keep more paths (sound), and quantified premises make these frequent small queries slow/unstable
        # syntactic shortcut (sound): a condition that is literally on the path is feasible, one whose negation is
        # literally on the path is not (pc and e would be contradictory) - saves the solver call for re-tested conditions
        eid = e.get_id()
        pcids = {t.get_id() for t in st.pc}
        if eid in pcids:
            return True
        if z3.Not(e).get_id() in pcids or (z3.is_not(e) and e.arg(0).get_id() in pcids):
            return False
        qf = [t for t in st.pc if not self._has_quant(t)]
        if self._has_quant(e):
            return True
        key = (tuple(t.get_id() for t in qf), e.get_id(), len(self.axioms))
        if key in self._feas_cache:
            return self._feas_cache[key][0]
        r, _ = self.check(qf + [e])
        ok = r != "unsat"
        # the key is made of z3 AST ids: the cache entry keeps those ASTs alive, otherwise z3 reuses the id of a freed
        # term for a different one and a stale verdict (e.g. "infeasible") is returned for an unrelated query
        self._feas_cache[key] = (ok, qf, e)
        return ok

    def _has_quant(self, t):
        k = t.get_id()
        c = self._quant_cache.get(k)
        if c is not None:
            return c
        seen = set()
        todo = [t]
        found = False
        while todo:
            e = todo.pop()
            i = e.get_id()
            if i in seen:
                continue
            seen.add(i)
            if z3.is_quantifier(e) or (z3.is_app(e) and e.decl().kind() == z3.Z3_OP_ARRAY_MAP):
                found = True
                break
            if z3.is_app(e):
                todo.extend(e.children())
        self._quant_cache[k] = found
        self._quant_keep.append(t)  # keep the AST alive: its id is the cache key (ids of freed terms are reused)
        return found

    def branch(self, st, cond):
        """-> list of (state, bool) for feasible outcomes of cond; states are independent."""
        if not is_z3(cond):
            return [(st, bool(cond))]
        c = z3.simplify(cond)
        if z3.is_true(c):
            return [(st, True)]
        if z3.is_false(c):
            return [(st, False)]
        t_ok = self.feasible(st, c)
        f_ok = self.feasible(st, z3.Not(c))
        out = []
        if t_ok and f_ok:
            st2 = st.fork()
            st.pc.append(c)
            st2.pc.append(z3.Not(c))
            out = [(st, True), (st2, False)]
        elif t_ok:
            st.pc.append(c)
            out = [(st, True)]
        elif f_ok:
            st.pc.append(z3.Not(c))
            out = [(st, False)]
        return out

    # ------------------------------------------------------------------ obligations
    def oblige(self, st, goal, where, kind="assert", note="", name=None):
        if name is None:
            k = (self.cur_lemma, where)
            name = "%s.%s@%s" % (self.cur_lemma, kind, where)
        n = self.assert_counter.get(name, 0)
        self.assert_counter[name] = n + 1
        full = "%s.path%d" % (name, n)
        ob = Obligation(full, list(st.pc), goal, where, kind, note)
        ob.base = name
        self.obligations.append(ob)
        return ob

    # ------------------------------------------------------------------ names
    def module_val(self, modname):
        mi = extract.load_module(modname)
        if mi is not None:
            return ModuleVal(info=mi)
        if modname in self.ext_modules:
            return ModuleVal(model=modname)
        top = modname.split(".")[0]
        if modname in self.ext_modules or top in self.ext_modules:
            return ModuleVal(model=modname if modname in self.ext_modules else top)
        return Unknown("module " + modname)

    def class_val(self, node, mi):
        k = id(node)
        if k not in self._class_cache:
            self._class_cache[k] = ClassVal(node, mi)
        return self._class_cache[k]

    def resolve_global(self, mi, name, st=None):
        key = (mi.name, name)
        if key in self.global_overrides:
            return self.global_overrides[key]
        if key in self._globals_cache:
            return self._globals_cache[key]
        if key in self._resolving:
            raise KeyError(name)  # import cycle
        self._resolving.add(key)
        try:
            val = self._resolve_global(mi, name)
        finally:
            self._resolving.discard(key)
        self._globals_cache[key] = val
        return val

    def _resolve_global(self, mi, name):
        if name in mi.defs:
            node = mi.defs[name]
            if isinstance(node, ast.ClassDef):
                return self.class_val(node, mi)
            return FuncVal(node, mi)
        if name in mi.assigns:
            if name in mi.mutated_opaquely:
                return Unknown("global %s.%s (mutated by module-level code that is not replayed)" % (mi.name, name))
            return self.eval_const(mi, mi.assigns[name], name, mi.mutations.get(name))
        if name in mi.imports:
            mod, attr = mi.imports[name]
            if attr is None:
                return self.module_val(mod)
            sub = extract.load_module(mod + "." + attr)
            tgt = extract.load_module(mod)
            if tgt is not None:
                if sub is not None and attr not in tgt.defs and attr not in tgt.assigns:
                    return ModuleVal(info=sub)
                if attr in tgt.defs or attr in tgt.assigns or attr in tgt.imports:
                    return self.resolve_global(tgt, attr)
                if sub is not None:
                    return ModuleVal(info=sub)
                try:
                    return self.resolve_global(tgt, attr)
                except KeyError:
                    return Unknown("%s.%s" % (mod, attr))
            if sub is not None:
                return ModuleVal(info=sub)
            if mod in self.ext_modules:
                d = self.ext_modules[mod]
                if attr in d:
                    return d[attr]
                return Unknown("%s.%s" % (mod, attr))
            top = mod.split(".")[0]
            if mod + "." + attr in self.ext_modules:
                return ModuleVal(model=mod + "." + attr)
            return Unknown("%s.%s" % (mod, attr))
        if not name.startswith("_"):
            mods = [extract.load_module(star) for star in reversed(mi.stars)]
            mods = [m for m in mods if m is not None]
            # modules that define the name themselves first, then re-exports
            for smi in [m for m in mods if name in m.defs or name in m.assigns] + [m for m in mods if not (name in m.defs or name in m.assigns)]:
                try:
                    v = self.resolve_global(smi, name)
                except KeyError:
                    continue
                if not isinstance(v, Unknown):
                    return v
        raise KeyError(name)

    def eval_const(self, mi, expr, name="?", mutations=None):
        """Evaluate a module- or class-level constant expression (must be path independent).  `mutations`: the
        module-level statements `NAME.method(...)` / `NAME[k] = v` that follow the assignment are replayed in order."""
        st = St()
        st.frames.append(Frame({}, None, mi))
        outs = list(self.ev(expr, st))
        if len(outs) != 1 or isinstance(outs[0][1], Exc):
            return Unknown("constant %s.%s" % (mi.name, name))
        st1, v = outs[0]
        for stmt in mutations or []:
            st1.frame.vars[name] = v
            outs = list(self.ex(stmt, st1))
            if len(outs) != 1 or outs[0][1] is not None:
                return Unknown("constant %s.%s (module-level update at line %d)" % (mi.name, name, stmt.lineno))
            st1 = outs[0][0]
        if st1.pc:
            for c in st1.pc:
                self.axiom(("const", mi.name, name, c.get_id()), c)
        return self.freeze(v, st1)

    def freeze(self, v, st):
        """Module constants are shared across paths: make them immutable python values."""
        if isinstance(v, Ref):
            e = st.get(v)
            if e.kind in ("list",):
                return FrozenList([self.freeze(x, st) for x in e.items])
            if e.kind == "dict":
                # keys that are objects (e.g. voluptuous-style marker objects) are frozen / thawed like values: a Ref
                # into the constant's private store means nothing in the state of a path
                return FrozenDict({(self.freeze(k, st) if isinstance(k, Ref) else k): self.freeze(x, st) for k, x in e.items.items()})
            if e.kind == "set":
                return frozenset(e.items)
            if e.kind == "nd":
                return FrozenNd(e.shape, [self.freeze(x, st) for x in e.data])
            if e.kind == "obj":
                return FrozenObj(e.cls, {k: self.freeze(x, st) for k, x in e.attrs.items()})
            return Unknown("mutable module constant")
        if isinstance(v, tuple):
            return tuple(self.freeze(x, st) for x in v)
        return v

    def thaw(self, v, st):
        if isinstance(v, FrozenList):
            return st.alloc(ListE([self.thaw(x, st) for x in v.items]))
        if isinstance(v, FrozenDict):
            return st.alloc(DictE({(self.thaw(k, st) if isinstance(k, (FrozenObj, FrozenList, FrozenDict, FrozenNd)) else k): self.thaw(x, st)
                                   for k, x in v.items.items()}))
        if isinstance(v, FrozenNd):
            return st.alloc(NdE(v.shape, [self.thaw(x, st) for x in v.data]))
        if isinstance(v, frozenset):
            return st.alloc(SetE(list(v)))
        if isinstance(v, FrozenObj):
            return st.alloc(ObjE(v.cls, {k: self.thaw(x, st) for k, x in v.attrs.items()}))
        if type(v) is tuple and any(isinstance(x, (FrozenObj, FrozenList, FrozenDict, FrozenNd, frozenset, tuple)) for x in v):
            # freeze() descends into tuples, so thaw must as well (e.g. the validators tuple of a schema object)
            return tuple(self.thaw(x, st) for x in v)
        return v

    def thaw_global(self, v, st):
        """A module-level (or harness-level) container / object is ONE object per path: the first access in a path
        materialises it from its initial value, later accesses see the same object (so `byName[k] = x` in one
        function is visible to the next reader), forks copy it with the store.  Keyed by the identity of the frozen
        initial value, which the globals cache keeps alive."""
        if isinstance(v, (FrozenList, FrozenDict, FrozenNd, FrozenObj, frozenset)) or (
                type(v) is tuple and any(isinstance(x, (FrozenObj, FrozenList, FrozenDict, FrozenNd, frozenset, tuple)) for x in v)):
            k = ("modglobal", id(v))
            r = st.ghost.get(k)
            if r is None or (isinstance(r, Ref) and r.id not in st.store):
                r = self.thaw(v, st)
                st.ghost[k] = r
                self._global_keep.append(v)
            return r
        return self.thaw(v, st)

    def lookup(self, name, st):
        fr = st.frame
        if name in fr.vars:
            return fr.vars[name]
        if fr.func is not None and name in self.local_names(fr.func):
            # CPython: a name bound anywhere in a function body is local in the WHOLE body; reading it while unbound is
            # UnboundLocalError - it never falls through to an enclosing / global / builtin name
            raise _NameErr("UnboundLocalError", "cannot access local variable '%s' where it is not associated with a value" % name)
        if fr.func is not None and fr.func.closure is not None:
            found, v = self.closure_lookup(fr.func, name, st)
            if found:
                return v
        if fr.is_harness and name in self.extra_globals:
            return self.thaw_global(self.extra_globals[name], st)
        mi = fr.module
        if mi is not None:
            gk = ("modglobal", mi.name, name)
            if gk in st.ghost:
                return st.ghost[gk]  # module global rebound on this path (`global` statement / module attribute assignment)
            try:
                return self.thaw_global(self.resolve_global(mi, name), st)
            except KeyError:
                pass
        if name in self.extra_globals and fr.func is None:
            return self.thaw_global(self.extra_globals[name], st)
        if name in self.builtins:
            return self.builtins[name]
        raise Unsupported("unbound name %s in %s" % (name, fr.func))

    def env_of(self, st, fid):
        """variables of the activation `fid`: the live frame if it is still on the stack, what it held when it returned
        if a closure was created in it (pop_frame), else None"""
        for fr in reversed(st.frames):
            if fr.fid == fid:
                return fr.vars
        return st.ghost.get(("env", fid))

    def pop_frame(self, st):
        fr = st.frames.pop()
        if fr.has_closures:
            st.ghost[("env", fr.fid)] = fr.vars  # cells outlive the activation: closures created in it still read them
        return fr

    def closure_lookup(self, func, name, st):
        """free variable `name` of a lambda / nested def -> (found, value).  A CPython closure refers to the VARIABLE of the
        enclosing activation (a cell), not to the value it had when the function was defined: a later rebinding is seen
        (`x = 1; f = lambda: x; x = 2; f()` is 2; every `lambda: i` made in a `for i` loop sees the last i).  The snapshot
        taken at definition time (func.closure) is only used when the defining activation is unknown."""
        fid = getattr(func, "def_fid", None)
        env = self.env_of(st, fid) if fid is not None else None
        if env is None:
            if name in func.closure:
                # the defining activation ran in a scratch state (class bodies, module constants: property factories ...) and
                # its final variables are not available: the value at definition time is the variable's value for ever
                # when the enclosing function binds the name exactly once, outside any loop (checked on its source)
                parent = getattr(func, "def_func", None)
                if fid is not None and parent is not None and not self._bound_once(parent.node, name):
                    raise Unsupported("closure variable %s: the defining activation is not available and the name is rebound" % name)
                return True, func.closure[name]
            return False, None
        comp = getattr(func, "comp_snapshot", None)
        if comp and name in comp:
            # a variable of a comprehension that was running when the function was created: it has its own cell in CPython;
            # the model keeps it in the enclosing frame only while the comprehension runs - exact while it still holds
            # the value it had at creation, refused otherwise
            if name in env and env[name] is comp[name]:
                return True, env[name]
            raise Unsupported("closure over the comprehension variable %s is called after the variable changed" % name)
        if name in env:
            return True, env[name]
        parent = getattr(func, "def_func", None)
        if parent is not None and name in self.local_names(parent):
            # a variable of the enclosing function that is not bound (yet / any more): NameError, never an outer / global name
            raise _NameErr("NameError", "cannot access free variable '%s' where it is not associated with a value in enclosing scope" % name)
        if parent is not None and parent.closure is not None:
            return self.closure_lookup(parent, name, st)
        return False, None

    def nonlocal_set(self, st, func, name, v):
        """`nonlocal name; name = v` in `func`: rebinds the variable of the nearest enclosing function activation that owns
        the name - the live frame while that activation is on the stack, else what it left behind (pop_frame).  The
        environment kept in st.ghost is shared by forked states: it is replaced, not updated in place."""
        f = func
        while f is not None:
            fid = getattr(f, "def_fid", None)
            parent = getattr(f, "def_func", None)
            env = self.env_of(st, fid) if fid is not None else None
            if env is None:
                break
            if name in env or (parent is not None and name in self.local_names(parent)):
                if any(fr.fid == fid for fr in st.frames):
                    env[name] = v
                else:
                    env = dict(env)
                    env[name] = v
                    st.ghost[("env", fid)] = env
                return
            f = parent
        raise Unsupported("nonlocal %s: the variable of the enclosing function is not available" % name)

    def _bound_once(self, fnode, name):
        """`name` has at most one binding in the function `fnode` (nested functions excluded), not inside a loop, no
        del / global / nonlocal: a closure created after that binding sees this value whenever it is called"""
        cache = fnode.__dict__.setdefault("_pyvc_bound_once", {})
        if name in cache:
            return cache[name]
        count = 0
        args = getattr(fnode, "args", None)
        if args is not None:
            allargs = list(args.posonlyargs) + list(args.args) + list(args.kwonlyargs) + [a for a in (args.vararg, args.kwarg) if a]
            count += sum(1 for a in allargs if a.arg == name)
        ok = True

        def walk(n, in_loop):
            nonlocal count, ok
            for c in ast.iter_child_nodes(n):
                if isinstance(c, (ast.FunctionDef, ast.AsyncFunctionDef, ast.ClassDef)):
                    if c.name == name:
                        count += 1
                        ok = ok and not in_loop
                    continue
                if isinstance(c, ast.Lambda):
                    continue
                if isinstance(c, ast.Name) and c.id == name and isinstance(c.ctx, (ast.Store, ast.Del)):
                    count += 1
                    ok = ok and not in_loop and isinstance(c.ctx, ast.Store)
                if isinstance(c, (ast.Global, ast.Nonlocal)) and name in c.names:
                    ok = False
                if isinstance(c, ast.ExceptHandler) and c.name == name:
                    ok = False
                if isinstance(c, (ast.Import, ast.ImportFrom)) and any((a.asname or a.name.split(".")[0]) == name for a in c.names):
                    count += 1
                walk(c, in_loop or isinstance(c, (ast.For, ast.While, ast.AsyncFor, ast.ListComp, ast.SetComp, ast.DictComp, ast.GeneratorExp)))

        if isinstance(fnode, ast.Lambda):
            r = count <= 1
        else:
            walk(fnode, False)
            r = ok and count <= 1
        cache[name] = r
        return r

    def _new_closure(self, fv, st):
        """record where a lambda / nested def was created and evaluate its parameter defaults NOW (CPython evaluates them
        when the def / lambda expression is executed, once)"""
        fr = st.frame
        fr.has_closures = True
        fv.def_fid = fr.fid
        fv.def_func = fr.func
        names = st.ghost.get("__comp_names__")
        if names:
            fv.comp_snapshot = {n: fr.vars[n] for n in names if n in fr.vars}
        a = fv.node.args
        fv.defaults = {}
        for d in list(a.defaults) + [d for d in a.kw_defaults if d is not None]:
            outs = list(self.ev(d, st))
            if len(outs) != 1 or isinstance(outs[0][1], Exc) or outs[0][0] is not st:
                raise Unsupported("default argument expression of a nested function forks or raises")
            fv.defaults[id(d)] = outs[0][1]
        return fv

    # ------------------------------------------------------------------ classes
    def bases(self, cls):
        if isinstance(cls, BuiltinClass):
            py = cls.pyobj
            if isinstance(py, type):
                return [BuiltinClass(b.__name__, b) for b in py.__bases__]
            return []
        out = []
        for b in cls.node.bases:
            if self._is_typing_generic(b):
                continue  # typing.Generic[T]: only typing machinery (__class_getitem__), no attributes the code can reach
            try:
                st = St()
                st.frames.append(Frame({}, None, cls.module))
                outs = list(self.ev(b, st))
                v = outs[0][1] if len(outs) == 1 else None
            except (Unsupported, KeyError):
                v = None
            if isinstance(v, (ClassVal, BuiltinClass)):
                out.append(v)
            else:
                out.append(BuiltinClass("<unresolved-base>"))
        return out

    @staticmethod
    def _is_typing_generic(b):
        if not isinstance(b, ast.Subscript):
            return False
        v = b.value
        return (isinstance(v, ast.Attribute) and v.attr == "Generic" and isinstance(v.value, ast.Name) and v.value.id == "typing") or (
            isinstance(v, ast.Name) and v.id == "Generic"
        )

    def dataclass_fields(self, cls):
        """None if cls is not a plain `@dataclass` class; else [(name, default-expr | None, kind)] in declaration order.
        Only the plain decorator (no arguments), no dataclass bases, no ClassVar/InitVar, no __post_init__."""
        if not isinstance(cls, ClassVal):
            return None
        decs = cls.node.decorator_list
        isdc = [
            (isinstance(d, ast.Attribute) and d.attr == "dataclass" and isinstance(d.value, ast.Name) and d.value.id == "dataclasses")
            or (isinstance(d, ast.Name) and d.id == "dataclass")
            for d in decs
        ]
        if not any(isdc):
            if any(isinstance(d, ast.Call) and "dataclass" in ast.unparse(d.func) for d in decs):
                raise Unsupported("@dataclass(...) with arguments")
            return None
        if len(decs) != 1:
            raise Unsupported("dataclass with further decorators")
        if any(isinstance(c, ClassVal) for c in self.mro(cls)[1:]):
            raise Unsupported("dataclass with user-defined base classes")
        fields = []
        for n in cls.node.body:
            if isinstance(n, ast.FunctionDef) and n.name in ("__post_init__", "__init__"):
                raise Unsupported("dataclass with __post_init__ / explicit __init__")
            if not (isinstance(n, ast.AnnAssign) and isinstance(n.target, ast.Name)):
                continue
            ann = ast.unparse(n.annotation)
            if "ClassVar" in ann or "InitVar" in ann:
                raise Unsupported("dataclass ClassVar / InitVar")
            v = n.value
            kind = "value"
            if isinstance(v, ast.Call) and ast.unparse(v.func) in ("dataclasses.field", "field"):
                if v.args or len(v.keywords) != 1 or v.keywords[0].arg not in ("default", "default_factory"):
                    raise Unsupported("dataclasses.field(...) other than default= / default_factory=")
                kind = "value" if v.keywords[0].arg == "default" else "factory"
                v = v.keywords[0].value
            fields.append((n.target.id, v, kind))
        return fields

    def instantiate_dataclass(self, cls, fields, obj, args, kwargs, st):
        """the __init__ that @dataclass generates: positional / keyword arguments in field order, then defaults"""
        if len(args) > len(fields):
            yield st, Exc(ExcVal(BuiltinClass("TypeError", TypeError), ("too many positional arguments",)))
            return
        kwargs = dict(kwargs)
        vals = {}
        for i, (name, dflt, kind) in enumerate(fields):
            if i < len(args):
                if name in kwargs:
                    yield st, Exc(ExcVal(BuiltinClass("TypeError", TypeError), ("multiple values for " + name,)))
                    return
                vals[name] = args[i]
            elif name in kwargs:
                vals[name] = kwargs.pop(name)
            elif dflt is None:
                yield st, Exc(ExcVal(BuiltinClass("TypeError", TypeError), ("missing argument " + name,)))
                return
            else:
                st0 = St()
                st0.nid = st.nid
                st0.frames.append(Frame({}, None, cls.module))
                outs = list(self.ev(dflt, st0))
                if len(outs) != 1 or isinstance(outs[0][1], Exc) or isinstance(outs[0][1], Ref):
                    raise Unsupported("dataclass field default")
                v = outs[0][1]
                if kind == "factory":
                    outs = list(self.call(v, [], {}, st))
                    if len(outs) != 1 or isinstance(outs[0][1], Exc) or outs[0][0] is not st:
                        raise Unsupported("dataclass default_factory")
                    v = outs[0][1]
                vals[name] = v
        if kwargs:
            yield st, Exc(ExcVal(BuiltinClass("TypeError", TypeError), ("unexpected keyword %s" % list(kwargs),)))
            return
        st.get(obj).attrs.update(vals)
        if not hasattr(self, "_dataclass_refs"):
            self._dataclass_refs = set()
        self._dataclass_refs.add(obj.id)
        yield st, obj

    def mro(self, cls):
        k = ("mro", id(getattr(cls, "node", None)) if isinstance(cls, ClassVal) else cls.name)
        if k in self._class_cache:
            return self._class_cache[k]
        if isinstance(cls, ClassVal):
            for d in cls.node.decorator_list:
                nm = d.func if isinstance(d, ast.Call) else d
                nm = nm.attr if isinstance(nm, ast.Attribute) else getattr(nm, "id", None)
                if nm not in ("dataclass", "unique", "total_ordering", "runtime_checkable", "final"):
                    # CPython binds the class name to decorator(class); an ignored decorator would be a different class
                    raise Unsupported("class decorator %s on %s" % (nm, cls.name))
        # C3 linearisation (what type.mro() computes): merge of the bases' linearisations and the list of bases, always taking
        # the first head that is in no tail.  (A "move repeated classes to the end" approximation differs from C3, e.g. for
        # A(B, C), B(D, E), C(D, F): C3 gives A B C D E F, not A B E C D F.)
        bases = list(self.bases(cls))
        seqs = [list(self.mro(b)) for b in bases] + [bases]
        out = [cls]
        while True:
            seqs = [q for q in seqs if q]
            if not seqs:
                break
            for q in seqs:
                h = q[0]
                if not any(h in r[1:] for r in seqs):
                    break
            else:
                raise Unsupported("inconsistent method resolution order for %s (TypeError in CPython)" % cls.name)
            out.append(h)
            for q in seqs:
                if q[0] == h:
                    del q[0]
        self._class_cache[k] = out
        return out

    def class_members(self, cls):
        if cls._members is None:
            m = {}
            for n in cls.node.body:
                if isinstance(n, ast.FunctionDef):
                    if n.name in m and isinstance(m[n.name], FuncVal):
                        # property setter etc.: keep the getter (first), remember setter
                        decs = [getattr(d, "attr", None) for d in n.decorator_list]
                        if "setter" in decs:
                            m[n.name + ".setter"] = FuncVal(n, cls.module, cls)
                            continue
                        if "deleter" in decs:
                            # @x.deleter def x(self): the property keeps its getter (and setter) and gains a deleter
                            m[n.name + ".deleter"] = FuncVal(n, cls.module, cls)
                            continue
                        if "getter" in decs:
                            raise Unsupported("@%s.getter" % n.name)
                    m[n.name] = FuncVal(n, cls.module, cls)
                elif isinstance(n, ast.Assign):
                    for t in n.targets:
                        if isinstance(t, ast.Name):
                            m[t.id] = ("expr", n.value)
                elif isinstance(n, ast.AnnAssign) and isinstance(n.target, ast.Name) and n.value is not None:
                    m[n.target.id] = ("expr", n.value)
                elif isinstance(n, ast.ClassDef):
                    m[n.name] = self.class_val(n, cls.module)
            cls._members = m
        return cls._members

    def class_lookup(self, cls, name, start_after=None):
        """-> (value, defining class) or (None, None)"""
        if name in ("__eq__", "__ne__", "__hash__", "__repr__", "__str__", "__lt__", "__le__", "__gt__", "__ge__") and isinstance(cls, ClassVal):
            if self.dataclass_fields(cls) is not None and name not in self.class_members(cls):
                raise Unsupported("method %s generated by @dataclass" % name)
        seen_start = start_after is None
        for c in self.mro(cls):
            if not seen_start:
                if c == start_after:
                    seen_start = True
                continue
            if isinstance(c, ClassVal):
                m = self.class_members(c)
                if name in m:
                    v = m[name]
                    if isinstance(v, tuple) and len(v) == 2 and v[0] == "expr" and isinstance(v[1], ast.AST):
                        v = self.eval_class_const(c, name, v[1])
                        m[name] = v
                    return v, c
            elif isinstance(c, BuiltinClass):
                if c.name == "<unresolved-base>":
                    raise Unsupported("attribute %s looked up through an unresolved base class of %s" % (name, cls.name))
                continue
        return None, None

    def eval_class_const(self, cls, name, expr):
        st = St()
        # class body names are visible while evaluating
        st.frames.append(Frame({}, None, cls.module))
        fr = st.frame
        for k, v in self.class_members(cls).items():
            if k == name:
                break
            if isinstance(v, tuple) and len(v) == 2 and v[0] == "expr" and isinstance(v[1], ast.AST):
                # an EARLIER class-level assignment: a class body runs top to bottom, so its value is visible here
                # (e.g. `uFracDefault = 1.0 - zrFracDefault`, `(_densityTableK[0], _densityTableK[-1])`, `__meltingPoint`);
                # evaluated on demand and memoised like class_lookup does (recursion only goes to earlier members)
                v = self.eval_class_const(cls, k, v[1])
                self.class_members(cls)[k] = v
            fr.vars[k] = v
        try:
            outs = list(self.ev(expr, st))
        except Unsupported as e:
            return Unknown("class constant %s.%s (%s)" % (cls.name, name, e))
        if len(outs) != 1 or isinstance(outs[0][1], Exc):
            return Unknown("class constant %s.%s" % (cls.name, name))
        return self.freeze(outs[0][1], outs[0][0])

    def is_subclass(self, cls, other):
        if isinstance(other, tuple):
            return any(self.is_subclass(cls, o) for o in other)
        for c in self.mro(cls):
            if c == other:
                return True
            if isinstance(c, BuiltinClass) and isinstance(other, BuiltinClass) and c.pyobj is not None and other.pyobj is not None:
                try:
                    if issubclass(c.pyobj, other.pyobj):
                        return True
                except TypeError:
                    pass
        return False

    def is_exception_class(self, cls):
        return self.is_subclass(cls, BuiltinClass("BaseException", BaseException))

    # ------------------------------------------------------------------ expression evaluation
    def ev(self, node, st):
        m = getattr(self, "ev_" + type(node).__name__, None)
        if m is None:
            raise Unsupported("expression %s at line %s" % (type(node).__name__, getattr(node, "lineno", "?")))
        return m(node, st)

    def ev_many(self, nodes, st):
        """yield (st, [vals]) or (st, Exc)"""
        if not nodes:
            yield st, []
            return
        for st1, v in list(self.ev(nodes[0], st)):
            if isinstance(v, Exc):
                yield st1, v
                continue
            for st2, rest in self.ev_many(nodes[1:], st1):
                if isinstance(rest, Exc):
                    yield st2, rest
                else:
                    yield st2, [v] + rest

    def ev_Constant(self, node, st):
        v = node.value
        if isinstance(v, float):
            v = to_frac(v)
        elif isinstance(v, complex):
            raise Unsupported("complex constant")
        yield st, v

    # closures --------------------------------------------------------------------
    def _scope_info(self, func):
        """static facts about a function body (cached per node): (names local to the body, names mentioned in nested
        functions / lambdas = possible cell variables, names declared nonlocal)"""
        node = getattr(func, "node", None)
        if node is None:
            return frozenset(), frozenset(), frozenset()
        c = node.__dict__.get("_pyvc_scope")
        if c is not None:
            return c
        local, inner, nonl, glob = set(), set(), set(), set()
        a = node.args
        for x in a.posonlyargs + a.args + a.kwonlyargs + ([a.vararg] if a.vararg else []) + ([a.kwarg] if a.kwarg else []):
            local.add(x.arg)

        def targets(t):
            if isinstance(t, ast.Name):
                local.add(t.id)
            elif isinstance(t, (ast.Tuple, ast.List)):
                for e in t.elts:
                    targets(e)
            elif isinstance(t, ast.Starred):
                targets(t.value)

        def walk(n, incomp):
            if isinstance(n, (ast.FunctionDef, ast.AsyncFunctionDef, ast.ClassDef)):
                local.add(n.name)
                for d in n.decorator_list:
                    walk(d, incomp)
                if not isinstance(n, ast.ClassDef):
                    for d in n.args.defaults + [k for k in n.args.kw_defaults if k is not None]:
                        walk(d, incomp)
                for sub in ast.walk(n):
                    if isinstance(sub, ast.Name):
                        inner.add(sub.id)
                    elif isinstance(sub, ast.Nonlocal):
                        inner.update(sub.names)
                return
            if isinstance(n, ast.Lambda):
                for d in n.args.defaults + [k for k in n.args.kw_defaults if k is not None]:
                    walk(d, incomp)
                for sub in ast.walk(n):
                    if isinstance(sub, ast.Name):
                        inner.add(sub.id)
                return
            if isinstance(n, ast.Global):
                glob.update(n.names)
            elif isinstance(n, ast.Nonlocal):
                nonl.update(n.names)
            elif isinstance(n, ast.Name) and isinstance(n.ctx, (ast.Store, ast.Del)) and not incomp:
                local.add(n.id)
            elif isinstance(n, ast.NamedExpr):
                targets(n.target)  # binds in the enclosing function even inside a comprehension
            elif isinstance(n, (ast.Import, ast.ImportFrom)):
                for al in n.names:
                    local.add(al.asname or al.name.split(".")[0])
            elif isinstance(n, ast.ExceptHandler) and n.name:
                local.add(n.name)
            elif isinstance(n, (ast.MatchAs, ast.MatchStar)) and n.name:
                local.add(n.name)
            elif isinstance(n, ast.MatchMapping) and n.rest:
                local.add(n.rest)
            if isinstance(n, (ast.ListComp, ast.SetComp, ast.DictComp, ast.GeneratorExp)):
                # a comprehension is a scope of its own: its targets are not locals of the function
                for sub in ast.iter_child_nodes(n):
                    walk(sub, True)
                return
            for sub in ast.iter_child_nodes(n):
                walk(sub, incomp)

        body = node.body if isinstance(node.body, list) else [node.body]
        for stmt in body:
            walk(stmt, False)
        local -= glob
        local -= nonl
        c = node._pyvc_scope = (frozenset(local), frozenset(inner), frozenset(nonl))
        return c

    def local_names(self, func):
        return self._scope_info(func)[0]

    def ev_Name(self, node, st):
        try:
            yield st, self.lookup(node.id, st)
        except _NameErr as e:
            yield st, Exc(ExcVal(BuiltinClass(e.cls, getattr(_pybuiltins, e.cls)), (str(e),)))

    def ev_Tuple(self, node, st):
        if any(isinstance(e, ast.Starred) for e in node.elts):
            yield from self._ev_starred_seq(node.elts, st, tuple)
            return
        for st1, vs in self.ev_many(node.elts, st):
            yield st1, (vs if isinstance(vs, Exc) else tuple(vs))

    def ev_List(self, node, st):
        if any(isinstance(e, ast.Starred) for e in node.elts):
            yield from self._ev_starred_seq(node.elts, st, list)
            return
        for st1, vs in self.ev_many(node.elts, st):
            if isinstance(vs, Exc):
                yield st1, vs
            else:
                yield st1, st1.alloc(ListE(vs))

    def _ev_starred_seq(self, elts, st, kind):
        plain = [e.value if isinstance(e, ast.Starred) else e for e in elts]
        for st1, vs in self.ev_many(plain, st):
            if isinstance(vs, Exc):
                yield st1, vs
                continue
            out = []
            for e, v in zip(elts, vs):
                if isinstance(e, ast.Starred):
                    out.extend(self.iterate(v, st1))
                else:
                    out.append(v)
            yield st1, (tuple(out) if kind is tuple else st1.alloc(ListE(out)))

    def ev_Set(self, node, st):
        for st1, vs in self.ev_many(node.elts, st):
            if isinstance(vs, Exc):
                yield st1, vs
            else:
                items = []
                for v in vs:
                    self.set_elem(st1, v, items)
                    if v not in items:
                        items.append(v)
                yield st1, st1.alloc(SetE(items))

    def _ev_dict_unpacking(self, node, st):
        """{k: v, **m, ...}: items are evaluated left to right, a later key replaces an earlier equal one; `**m` needs a mapping
        (dict, or an object read through keys() and m[k] - CPython's PyDict_Update).  Only concrete, plainly hashable keys."""
        from .attrs import _mapping_or_pairs
        from . import keyed

        def step(st1, i, acc):
            if i == len(node.keys):
                yield st1, st1.alloc(DictE(dict(acc)))
                return
            kn, vn = node.keys[i], node.values[i]
            if kn is None:
                for st2, m in self.ev(vn, st1):
                    if isinstance(m, Exc):
                        yield st2, m
                        continue
                    if isinstance(m, Ref) and st2.get(m).kind == "dict":
                        pairs = list(st2.get(m).items.items())
                    elif isinstance(m, Ref) and st2.get(m).kind == "obj":
                        outs = list(self.getattr(m, "keys", st2))
                        if len(outs) != 1 or isinstance(outs[0][1], Exc) or outs[0][0] is not st2:
                            raise Unsupported("dict unpacking of an object without a plain keys()")
                        pairs = _mapping_or_pairs(self, st2, m)
                    else:
                        raise Unsupported("dict unpacking of %r" % (m,))
                    acc2 = list(acc)
                    for kk, vv in pairs:
                        if is_z3(kk) or keyed.is_special(self, st2, kk):
                            raise Unsupported("dict unpacking with symbolic / user-compared keys")
                        kk = self.hashable(kk)
                        acc2 = _put(acc2, kk, vv)
                    yield from step(st2, i + 1, acc2)
                return
            for st2, kk in self.ev(kn, st1):
                if isinstance(kk, Exc):
                    yield st2, kk
                    continue
                for st3, vv in self.ev(vn, st2):
                    if isinstance(vv, Exc):
                        yield st3, vv
                        continue
                    if is_z3(kk) or keyed.is_special(self, st3, kk):
                        raise Unsupported("dict unpacking with symbolic / user-compared keys")
                    yield from step(st3, i + 1, _put(list(acc), self.hashable(kk), vv))

        def _put(acc, kk, vv):
            # python dict: an existing key keeps its position and takes the new value
            for j, (a, _) in enumerate(acc):
                if a == kk:
                    acc[j] = (a, vv)
                    return acc
            acc.append((kk, vv))
            return acc

        yield from step(st, 0, [])

    def ev_Dict(self, node, st):
        if any(k is None for k in node.keys):
            yield from self._ev_dict_unpacking(node, st)
            return
        # CPython evaluates a dict display entry by entry: key1, value1, key2, value2, ... (not all keys, then all values)
        inter = [n for kv in zip(node.keys, node.values) for n in kv]
        for st1, kvs in self.ev_many(inter, st):
            if isinstance(kvs, Exc):
                yield st1, kvs
                continue
            ks, vs = kvs[0::2], kvs[1::2]
            for st2 in (st1,):
                from . import keyed

                if any(not is_z3(k) and keyed.is_special(self, st2, k) for k in ks):
                    # keys with user-defined == / symbolic tuples: insert one at a time (an equal earlier key is overwritten)
                    ref = st2.alloc(DictE({}))

                    def put(st3, i):
                        if i == len(ks):
                            yield st3, ref
                            return
                        for st4, r in self.models.setitem(self, st3, ref, ks[i], vs[i]):
                            if isinstance(r, Exc):
                                yield st4, r
                            else:
                                yield from put(st4, i + 1)

                    yield from put(st2, 0)
                    continue
                d = {}
                for k, v in zip(ks, vs):
                    d[self.hashable(k)] = v
                yield st2, st2.alloc(DictE(d))

    def set_elem(self, st, x, items=None):
        """element of a builtin set: CPython treats x and an element y as the same iff they are identical, or their hashes
        are equal and x == y.  The model keeps set elements apart by identity.  For objects with a user-defined __eq__ that
        is the same answer exactly when x is identical to an element or `==` (the objects' own __eq__, run here) says False
        for every other element - whatever the hashes are.  `items`: the elements x is looked up among; anything else
        (an equal but distinct element: the hashes would decide; a forking / raising __eq__) is refused."""
        from . import keyed

        if keyed._has_user_eq(self, st, x) or (items is not None and any(keyed._has_user_eq(self, st, y) for y in items)):
            if items is None or isinstance(x, tuple) or any(isinstance(y, tuple) for y in items):
                raise Unsupported("object with a user-defined __eq__ as element of a set")
            for y in items:
                if isinstance(x, Ref) and isinstance(y, Ref) and x.id == y.id:
                    continue
                outs = list(self.models.compare(self, st, "Eq", x, y))
                if len(outs) == 1 and outs[0][0] is st and is_z3(outs[0][1]) and z3.is_bool(outs[0][1]) and not self.feasible(st, outs[0][1]):
                    continue  # unequal on every input of this path
                if len(outs) != 1 or outs[0][0] is not st or outs[0][1] is not False:
                    raise Unsupported("set lookup among objects with a user-defined __eq__ that are (possibly) equal but not identical")
        return self.hashable(x)

    def hashable(self, k):
        if is_z3(k) or isinstance(k, Ref):
            if isinstance(k, Ref):
                if k.id in getattr(self, "_dataclass_refs", ()):
                    raise Unsupported("dataclass instance as dictionary / set key (generated __eq__ / __hash__)")
                return k  # identity-hashed object
            raise Unsupported("symbolic dictionary/set key")
        if isinstance(k, tuple):
            for x in k:
                self.hashable(x)
        return k

    def ev_JoinedStr(self, node, st):
        parts = [v.value if isinstance(v, ast.FormattedValue) else v for v in node.values]
        for st1, vs in self.ev_many(parts, st):
            if isinstance(vs, Exc):
                yield st1, vs
                continue
            if all(isinstance(v, (str, int, Fraction, bool, type(None))) for v in vs) and not any(
                isinstance(n, ast.FormattedValue) and n.format_spec is not None for n in node.values
            ):
                yield st1, "".join(str(self.py_for_str(v)) for v in vs)
            elif all(isinstance(v, (str, int, Fraction, bool, type(None))) for v in vs) and all(
                not isinstance(n, ast.FormattedValue)
                or n.format_spec is None
                or (n.conversion == -1 and all(isinstance(c, ast.Constant) and isinstance(c.value, str) for c in n.format_spec.values))
                for n in node.values
            ):
                # concrete values with literal format specs (f"{i:03d}"): format() of the concrete value
                out = []
                try:
                    for n, v in zip(node.values, vs):
                        if isinstance(n, ast.FormattedValue) and n.format_spec is not None:
                            spec = "".join(c.value for c in n.format_spec.values)
                            out.append(format(self.py_for_str(v), spec))
                        else:
                            out.append(str(self.py_for_str(v)))
                except (ValueError, TypeError) as e:
                    yield st1, Exc(ExcVal(BuiltinClass(type(e).__name__, type(e)), (str(e),)))
                    continue
                yield st1, "".join(out)
            else:
                yield st1, self._fstring_symbolic(node, vs)

    def _fstring_symbolic(self, node, vs):
        """f-string with symbolic int fields (specs as in values.fmt_int_field) -> FmtStr; anything else: uninterpreted"""
        from .values import FmtStr, fmt_int_field, build_fmtstr

        parts = []
        for n, v in zip(node.values, vs):
            if not isinstance(n, ast.FormattedValue):
                if not isinstance(v, str):
                    return Opaque("fstring")
                parts.append(("lit", v))
                continue
            spec = ""
            if n.format_spec is not None:
                if not all(isinstance(x, ast.Constant) and isinstance(x.value, str) for x in n.format_spec.values):
                    return Opaque("fstring")
                spec = "".join(x.value for x in n.format_spec.values)
            if n.conversion != -1:
                return Opaque("fstring")
            v = as_arith(v) if not isinstance(v, str) else v
            if isinstance(v, str):
                try:
                    parts.append(("lit", format(v, spec)))
                except ValueError:
                    return Opaque("fstring")
            elif isinstance(v, FmtStr) and not spec:
                parts.extend(v.parts)
            elif (isinstance(v, int) and not isinstance(v, bool)) or (is_z3(v) and z3.is_int(v)):
                p = fmt_int_field(v, spec)
                if p is None:
                    return Opaque("fstring")
                parts.append(p)
            else:
                return Opaque("fstring")
        return build_fmtstr(parts)

    def py_for_str(self, v):
        if isinstance(v, Fraction):
            return float(v)
        return v

    def ev_Lambda(self, node, st):
        fv = FuncVal(node, st.frame.module, st.frame.cls, closure=self.closure_of(st), name="<lambda>")
        fv.lexcls = self.lexical_class_name(st)
        yield st, self._new_closure(fv, st)

    def closure_of(self, st):
        """snapshot of the enclosing variables at definition time: only the fallback of closure_lookup (which reads the
        live variables of the defining activation) and the namespace in which default expressions are evaluated"""
        c = {}
        f = st.frame
        if f.func is not None and f.func.closure:
            c.update(f.func.closure)
        c.update(f.vars)
        return c

    def ev_IfExp(self, node, st):
        for st1, c in list(self.ev(node.test, st)):
            if isinstance(c, Exc):
                yield st1, c
                continue
            t = self.truth(c, st1)
            if not is_z3(t):
                yield from self.ev(node.body if t else node.orelse, st1)
                continue
            # try to merge into an If-term when both arms are simple scalars
            merged = self._try_merge_ifexp(node, st1, t)
            if merged is not None:
                yield merged
                continue
            for st2, b in self.branch(st1, t):
                yield from self.ev(node.body if b else node.orelse, st2)

    def _try_merge_ifexp(self, node, st, t):
        if not (self.feasible(st, t) and self.feasible(st, z3.Not(t))):
            return None
        ra = self.try_eval_single(node.body, st, t)
        if ra is None:
            return None
        rb = self.try_eval_single(node.orelse, st, z3.Not(t))
        if rb is None:
            return None
        r = self.ite(t, ra[0], rb[0])
        if r is None:
            return None
        for c in ra[1]:
            st.pc.append(z3.Implies(t, c))
        for c in rb[1]:
            st.pc.append(z3.Implies(z3.Not(t), c))
        return st, r

    def try_eval_single(self, node, st, guard):
        """Evaluate node under an extra assumption on a scratch copy.  -> (value, added constraints) when there is
        exactly one outcome, it does not raise and it does not change pre-existing store entries; else None."""
        trial = st.fork()
        trial.pc.append(guard)
        n0 = len(trial.pc)
        try:
            outs = list(self.ev(node, trial))
        except Unsupported:
            return None
        if len(outs) != 1 or isinstance(outs[0][1], Exc):
            return None
        st2, v = outs[0]
        if isinstance(v, Ref) or not self._same_store(st, st2):
            return None
        return v, st2.pc[n0:]

    def _simple_expr(self, node):
        for n in ast.walk(node):
            if isinstance(n, (ast.Call, ast.Lambda, ast.ListComp, ast.GeneratorExp, ast.DictComp, ast.SetComp, ast.List, ast.Dict, ast.Set, ast.Subscript, ast.Attribute, ast.Div, ast.FloorDiv, ast.Mod)):
                return False
        return True

    def ite(self, c, a, b):
        """Merge two values under condition c, or None if shapes differ."""
        if isinstance(a, tuple) and isinstance(b, tuple) and len(a) == len(b):
            out = []
            for x, y in zip(a, b):
                r = self.ite(c, x, y)
                if r is None:
                    return None
                out.append(r)
            return tuple(out)
        if (is_z3(a) or isinstance(a, (int, Fraction, bool))) and (is_z3(b) or isinstance(b, (int, Fraction, bool))):
            if a is b:
                return a
            if not is_z3(a) and not is_z3(b) and a == b and type(a) is type(b):
                return a
            if is_boollike(a) != is_boollike(b):
                return None
            if is_intlike(a) != is_intlike(b):
                # an int and a float: `1 if c else 2.5` has a different TYPE on the two arms (isinstance, //, str differ);
                # one merged real term would make it a float on both - not merged, the caller splits the path
                return None
            za, zb, _ = coerce_pair(a, b) if not is_boollike(a) else (z3val(a), z3val(b), True)
            za, zb = z3val(za), z3val(zb)
            if za.sort() != zb.sort():
                if z3.is_int(za) and z3.is_real(zb):
                    za = z3.ToReal(za)
                elif z3.is_real(za) and z3.is_int(zb):
                    zb = z3.ToReal(zb)
                else:
                    return None
            return z3.If(c, za, zb)
        return None

    def ev_BoolOp(self, node, st):
        is_and = isinstance(node.op, ast.And)
        yield from self._boolop(node.values, st, is_and)

    def _boolop(self, values, st, is_and):
        first, rest = values[0], values[1:]
        for st1, v in list(self.ev(first, st)):
            if isinstance(v, Exc) or not rest:
                yield st1, v
                continue
            t = self.truth(v, st1)
            if not is_z3(t):
                if bool(t) == is_and:
                    yield from self._boolop(rest, st1, is_and)
                else:
                    yield st1, v
                continue
            # symbolic: try to merge (right side evaluated under the assumption it is reached)
            guard = t if is_and else z3.Not(t)
            if not self.feasible(st1, guard):
                yield st1, v
                continue
            if not self.feasible(st1, z3.Not(guard)):
                st1.pc.append(guard)
                yield from self._boolop(rest, st1, is_and)
                continue
            trial = st1.fork()
            trial.pc.append(guard)
            n0 = len(trial.pc)
            outs = list(self._boolop(rest, trial, is_and))
            if len(outs) == 1 and not isinstance(outs[0][1], Exc) and self._same_store(st1, outs[0][0]):
                st2, rv = outs[0]
                rt = self.truth(rv, st2) if not is_boollike(rv) else rv
                if is_boollike(v) and is_boollike(rv):
                    added = st2.pc[n0:]
                    for c in added:
                        st1.pc.append(z3.Implies(guard, c))
                    rz = z3val(rv)
                    yield st1, (z3.And(t, rz) if is_and else z3.Or(t, rz))
                    continue
            # general case: fork
            stA = st1.fork()
            stA.pc.append(z3.Not(guard))
            yield stA, v
            for o in outs:
                yield o

    def _same_store(self, a, b, taken=None):
        if a.store.keys() != b.store.keys():
            # allocations are fine as long as old entries are unchanged
            pass
        for k, e in a.store.items():
            f = b.store.get(k)
            if f is None:
                return False
            if e.kind != f.kind:
                return False
            if e.__class__ is DictViewE:
                continue  # derived data: recomputed from its dictionary at every access (St.get)
            if taken is not None and e.__class__ is IterE and not e.consumed and f.consumed and not f.items:
                taken.append(f)  # an iterator object that was run to its end in between (see _unchanged)
                continue
            if e.kind in ("list", "deque", "set", "numset"):
                if len(e.items) != len(f.items) or any(x is not y for x, y in zip(e.items, f.items)):
                    return False
            elif e.kind == "dict":
                if e.items.keys() != f.items.keys() or any(e.items[k2] is not f.items[k2] for k2 in e.items):
                    return False
            elif e.kind == "obj":
                if e.attrs.keys() != f.attrs.keys() or any(e.attrs[k2] is not f.attrs[k2] for k2 in e.attrs):
                    return False
            elif e.kind == "nd":
                if any(x is not y for x, y in zip(e.data, f.data)):
                    return False
            elif e.kind == "symlist":
                if e.length is not f.length or e.arr is not f.arr:
                    return False
        if a.heap.keys() != b.heap.keys() or any(a.heap[k] is not b.heap[k] for k in a.heap):
            return False
        return True

    def ev_UnaryOp(self, node, st):
        for st1, v in list(self.ev(node.operand, st)):
            if isinstance(v, Exc):
                yield st1, v
                continue
            if isinstance(node.op, ast.Not):
                t = self.truth(v, st1)
                yield st1, (z3.Not(t) if is_z3(t) else (not t))
            elif isinstance(node.op, ast.USub):
                yield st1, self.models.neg(self, st1, v)
            elif isinstance(node.op, ast.UAdd):
                yield st1, v
            else:
                from . import ops as _ops

                yield st1, _ops.invert(self, st1, v)

    def ev_BinOp(self, node, st):
        for st1, vs in self.ev_many([node.left, node.right], st):
            if isinstance(vs, Exc):
                yield st1, vs
                continue
            yield from self.models.binop(self, st1, type(node.op).__name__, vs[0], vs[1])

    def ev_Compare(self, node, st):
        # a < b <= c : evaluate operands left to right; all operands here are evaluated eagerly
        # (python would short-circuit; operands with side effects in chains are outside the subset).
        operands = [node.left] + list(node.comparators)
        if len(operands) > 2 and not all(self._pure_expr(o) for o in operands[2:]):  # the first two are always evaluated
            yield from self._compare_chain_lazy(st, node.ops, operands)
            return
        for st1, vs in self.ev_many(operands, st):
            if isinstance(vs, Exc):
                yield st1, vs
                continue
            yield from self._compare_chain(st1, node.ops, vs)

    def _compare_chain_lazy(self, st, ops, operands):
        """a op1 b op2 c ... with operands that may call functions: Python's own order - each operand is evaluated once,
        and only if all comparisons before it were true (a symbolic comparison result forks the path)."""

        def rec(st, k, left):
            # left = value of operand k; compare it with operand k+1
            for st1, right in list(self.ev(operands[k + 1], st)):
                if isinstance(right, Exc):
                    yield st1, right
                    continue
                for st2, r in self.models.compare(self, st1, type(ops[k]).__name__, left, right):
                    if isinstance(r, Exc):
                        yield st2, r
                        continue
                    t = self.truth(r, st2)
                    if k + 1 == len(ops):
                        yield st2, t
                        continue
                    if is_z3(t) and self.feasible(st2, t) and self.feasible(st2, z3.Not(t)) and not any(
                            isinstance(n, ast.NamedExpr) for o in operands[k + 2:] for n in ast.walk(o)):
                        # no fork when the rest of the chain, evaluated under the assumption that it is reached, has one
                        # outcome, does not raise and changes nothing: the chain is then the conjunction
                        trial = st2.fork()
                        trial.pc.append(t)
                        n0 = len(trial.pc)
                        try:
                            outs = list(rec(trial, k + 1, right))
                        except Unsupported:
                            outs = []
                        if (len(outs) == 1 and not isinstance(outs[0][1], Exc) and is_boollike(outs[0][1])
                                and self._same_store(st2, outs[0][0])):
                            for c in outs[0][0].pc[n0:]:
                                st2.pc.append(z3.Implies(t, c))
                            yield st2, z3.And(t, z3val(outs[0][1]))
                            continue
                    for st3, b in self.branch(st2, t):
                        if b:
                            yield from rec(st3, k + 1, right)
                        else:
                            yield st3, False

        for st0, first in list(self.ev(operands[0], st)):
            if isinstance(first, Exc):
                yield st0, first
            else:
                yield from rec(st0, 0, first)

    def _pure_expr(self, node):
        # operands of a comparison CHAIN that may be evaluated eagerly although CPython evaluates them only when every
        # earlier comparison was true: only expressions that can neither raise nor have an effect (names, constants,
        # + - * and unary operators on them).  Subscripts, attributes (properties), division ... take the lazy route.
        for n in ast.walk(node):
            if not isinstance(n, (ast.Name, ast.Constant, ast.BinOp, ast.UnaryOp, ast.Add, ast.Sub, ast.Mult, ast.USub, ast.UAdd,
                                  ast.Not, ast.Load, ast.Tuple)):
                return False
        return True

    def _compare_chain(self, st, ops, vs):
        results = [[]]
        # each comparison may itself fork (object __eq__/__lt__); in practice single outcome
        def rec(st, k, acc):
            if k == len(ops):
                yield st, acc
                return
            for st1, r in self.models.compare(self, st, type(ops[k]).__name__, vs[k], vs[k + 1]):
                if isinstance(r, Exc):
                    yield st1, r
                    continue
                yield from rec(st1, k + 1, acc + [r])

        for st1, acc in rec(st, 0, []):
            if isinstance(acc, Exc):
                yield st1, acc
                continue
            if len(acc) == 1:
                yield st1, acc[0]
                continue
            if any(r is False for r in acc if not is_z3(r)):
                yield st1, False
                continue
            zs = [z3val(self.truth(r, st1)) for r in acc if is_z3(r) or r is not True]
            zs = [z for z in zs]
            if not zs:
                yield st1, True
            else:
                yield st1, z3.And(*zs) if len(zs) > 1 else zs[0]

    def ev_Attribute(self, node, st):
        for st1, v in list(self.ev(node.value, st)):
            if isinstance(v, Exc):
                yield st1, v
                continue
            yield from self.getattr(v, self.mangle(node.attr, st1), st1)

    def lexical_class_name(self, st):
        """name of the class whose body lexically encloses the code being executed (for private-name mangling)"""
        fr = st.frame
        if fr.cls is not None:
            return fr.cls.name
        f = fr.func
        if f is not None:
            if f.cls is not None:
                return f.cls.name
            return getattr(f, "lexcls", None)
        return None

    def mangle(self, attr, st):
        """Python private-name mangling: inside a class body `x.__name` means `x._Class__name`"""
        if attr.startswith("__") and not attr.endswith("__"):
            cn = self.lexical_class_name(st)
            if cn and cn.lstrip("_"):
                return "_" + cn.lstrip("_") + attr
        return attr

    def ev_Subscript(self, node, st):
        for st1, vs in self.ev_many([node.value, node.slice], st):
            if isinstance(vs, Exc):
                yield st1, vs
                continue
            yield from self.models.getitem(self, st1, vs[0], vs[1])

    def ev_Slice(self, node, st):
        parts = [p if p is not None else ast.Constant(value=None) for p in (node.lower, node.upper, node.step)]
        for st1, vs in self.ev_many(parts, st):
            if isinstance(vs, Exc):
                yield st1, vs
            else:
                yield st1, SliceVal(*vs)

    def ev_Starred(self, node, st):
        raise Unsupported("starred expression in this position")

    def ev_NamedExpr(self, node, st):
        for st1, v in list(self.ev(node.value, st)):
            if not isinstance(v, Exc):
                self.bind_name(st1, node.target.id, v)
            yield st1, v

    # comprehensions -----------------------------------------------------------
    @staticmethod
    def _exc(name, *args):
        from .ops import exc

        return exc(name, *args)

    def _comp(self, generators, st, leaf):
        """Run nested comprehension loops; leaf(st) -> generator of (st, None|Exc)."""
        if not generators:
            yield from leaf(st)
            return
        g = generators[0]
        for st1, it in list(self.ev(g.iter, st)):
            if isinstance(it, Exc):
                yield st1, it
                continue
            if it is None or isinstance(it, (bool, int, Fraction)):
                # for ... in None / in a number: TypeError
                yield st1, self._exc("TypeError", "'%s' object is not iterable" % ("NoneType" if it is None else type(it).__name__))
                continue
            from .loops import iterate_watched

            items, watch = iterate_watched(self, st1, it)

            def run(st2, k, it=it, items=items, watch=watch):
                if k > 0 and (watch or isinstance(it, Ref)):
                    # the comprehension's own element / condition expressions must not change what it iterates
                    from .loops import lazy_check, _same_items

                    lazy_check(st2, watch)
                    if isinstance(it, Ref) and st2.get(it).kind in ("list", "dict", "set") and st2.get(it).__class__ is not IterE and not _same_items(
                            list(st2.get(it).items), items):  # (an iterator object is emptied by being consumed)
                        # (a dictionary / set that changes size: RuntimeError in CPython; a view whose values change: read live)
                        raise Unsupported("a list / dictionary / set is changed by the comprehension that iterates it")
                if k == len(items):
                    yield st2, None
                    return
                for st3, r in self.assign(g.target, items[k], st2):
                    if isinstance(r, Exc):
                        yield st3, r
                        continue

                    def conds(st4, ci):
                        if ci == len(g.ifs):
                            yield st4, True
                            return
                        for st5, c in list(self.ev(g.ifs[ci], st4)):
                            if isinstance(c, Exc):
                                yield st5, c
                                continue
                            for st6, b in self.branch(st5, self.truth(c, st5)):
                                if b:
                                    yield from conds(st6, ci + 1)
                                else:
                                    yield st6, False

                    for st4, ok in conds(st3, 0):
                        if isinstance(ok, Exc):
                            yield st4, ok
                            continue
                        if ok:
                            for st5, r2 in self._comp(generators[1:], st4, leaf):
                                if isinstance(r2, Exc):
                                    yield st5, r2
                                else:
                                    yield from run(st5, k + 1)
                        else:
                            yield from run(st4, k + 1)

            yield from run(st1, 0)

    def _comp_scope(self, st):
        # comprehension variables live in their own scope: emulate by saving/restoring
        return dict(st.frame.vars)

    def ev_ListComp(self, node, st):
        acc = st.alloc(ListE([]))
        saved = self._comp_saved(node, st)

        def leaf(s):
            for s1, v in list(self.ev(node.elt, s)):
                if isinstance(v, Exc):
                    yield s1, v
                else:
                    s1.get(acc).items.append(v)
                    yield s1, None

        for st1, r in self._comp(node.generators, st, leaf):
            self._drop_comp_vars(st1, saved)
            yield st1, (r if isinstance(r, Exc) else acc)

    def _drop_comp_vars(self, st, saved):
        # a comprehension has its own scope: its loop variables neither survive it nor overwrite a variable of the same
        # name in the enclosing function (saved: name -> value before the comprehension)
        for k in list(st.frame.vars):
            if k not in saved and k not in saved.walrus:
                del st.frame.vars[k]
        for k in getattr(saved, "targets", ()):
            if k in saved:
                st.frame.vars[k] = saved[k]
        if getattr(saved, "outer_comp", None):
            st.ghost["__comp_names__"] = saved.outer_comp
        else:
            st.ghost.pop("__comp_names__", None)

    @staticmethod
    def _comp_saved(node, st):
        """variables of the current frame before a comprehension, with the names its `for` clauses bind (walrus targets
        inside a comprehension DO bind in the enclosing scope and are not restored)"""
        class _Saved(dict):
            pass

        saved = _Saved(st.frame.vars)
        names = set()
        for g in node.generators:
            for n in ast.walk(g.target):
                if isinstance(n, ast.Name):
                    names.add(n.id)
        saved.targets = names
        # `(w := e)` inside a comprehension binds w in the ENCLOSING function: such names survive the comprehension
        saved.walrus = {n.target.id for n in ast.walk(node) if isinstance(n, ast.NamedExpr) and isinstance(n.target, ast.Name)}
        saved.outer_comp = st.ghost.get("__comp_names__")
        st.ghost["__comp_names__"] = frozenset(names) | (saved.outer_comp or frozenset())  # see closure_lookup
        return saved

    def ev_GeneratorExp(self, node, st):
        """A generator expression is evaluated EAGERLY to the list of its items (an IterE).  That equals CPython's lazy
        evaluation when (a) evaluating the element / condition expressions has no effect on anything that existed before
        and does not raise - or the generator is the direct argument of a call that consumes it completely and at once
        (list, tuple, sum, sorted, set, dict, min, max, str.join ...): checked here; (b) what it reads is unchanged when it
        is consumed: the containers it iterates (lazy record) and, for a generator that is not consumed where it is
        written, the variables it reads (IterE.free)."""
        self.trust("genexp-eager", "generator expressions are evaluated eagerly (effect-free element expressions, or consumed completely at once)")
        from .loops import lazy_begin, lazy_end

        full = getattr(node, "_pyvc_consumer", None) == "full"
        immediate = getattr(node, "_pyvc_consumer", None) is not None
        before = None if full else st.fork()
        free = None
        if not immediate:
            own = {n.id for g in node.generators for n in ast.walk(g.target) if isinstance(n, ast.Name)}
            fr = st.frame
            fr.has_closures = True
            free = (fr.fid, {n.id: fr.vars[n.id] for n in ast.walk(node)
                             if isinstance(n, ast.Name) and isinstance(n.ctx, ast.Load) and n.id not in own and n.id in fr.vars})
        old = lazy_begin(st)
        for st1, r in self.ev_ListComp(node, st):
            lazy_end(st1, old, r)
            if before is not None and (isinstance(r, Exc) or not self._unchanged(before, st1)):
                raise Unsupported("a generator expression whose element expressions raise or change existing state is "
                                  "evaluated eagerly only as the direct argument of list / tuple / sum / sorted / set / dict / min / max / join")
            if not isinstance(r, Exc):
                e = IterE(st1.get(r).items)
                e.free = free
                st1.store[r.id] = e
            yield st1, r

    def _still_initial(self, frozen, v, st):
        """the value v (in st) is what thaw(frozen) produces: same shape, same leaves"""
        if isinstance(frozen, FrozenList):
            e = st.get(v) if isinstance(v, Ref) else None
            return e is not None and e.kind == "list" and len(e.items) == len(frozen.items) and all(
                self._still_initial(f, x, st) for f, x in zip(frozen.items, e.items))
        if isinstance(frozen, FrozenDict):
            e = st.get(v) if isinstance(v, Ref) else None
            if e is None or e.kind != "dict" or len(e.items) != len(frozen.items):
                return False
            for (fk, fv), (k2, v2) in zip(frozen.items.items(), e.items.items()):
                if isinstance(fk, (FrozenObj, FrozenList, FrozenDict, FrozenNd)):
                    if not self._still_initial(fk, k2, st):
                        return False
                elif fk is not k2 and fk != k2:
                    return False
                if not self._still_initial(fv, v2, st):
                    return False
            return True
        if isinstance(frozen, FrozenNd):
            e = st.get(v) if isinstance(v, Ref) else None
            return e is not None and e.kind == "nd" and tuple(e.shape) == tuple(frozen.shape) and all(
                self._still_initial(f, x, st) for f, x in zip(frozen.data, e.data))
        if isinstance(frozen, frozenset):
            e = st.get(v) if isinstance(v, Ref) else None
            return e is not None and e.kind == "set" and len(e.items) == len(frozen) and all(x in frozen for x in e.items)
        if isinstance(frozen, FrozenObj):
            e = st.get(v) if isinstance(v, Ref) else None
            return e is not None and e.kind == "obj" and e.attrs.keys() == frozen.attrs.keys() and all(
                self._still_initial(frozen.attrs[k], e.attrs[k], st) for k in frozen.attrs)
        if type(frozen) is tuple:
            return type(v) is tuple and len(v) == len(frozen) and all(self._still_initial(f, x, st) for f, x in zip(frozen, v))
        return frozen is v or (type(frozen) is type(v) and isinstance(v, (int, str, bool, Fraction, type(None))) and frozen == v) or (
            not isinstance(v, Ref) and not isinstance(frozen, (FrozenList, FrozenDict, FrozenNd, FrozenObj)) and frozen is v)

    def _unchanged(self, before, after):
        """nothing that existed in `before` differs in `after`: store entries, abstract heap, module globals rebound on the
        path, variables of every frame (new store entries and new variables of the top frame are allowed).  An iterator
        object that the code in between ran to its end (`map(f, it)`, `(g(x) for x in it)`: the eager evaluation takes the items
        of `it` now, CPython when the new iterator is consumed) is not a change, but that iterator is marked `taken`: using it
        again directly (next(it)) is refused."""
        taken = []
        if not self._same_store(before, after, taken):
            return False
        for k, v in after.ghost.items():
            if isinstance(k, tuple) and k and k[0] == "modglobal" and before.ghost.get(k, self) is not v:
                if len(k) == 2 and k not in before.ghost:
                    # a module- / class-level container read for the first time on this path (thaw_global materialises it
                    # lazily): no change as long as it still has its initial contents
                    init = next((g for g in self._global_keep if id(g) == k[1]), None)
                    if init is not None and self._still_initial(init, v, after):
                        continue
                return False
        if len(before.frames) != len(after.frames):
            return False
        for fa, fb in zip(before.frames, after.frames):
            if any(k in fb.vars and fb.vars[k] is not v for k, v in fa.vars.items()):
                return False
        for f in taken:
            f.taken = True
        return True

    def ev_SetComp(self, node, st):
        for st1, r in self.ev_ListComp(node, st):
            if isinstance(r, Exc):
                yield st1, r
                continue
            items = []
            for v in st1.get(r).items:
                self.set_elem(st1, v, items)
                if v not in items:
                    items.append(v)
            yield st1, st1.alloc(SetE(items))

    def ev_DictComp(self, node, st):
        acc = st.alloc(DictE())
        saved = self._comp_saved(node, st)

        def leaf(s):
            for s1, kv in self.ev_many([node.key, node.value], s):
                if isinstance(kv, Exc):
                    yield s1, kv
                else:
                    from . import models as _M

                    yield from _M.dict_store(self, s1, acc, kv[0], kv[1])

        for st1, r in self._comp(node.generators, st, leaf):
            self._drop_comp_vars(st1, saved)
            yield st1, (r if isinstance(r, Exc) else acc)

    def ev_Yield(self, node, st):
        acc = st.frame.vars.get("__yields__")
        if acc is None:
            raise Unsupported("yield outside a generator frame")
        if node.value is None:
            st.get(acc).items.append(None)
            yield st, None
            return
        for st1, v in list(self.ev(node.value, st)):
            if not isinstance(v, Exc):
                st1.get(acc).items.append(v)
                yield st1, None
            else:
                yield st1, v

    def ev_YieldFrom(self, node, st):
        acc = st.frame.vars.get("__yields__")
        if acc is None:
            raise Unsupported("yield from outside a generator frame")
        for st1, v in list(self.ev(node.value, st)):
            if not isinstance(v, Exc):
                st1.get(acc).items.extend(self.iterate(v, st1))
                yield st1, None
            else:
                yield st1, v

    # calls ---------------------------------------------------------------------
    def ev_Call(self, node, st):
        # special forms
        if isinstance(node.func, ast.Name):
            nm = node.func.id
            if nm == "super" and not node.args:
                fr = st.frame
                yield st, SuperVal(fr.cls, fr.vars.get(self._self_name(fr)))
                return
            if nm == "old" and st.frame.is_harness:
                raise Unsupported("old() outside a contract")
        for st1, f in list(self.ev(node.func, st)):
            if isinstance(f, Exc):
                yield st1, f
                continue
            plain = []
            for a in node.args:
                plain.append(a.value if isinstance(a, ast.Starred) else a)
            consumer = "full" if self._full_consumer(f) else "other"
            for a in node.args:
                if isinstance(a, (ast.GeneratorExp, ast.Call)):
                    a._pyvc_consumer = consumer  # who consumes a lazy iterator created by this argument (ev_GeneratorExp, _lazy_ctx)
            for st2, avs in self.ev_many(plain, st1):
                if isinstance(avs, Exc):
                    yield st2, avs
                    continue
                args = []
                for a, v in zip(node.args, avs):
                    if isinstance(a, ast.Starred):
                        args.extend(self.iterate(v, st2))
                    else:
                        args.append(v)
                kwnodes = [k.value for k in node.keywords]
                for st3, kvs in self.ev_many(kwnodes, st2):
                    if isinstance(kvs, Exc):
                        yield st3, kvs
                        continue
                    kwargs = {}
                    for k, v in zip(node.keywords, kvs):
                        if k.arg is None:
                            e = st3.get(v) if isinstance(v, Ref) else None
                            if e is None or e.kind != "dict":
                                raise Unsupported("** of non-dict")
                            kwargs.update(e.items)
                        else:
                            kwargs[k.arg] = v
                    if not self._makes_iterator(f):
                        yield from self.call(f, args, kwargs, st3, node)
                        continue
                    # zip / map / filter / enumerate / reversed / iter / itertools.* / a generator function: the items are
                    # computed NOW although CPython computes them when the iterator is consumed.  Same rule as for generator
                    # expressions (ev_GeneratorExp): computing them must be effect-free and must not raise, unless the
                    # iterator is the direct argument of a call that consumes it completely at once.
                    before = None if getattr(node, "_pyvc_consumer", None) == "full" else st3.fork()
                    g = f.func if isinstance(f, BoundMethod) else f
                    if isinstance(g, FuncVal):
                        # a generator function: its effects are checked here, not again in loops.call_generator
                        st3.ghost["__iter_guard__"] = id(self.stubs.get(g.qualname(), g).node)
                    for st4, r in self.call(f, args, kwargs, st3, node):
                        st4.ghost.pop("__iter_guard__", None)
                        if before is not None and isinstance(r, Exc) and self._unchanged(before, st4):
                            # computing the items raises and changes nothing: CPython creates the iterator without running
                            # anything and raises when it is consumed (`items = self.iterChildren(..); return list(items)`):
                            # an iterator with a pending exception, delivered by the complete consumer that takes it (call)
                            e = IterE([])
                            e.pending = (r.exc, before)
                            yield st4, st4.alloc(e)
                            continue
                        if before is not None and (isinstance(r, Exc) or not self._unchanged(before, st4)):
                            raise Unsupported("a lazy iterator (map / filter / zip / generator function ...) whose items raise or change "
                                              "existing state when computed is evaluated eagerly only as the direct argument of "
                                              "list / tuple / sum / sorted / set / dict / min / max / join"
                                              + (" [raises %s]" % r.exc.name if isinstance(r, Exc) else ""))
                        if isinstance(r, Ref) and type(st4.get(r)) is ListE:
                            st4.store[r.id] = IterE(st4.get(r).items)  # an iterator object, not a list
                        yield st4, r

    _FULL_BUILTINS = frozenset(("sum", "sorted", "min", "max", "str.join", "list.extend", "set.update", "dict.update", "deque.extend"))
    _FULL_CLASSES = frozenset(("list", "tuple", "set", "frozenset", "dict", "deque"))

    _LAZY_BUILTINS = frozenset(("zip", "map", "filter", "enumerate", "reversed", "iter", "itertools.product", "itertools.chain",
                                "itertools.chain.from_iterable", "itertools.islice", "itertools.zip_longest"))

    def _makes_iterator(self, f):
        if isinstance(f, Builtin):
            return f.name in self._LAZY_BUILTINS
        if isinstance(f, BoundMethod):
            f = f.func
        if isinstance(f, FuncVal) and isinstance(f.node, ast.FunctionDef):
            q = f.qualname()
            if q in self.stubs:
                f = self.stubs[q]
            isgen = f.node.__dict__.get("_pyvc_isgen")
            if isgen is None:
                isgen = f.node._pyvc_isgen = any(isinstance(n, (ast.Yield, ast.YieldFrom)) for n in self._walk_own(f.node))
            return isgen
        return False

    def _full_consumer(self, f):
        """the callee consumes an iterator argument completely, in order and before doing anything else"""
        if isinstance(f, Builtin):
            return f.name in self._FULL_BUILTINS
        if isinstance(f, BuiltinClass):
            return f.name in self._FULL_CLASSES
        return False

    def _self_name(self, fr):
        if fr.func is not None and isinstance(fr.func.node, ast.FunctionDef) and fr.func.node.args.args:
            return fr.func.node.args.args[0].arg
        return "self"

    def call(self, f, args, kwargs, st, node=None):
        if isinstance(f, (Builtin, BuiltinClass)):
            for a in list(args) + list(kwargs.values()):
                if isinstance(a, Ref) and a.id in st.store and st.store[a.id].__class__ is IterE and st.store[a.id].pending is not None:
                    e = st.store[a.id]
                    if self._full_consumer(f) and args and a is args[0] and not e.consumed and self._unchanged(e.pending[1], st):
                        e.consumed = True
                        yield st, Exc(e.pending[0])  # raised where CPython raises it: in the consumer
                        return
                    raise Unsupported("an iterator whose items raise when computed is used by something else than a complete consumer "
                                      "(list, tuple, sum, sorted ...) in the state it was created in")
        if isinstance(f, BoundMethod):
            yield from self.call(f.func, [f.self_val] + list(args), kwargs, st, node)
        elif isinstance(f, FuncVal):
            yield from self.call_func(f, args, kwargs, st, node)
        elif isinstance(f, Builtin):
            yield from self.call_builtin(f, args, kwargs, st)
        elif isinstance(f, ClassVal):
            yield from self.instantiate(f, args, kwargs, st)
        elif isinstance(f, BuiltinClass):
            yield from self.models.call_builtin_class(self, st, f, list(args), dict(kwargs))
        elif isinstance(f, Partial):
            kw = dict(f.kwargs)
            kw.update(kwargs)
            yield from self.call(f.func, f.args + list(args), kw, st, node)
        elif isinstance(f, Opaque):
            yield st, Opaque("call of " + f.desc)
        elif isinstance(f, Ref) and st.get(f).kind == "obj":
            m, _ = self.class_lookup(st.get(f).cls, "__call__")
            if m is None:
                raise Unsupported("object not callable")
            yield from self.call(m, [f] + list(args), kwargs, st, node)
        elif isinstance(f, Unknown):
            raise Unsupported("call of unmodelled %s" % f.desc)
        else:
            raise Unsupported("call of %r" % (f,))

    _BINDING_ERROR = re.compile(
        r"\(\) (got an unexpected keyword argument|got multiple values for (keyword )?argument|takes (no|\d+|from \d+ to \d+|at (most|least) \d+) "
        r"(positional |keyword )?arguments?\b|missing \d+ required (positional|keyword-only) arguments?\b|got some positional-only arguments)"
    )

    def call_builtin(self, f, args, kwargs, st):
        """Invoke a modelled callable.  The code under analysis may pass an argument / keyword the model does not know
        (ndarray.ravel(order="K"), sorted(x, key=...) ...): python then fails to BIND the model function and raises TypeError
        in the model's own top frame.  That is "outside the modelled subset" (Unsupported -> lemma undecided), not an
        engine crash.  Only that case is converted: the TypeError must come from the call machinery (message of a failed
        binding) and must be raised by a call made directly in the frame of the Builtin's function (where the wrappers
        `fn(I, st, *a, **k)` hand the user's arguments to the model); TypeErrors raised deeper inside a model propagate."""
        try:
            yield from f.fn(self, st, list(args), dict(kwargs))
        except TypeError as err:
            tb = err.__traceback__
            inner = tb.tb_next if tb is not None else None  # tb = this frame, inner = frame of f.fn (function or generator)
            code = getattr(f.fn, "__code__", None)
            if (
                inner is not None
                and inner.tb_next is None
                and code is not None
                and inner.tb_frame.f_code is code
                and self._BINDING_ERROR.search(str(err))
            ):
                raise Unsupported("%s called with arguments its model does not accept (%s; positional %d, keywords %s)" % (
                    f.name, err, len(args), sorted(kwargs))) from None
            raise

    def instantiate(self, cls, args, kwargs, st):
        if cls.__dict__.get("_xmeta", 0) is not None or cls.__dict__.get("_is_xmeta", True):
            from . import metaclass as _mc

            if _mc.is_executed_meta(self, cls):
                yield from _mc.call_meta(self, st, cls, args, kwargs)  # Meta(name, bases, attrs): a new class
                return
            _mc.ensure(self, st, cls)
        from .attrs import ensure_init_subclass

        ensure_init_subclass(self, st, cls)
        if self.is_exception_class(cls):
            yield st, ExcVal(cls, args)
            return
        nt = self.models.namedtuple_fields(self, cls)
        if nt is not None:
            yield st, self.models.make_namedtuple(self, st, cls, nt, args, kwargs)
            return
        if self.is_subclass(cls, BuiltinClass("tuple", tuple)):
            # class deriving from the builtin tuple (e.g. component._DimensionLink): tuple payload + methods
            items = tuple(self.iterate(args[0], st)) if args else ()
            yield st, st.alloc(ObjE(cls, {"__tuple__": items}))
            return
        nw, nw_where = self.class_lookup(cls, "__new__")
        if isinstance(nw, FuncVal):
            # a user-defined __new__ makes the instance: Cls(*a) = Cls.__new__(Cls, *a), then __init__(*a) on the result if it
            # is an instance of Cls.  (Ignoring it would drop whatever __new__ sets up or returns.)
            if self.dataclass_fields(cls) is not None or any(isinstance(c, BuiltinClass) and c.name != "object" for c in self.mro(cls)):
                raise Unsupported("__new__ on a dataclass / a class with a builtin base")
            init, _ = self.class_lookup(cls, "__init__")
            for st1, o in self.call(nw, [cls] + list(args), kwargs, st):
                if isinstance(o, Exc) or init is None or not (
                        isinstance(o, Ref) and st1.get(o).kind == "obj" and self.is_subclass(st1.get(o).cls, cls)):
                    yield st1, o
                    continue
                for st2, r in self.call(init, [o] + list(args), kwargs, st1):
                    yield st2, (r if isinstance(r, Exc) else o)
            return
        obj = st.alloc(ObjE(cls))
        if self.is_subclass(cls, BuiltinClass("list", list)):
            # class deriving from the builtin list (e.g. BlockCollection): list payload + the class's own methods
            st.get(obj).attrs["__list__"] = st.alloc(ListE([]))
        if self.is_subclass(cls, BuiltinClass("dict", dict)):
            # class deriving from the builtin dict (e.g. XSSettings): dict payload + the class's own methods
            st.get(obj).attrs["__dictdata__"] = st.alloc(DictE({}))
        dcf = self.dataclass_fields(cls)
        if dcf is not None:
            yield from self.instantiate_dataclass(cls, dcf, obj, list(args), kwargs, st)
            return
        init, where = self.class_lookup(cls, "__init__")
        if init is None and "__list__" in st.get(obj).attrs and not kwargs and len(args) <= 1:
            if args:
                st.get(st.get(obj).attrs["__list__"]).items.extend(self.iterate(args[0], st))
            yield st, obj
            return
        if init is None and "__dictdata__" in st.get(obj).attrs:
            # dict.__init__(self, *args, **kwargs) of a dict subclass without its own __init__
            for st1, d in self.models.call_builtin_class(self, st, BuiltinClass("dict", dict), list(args), dict(kwargs)):
                if isinstance(d, Exc):
                    yield st1, d
                else:
                    st1.get(st1.get(obj).attrs["__dictdata__"]).items.update(st1.get(d).items)
                    yield st1, obj
            return
        if init is None:
            if args or kwargs:
                raise Unsupported("constructor args without __init__ for %s" % cls.name)
            yield st, obj
            return
        for st1, r in self.call(init, [obj] + list(args), kwargs, st):
            yield st1, (r if isinstance(r, Exc) else obj)

    def bind_args(self, f, args, kwargs, st):
        a = f.node.args
        names = [x.arg for x in a.posonlyargs + a.args]
        vars = {}
        args = list(args)
        kwargs = dict(kwargs)
        ndef = len(a.defaults)
        nreq = len(names) - ndef
        for i, n in enumerate(names):
            if i < len(args):
                if n in kwargs:
                    return None, ExcVal(BuiltinClass("TypeError", TypeError), ("multiple values for " + n,))
                vars[n] = args[i]
            elif n in kwargs:
                vars[n] = kwargs.pop(n)
            elif i >= nreq:
                vars[n] = self.eval_default(f, a.defaults[i - nreq], st)
            else:
                return None, ExcVal(BuiltinClass("TypeError", TypeError), ("missing argument " + n,))
        extra = args[len(names) :]
        if a.vararg:
            vars[a.vararg.arg] = tuple(extra)
        elif extra:
            return None, ExcVal(BuiltinClass("TypeError", TypeError), ("too many positional arguments",))
        for n, d in zip(a.kwonlyargs, a.kw_defaults):
            if n.arg in kwargs:
                vars[n.arg] = kwargs.pop(n.arg)
            elif d is not None:
                vars[n.arg] = self.eval_default(f, d, st)
            else:
                return None, ExcVal(BuiltinClass("TypeError", TypeError), ("missing kw argument " + n.arg,))
        if a.kwarg:
            vars[a.kwarg.arg] = st.alloc(DictE(kwargs))
        elif kwargs:
            # CPython's message (code in the repo tests for this text): Class.func() got an unexpected keyword argument 'first one'
            qn = (f.cls.name + "." if f.cls is not None else "") + f.name
            return None, ExcVal(BuiltinClass("TypeError", TypeError), ("%s() got an unexpected keyword argument '%s'" % (qn, list(kwargs)[0]),))
        return vars, None

    def eval_default(self, f, expr, st):
        """value of a parameter default.  CPython evaluates the default expression ONCE (when the `def` runs) and every
        call that omits the argument receives that same object: a mutable default (`acc=[]`) is shared across calls and
        keeps what earlier calls put into it.  Model: evaluated at the first use on a path, in the state of that path (so
        nested containers live in its store), and remembered per path under (function, default expression)."""
        if id(expr) in getattr(f, "defaults", ()):
            return f.defaults[id(expr)]  # lambda / nested def: evaluated when the definition was executed (_new_closure)
        key = ("default", id(f.node), id(expr))
        if key in st.ghost:
            return st.ghost[key]
        st.frames.append(Frame(dict(f.closure or {}), None, f.module))
        try:
            outs = list(self.ev(expr, st))
        finally:
            st.frames.pop()
        if len(outs) != 1 or isinstance(outs[0][1], Exc) or outs[0][0] is not st:
            raise Unsupported("default argument expression")
        v = outs[0][1]
        st.ghost[key] = v
        self._default_keep = getattr(self, "_default_keep", [])
        self._default_keep.append(f.node)  # keep the node alive: its id is part of the key
        return v

    def call_func(self, f, args, kwargs, st, node=None):
        q = f.qualname()
        if q in self.stubs and not any(fr.func is not None and fr.func.node is self.stubs[q].node for fr in st.frames):
            # modular step: the callee is used through its contract (a harness function), not its body
            self.trust("stub:" + q, "callee %s used through its contract `%s` (proved separately)" % (q, self.stubs[q].name))
            yield from self.call_func(self.stubs[q], args, kwargs, st, node)
            return
        if isinstance(f.node, ast.Lambda):
            vars, err = self.bind_args(f, args, kwargs, st)
            if err is not None:
                yield st, Exc(err)
                return
            st.frames.append(Frame(vars, f, f.module, f.cls))
            for st1, v in list(self.ev(f.node.body, st)):
                self.pop_frame(st1)
                yield st1, v
            return
        if not getattr(f, "raw", False) and any(not self.transparent_decorator(d) for d in f.node.decorator_list):
            # an ignored decorator would run the bare function where CPython runs decorator(function)
            yield from self.call(self.decorated(f, st), args, kwargs, st, node)
            return
        if len(st.frames) > MAX_DEPTH:
            raise Unsupported("call depth > %d (recursion without contract?) at %s" % (MAX_DEPTH, q))
        if sum(1 for fr in st.frames if fr.func is not None and fr.func.node is f.node) > 8:
            raise Unsupported("recursion without contract: %s" % q)
        isgen = f.node.__dict__.get("_pyvc_isgen")
        if isgen is None:  # cached per function node (the body is walked once, not at every call)
            isgen = f.node._pyvc_isgen = any(isinstance(n, (ast.Yield, ast.YieldFrom)) for n in self._walk_own(f.node))
        if isgen:
            yield from self.models.call_generator(self, st, f, args, kwargs)
            return
        vars, err = self.bind_args(f, args, kwargs, st)
        if err is not None:
            yield st, Exc(err)
            return
        self.note_function(f)
        fr = Frame(vars, f, f.module, f.cls, is_harness=bool(getattr(f.module, "is_harness", False)))
        fr.entry = dict(vars)
        st.frames.append(fr)
        for st1, ctrl in self.ex_block(f.node.body, st):
            self.pop_frame(st1)
            if ctrl is None:
                yield st1, None
            elif ctrl[0] == "return":
                yield st1, ctrl[1]
            elif ctrl[0] == "raise":
                yield st1, Exc(ctrl[1])
            else:
                raise EngineError("break/continue escaped function")

    def _walk_own(self, fnode):
        """ast.walk that does not descend into nested function definitions."""
        todo = list(fnode.body)
        while todo:
            n = todo.pop()
            yield n
            for c in ast.iter_child_nodes(n):
                if isinstance(c, (ast.FunctionDef, ast.Lambda, ast.ClassDef)):
                    continue
                todo.append(c)

    def note_function(self, f):
        if f.module is None or not isinstance(f.node, ast.FunctionDef):
            return
        q = f.qualname()
        if q not in self.functions_used:
            self.functions_used[q] = extract.func_hash(f.module, f.node)

    # attribute access ------------------------------------------------------------
    def getattr(self, v, name, st):
        yield from self.models.getattr(self, st, v, name)

    # truthiness --------------------------------------------------------------
    def truth(self, v, st):
        if v is None or v is _NONE_MERGED:
            return False
        if isinstance(v, bool):
            return v
        if isinstance(v, (int, Fraction)):
            return v != 0
        if is_z3(v):
            if z3.is_bool(v):
                return v
            if z3.is_int(v) or z3.is_real(v):
                return v != 0
            if self.models.heap_is_obj(self, v):
                return v != self.models.heap_none(self)
            raise Unsupported("truth value of term of sort %s" % v.sort())
        if isinstance(v, self.models.Inf):
            return True
        if isinstance(v, (str, tuple, bytes)):
            return len(v) > 0
        if type(v).__name__ in ("PickleBlob", "ReMatch"):
            return True  # pickle.dumps never returns an empty byte string; a match object is truthy
        if isinstance(v, frozenset):
            return len(v) > 0
        if isinstance(v, (FrozenList, FrozenDict)):
            return len(v.items) > 0
        if isinstance(v, Ref):
            e = st.get(v)
            if e.__class__ is IterE:
                return True  # an iterator object has neither __bool__ nor __len__: always true
            if e.kind in ("list", "deque", "set", "dict", "numset"):
                return len(e.items) > 0
            if e.kind == "symlist":
                return e.length != 0
            if e.kind == "obj":
                m, _ = self.class_lookup(e.cls, "__bool__")
                if m is None:
                    m2, _ = self.class_lookup(e.cls, "__len__")
                    if m2 is None and "__list__" in e.attrs:
                        return len(st.get(e.attrs["__list__"]).items) > 0
                    if m2 is None and "__dictdata__" in e.attrs:
                        return len(st.get(e.attrs["__dictdata__"]).items) > 0
                    if m2 is None:
                        return True
                    outs = list(self.call(m2, [v], {}, st))
                    if len(outs) == 1 and not isinstance(outs[0][1], Exc):
                        n = outs[0][1]
                        # CPython: __len__ must return an int >= 0 (ValueError / TypeError otherwise)
                        if isinstance(n, bool) or not (isinstance(n, int) or (is_z3(n) and z3.is_int(n))):
                            raise Unsupported("__len__ returning a non-int in a truth test")
                        if (isinstance(n, int) and n < 0) or (is_z3(n) and self.feasible(st, n < 0)):
                            raise Unsupported("__len__ possibly negative in a truth test (ValueError in CPython)")
                        return self.truth(n, st)
                    raise Unsupported("__len__ forks in truth test")
                outs = list(self.call(m, [v], {}, st))
                if len(outs) == 1 and not isinstance(outs[0][1], Exc):
                    b = outs[0][1]
                    if not (isinstance(b, bool) or (is_z3(b) and z3.is_bool(b))):
                        raise Unsupported("__bool__ returning a non-bool (TypeError in CPython)")  # e.g. 1, None
                    return self.truth(b, st)
                raise Unsupported("__bool__ forks in truth test")
            if e.kind == "nd":
                if len(e.data) == 1:
                    return self.truth(e.data[0], st)
                raise Unsupported("truth value of an array with more than one element")
        if isinstance(v, (FuncVal, ClassVal, BoundMethod, Builtin, BuiltinClass, ModuleVal, ExcVal)):
            return True
        if isinstance(v, self.models.HeapSeq):
            return v.length(self, st) != 0
        import re as _re

        if isinstance(v, (_re.Pattern, _re.Match)):
            return True  # concrete re objects (see attrs.re_method) are always truthy
        if isinstance(v, Opaque) and v.desc == "traceback":
            return True  # the traceback object handed to __exit__ (loops.exec_with) is never falsy
        raise Unsupported("truth value of %r" % (v,))

    # iteration ----------------------------------------------------------------
    def iterate(self, v, st):
        """Concrete-length iteration -> python list of values."""
        return self.models.iterate(self, st, v)

    # ------------------------------------------------------------------ statements
    def ex_block(self, stmts, st):
        """yield (st, ctrl); ctrl None = fell through."""
        if not stmts:
            yield st, None
            return
        first, rest = stmts[0], stmts[1:]
        for st1, ctrl in list(self.ex(first, st)):
            if ctrl is not None:
                yield st1, ctrl
            elif rest:
                yield from self.ex_block(rest, st1)
            else:
                yield st1, None

    def ex(self, node, st):
        m = getattr(self, "ex_" + type(node).__name__, None)
        if m is None:
            raise Unsupported("statement %s at line %s" % (type(node).__name__, getattr(node, "lineno", "?")))
        return m(node, st)

    def ex_Pass(self, node, st):
        yield st, None

    def ex_Global(self, node, st):
        # `global X` inside a function: X is read from / bound in the MODULE namespace.  Rebindings are kept per path
        # (st.ghost[("modglobal", module, name)]) and are seen by every later read of that module global (lookup,
        # module attribute access); the declaration itself does nothing at run time.
        if st.frame.func is None or st.frame.module is None:
            raise Unsupported("global statement outside a repo function")
        yield st, None

    def global_decls(self, func):
        """names declared `global` in the body of func (nested functions / classes excluded) - static, cached"""
        if func is None or not hasattr(func, "node"):
            return ()
        k = id(func.node)
        c = self._global_decl_cache.get(k) if hasattr(self, "_global_decl_cache") else None
        if c is None:
            if not hasattr(self, "_global_decl_cache"):
                self._global_decl_cache = {}
            names = set()
            todo = list(getattr(func.node, "body", [])) if isinstance(getattr(func.node, "body", None), list) else []
            while todo:
                n = todo.pop()
                if isinstance(n, (ast.FunctionDef, ast.AsyncFunctionDef, ast.ClassDef, ast.Lambda)):
                    continue
                if isinstance(n, ast.Global):
                    names.update(n.names)
                todo.extend(ast.iter_child_nodes(n))
            c = self._global_decl_cache[k] = (frozenset(names), func.node)  # node kept alive: its id is the key
        return c[0]

    def bind_name(self, st, name, v):
        """bind a plain name in the current frame: a local, or (after `global name`) the module global"""
        fr = st.frame
        if fr.func is not None and name in self.global_decls(fr.func):
            if fr.module is None:
                raise Unsupported("global statement without module")
            st.ghost[("modglobal", fr.module.name, name)] = v
        elif fr.func is not None and name in self._scope_info(fr.func)[2]:
            # `nonlocal name`: the variable of the enclosing function activation is rebound
            self.nonlocal_set(st, fr.func, name, v)
        else:
            fr.vars[name] = v

    def ex_Nonlocal(self, node, st):
        if st.frame.func is None:
            raise Unsupported("nonlocal statement outside a function")
        yield st, None

    def ex_Import(self, node, st):
        for a in node.names:
            nm = a.asname or a.name.split(".")[0]
            st.frame.vars[nm] = self.module_val(a.name if a.asname else a.name.split(".")[0])
        yield st, None

    def ex_ImportFrom(self, node, st):
        mod = node.module or ""
        for a in node.names:
            tgt = extract.load_module(mod)
            if tgt is not None:
                try:
                    v = self.resolve_global(tgt, a.name)
                except KeyError:
                    sub = extract.load_module(mod + "." + a.name)
                    v = ModuleVal(info=sub) if sub else Unknown(mod + "." + a.name)
            elif mod in self.ext_modules and a.name in self.ext_modules[mod]:
                v = self.ext_modules[mod][a.name]
            else:
                v = Unknown(mod + "." + a.name)
            st.frame.vars[a.asname or a.name] = v
        yield st, None

    def ex_Expr(self, node, st):
        if isinstance(node.value, ast.Constant):
            yield st, None  # docstring
            return
        for st1, v in list(self.ev(node.value, st)):
            yield st1, (("raise", v.exc) if isinstance(v, Exc) else None)

    def ex_Return(self, node, st):
        if node.value is None:
            yield st, ("return", None)
            return
        for st1, v in list(self.ev(node.value, st)):
            yield st1, (("raise", v.exc) if isinstance(v, Exc) else ("return", v))

    def ex_Assign(self, node, st):
        for st1, v in list(self.ev(node.value, st)):
            if isinstance(v, Exc):
                yield st1, ("raise", v.exc)
                continue

            def do(st2, k):
                if k == len(node.targets):
                    yield st2, None
                    return
                for st3, r in self.assign(node.targets[k], v, st2):
                    if isinstance(r, Exc):
                        yield st3, ("raise", r.exc)
                    else:
                        yield from do(st3, k + 1)

            yield from do(st1, 0)

    def ex_AnnAssign(self, node, st):
        if node.value is None:
            yield st, None
            return
        for st1, v in list(self.ev(node.value, st)):
            if isinstance(v, Exc):
                yield st1, ("raise", v.exc)
                continue
            for st2, r in self.assign(node.target, v, st1):
                yield st2, (("raise", r.exc) if isinstance(r, Exc) else None)

    def ex_AugAssign(self, node, st):
        opname = type(node.op).__name__
        tgt = node.target
        if isinstance(tgt, ast.Name):
            try:
                cur0 = self.lookup(tgt.id, st)  # CPython loads the target BEFORE it evaluates the right-hand side
            except _NameErr as e:
                yield st, ("raise", ExcVal(BuiltinClass(e.cls, getattr(_pybuiltins, e.cls)), (str(e),)))
                return
            for st1, rhs in list(self.ev(node.value, st)):
                if isinstance(rhs, Exc):
                    yield st1, ("raise", rhs.exc)
                    continue
                cur = cur0
                for st2, r in self.models.binop(self, st1, opname, cur, rhs, inplace=True):
                    if isinstance(r, Exc):
                        yield st2, ("raise", r.exc)
                    else:
                        self.bind_name(st2, tgt.id, r)
                        yield st2, None
        elif isinstance(tgt, ast.Attribute):
            # CPython's order for `o.a op= rhs`: evaluate o, LOAD o.a, evaluate rhs, operate, store - a right-hand side that
            # itself changes o.a (self.n += self.bump()) does not change the value that was already loaded
            for st1, obj in list(self.ev(tgt.value, st)):
                if isinstance(obj, Exc):
                    yield st1, ("raise", obj.exc)
                    continue
                for st2, cur in list(self.getattr(obj, self.mangle(tgt.attr, st1), st1)):
                    if isinstance(cur, Exc):
                        yield st2, ("raise", cur.exc)
                        continue
                    for st2b, rhs in list(self.ev(node.value, st2)):
                        if isinstance(rhs, Exc):
                            yield st2b, ("raise", rhs.exc)
                            continue
                        for st3, r in self.models.binop(self, st2b, opname, cur, rhs, inplace=True):
                            if isinstance(r, Exc):
                                yield st3, ("raise", r.exc)
                                continue
                            for st4, r2 in self.models.setattr(self, st3, obj, self.mangle(tgt.attr, st3), r):
                                yield st4, (("raise", r2.exc) if isinstance(r2, Exc) else None)
        elif isinstance(tgt, ast.Subscript):
            # same order for `o[i] op= rhs`: o, i, LOAD o[i], rhs, operate, store
            for st1, vs in self.ev_many([tgt.value, tgt.slice], st):
                if isinstance(vs, Exc):
                    yield st1, ("raise", vs.exc)
                    continue
                obj, idx = vs
                for st2, cur in list(self.models.getitem(self, st1, obj, idx)):
                    if isinstance(cur, Exc):
                        yield st2, ("raise", cur.exc)
                        continue
                    for st2b, rhs in list(self.ev(node.value, st2)):
                        if isinstance(rhs, Exc):
                            yield st2b, ("raise", rhs.exc)
                            continue
                        for st3, r in self.models.binop(self, st2b, opname, cur, rhs, inplace=True):
                            if isinstance(r, Exc):
                                yield st3, ("raise", r.exc)
                                continue
                            for st4, r2 in self.models.setitem(self, st3, obj, idx, r):
                                yield st4, (("raise", r2.exc) if isinstance(r2, Exc) else None)
        else:
            raise Unsupported("augmented assignment target")

    def assign(self, target, v, st):
        """yield (st, None|Exc)"""
        if isinstance(target, ast.Name):
            self.bind_name(st, target.id, v)
            yield st, None
        elif isinstance(target, (ast.Tuple, ast.List)):
            if v is None or isinstance(v, (bool, int, Fraction)) or (is_z3(v) and (z3.is_int(v) or z3.is_real(v) or z3.is_bool(v))):
                yield st, Exc(ExcVal(BuiltinClass("TypeError", TypeError), ("cannot unpack non-iterable object",)))
                return
            try:
                items = self.iterate(v, st)
            except Unsupported:
                raise
            star = [i for i, e in enumerate(target.elts) if isinstance(e, ast.Starred)]
            if star:
                s = star[0]
                after = len(target.elts) - s - 1
                if len(items) < len(target.elts) - 1:
                    yield st, Exc(ExcVal(BuiltinClass("ValueError", ValueError), ("not enough values to unpack",)))
                    return
                mid = items[s : len(items) - after]
                items = items[:s] + [st.alloc(ListE(mid))] + items[len(items) - after :]
                elts = [e.value if isinstance(e, ast.Starred) else e for e in target.elts]
            else:
                elts = target.elts
                if len(items) != len(elts):
                    yield st, Exc(ExcVal(BuiltinClass("ValueError", ValueError), ("unpack length mismatch",)))
                    return

            def do(st2, k):
                if k == len(elts):
                    yield st2, None
                    return
                for st3, r in self.assign(elts[k], items[k], st2):
                    if isinstance(r, Exc):
                        yield st3, r
                    else:
                        yield from do(st3, k + 1)

            yield from do(st, 0)
        elif isinstance(target, ast.Attribute):
            for st1, obj in list(self.ev(target.value, st)):
                if isinstance(obj, Exc):
                    yield st1, obj
                    continue
                yield from self.models.setattr(self, st1, obj, self.mangle(target.attr, st1), v)
        elif isinstance(target, ast.Subscript):
            for st1, vs in self.ev_many([target.value, target.slice], st):
                if isinstance(vs, Exc):
                    yield st1, vs
                    continue
                yield from self.models.setitem(self, st1, vs[0], vs[1], v)
        else:
            raise Unsupported("assignment target %s" % type(target).__name__)

    def ex_Delete(self, node, st):
        def do(st1, k):
            if k == len(node.targets):
                yield st1, None
                return
            t = node.targets[k]
            if isinstance(t, ast.Name):
                if t.id in self.global_decls(st1.frame.func):
                    raise Unsupported("del of a name declared global")
                if t.id in self._scope_info(st1.frame.func)[2]:
                    raise Unsupported("del of a name declared nonlocal")
                if t.id not in st1.frame.vars:
                    # CPython: deleting an unbound name is an error, not a no-op
                    if st1.frame.func is None:
                        raise Unsupported("del of an unbound name outside a function")
                    yield st1, ("raise", ExcVal(BuiltinClass("UnboundLocalError", UnboundLocalError), ("cannot access local variable '%s'" % t.id,)))
                    return
                del st1.frame.vars[t.id]
                yield from do(st1, k + 1)
            elif isinstance(t, ast.Subscript):
                for st2, vs in self.ev_many([t.value, t.slice], st1):
                    if isinstance(vs, Exc):
                        yield st2, ("raise", vs.exc)
                        continue
                    for st3, r in self.models.delitem(self, st2, vs[0], vs[1]):
                        if isinstance(r, Exc):
                            yield st3, ("raise", r.exc)
                        else:
                            yield from do(st3, k + 1)
            elif isinstance(t, ast.Attribute):
                for st2, obj in list(self.ev(t.value, st1)):
                    if isinstance(obj, Exc):
                        yield st2, ("raise", obj.exc)
                        continue
                    for st3, r in self.models.delattr(self, st2, obj, self.mangle(t.attr, st2)):
                        if isinstance(r, Exc):
                            yield st3, ("raise", r.exc)
                        else:
                            yield from do(st3, k + 1)
            else:
                raise Unsupported("del target")

        yield from do(st, 0)

    @staticmethod
    def _log_only(body):
        """every statement is an expression statement `runLog.<name>(...)`"""
        for s in body:
            if not (isinstance(s, ast.Expr) and isinstance(s.value, ast.Call) and isinstance(s.value.func, ast.Attribute)
                    and isinstance(s.value.func.value, ast.Name) and s.value.func.value.id == "runLog"):
                return False
        return bool(body)

    def ex_If(self, node, st):
        for st1, c in list(self.ev(node.test, st)):
            if isinstance(c, Exc):
                yield st1, ("raise", c.exc)
                continue
            t = self.truth(c, st1)
            if is_z3(t) and not node.orelse and self._log_only(node.body):
                # `if cond: runLog.xxx(...)`: when the guarded logging neither raises nor changes the state, both
                # outcomes of cond continue from the same state - no fork (the arguments are still evaluated once)
                probe = st1.fork()
                probe.pc.append(t)
                outs = list(self.ex_block(node.body, probe))
                if len(outs) == 1 and outs[0][1] is None and self._same_store(st1, outs[0][0]) \
                        and all(fa.vars.keys() == fb.vars.keys() and all(fa.vars[k] is fb.vars[k] for k in fa.vars)
                                for fa, fb in zip(st1.frames, outs[0][0].frames)):
                    yield st1, None
                    continue
            for st2, b in self.branch(st1, t):
                st2.trail.append((node.lineno, b))
                yield from self.ex_block(node.body if b else node.orelse, st2)

    def ex_Assert(self, node, st):
        for st1, c in list(self.ev(node.test, st)):
            if isinstance(c, Exc):
                yield st1, ("raise", c.exc)
                continue
            t = self.truth(c, st1)
            if st1.frame.is_harness:
                where = "L%d" % node.lineno
                note = ""
                if node.msg is not None and isinstance(node.msg, ast.Constant):
                    note = str(node.msg.value)
                self.oblige(st1, t if is_z3(t) else bool(t), where, "assert", note)
                if is_z3(t):
                    st1.pc.append(t)
                    yield st1, None
                elif t or _KEEP_GOING:
                    yield st1, None
                # concrete False: path ends here (obligation recorded); PYVC_KEEP_GOING=1 (developer aid for the engine
                # self-tests) continues instead so that one run lists every failing assertion of a lemma
                continue
            for st2, b in self.branch(st1, t):
                if b:
                    yield st2, None
                else:
                    yield st2, ("raise", ExcVal(BuiltinClass("AssertionError", AssertionError), ()))

    def ex_Raise(self, node, st):
        if node.exc is None:
            cur = st.ghost.get("__current_exc__")
            if cur is None:
                raise Unsupported("bare raise outside handler")
            yield st, ("raise", cur)
            return
        for st1, v in list(self.ev(node.exc, st)):
            if isinstance(v, Exc):
                yield st1, ("raise", v.exc)
                continue
            if isinstance(v, (ClassVal, BuiltinClass)):
                v = ExcVal(v, ())
            if not isinstance(v, ExcVal):
                raise Unsupported("raise of non-exception %r" % (v,))
            yield st1, ("raise", v)

    def exc_matches(self, exc, handler_type_val):
        if handler_type_val is None:
            return True
        if isinstance(handler_type_val, tuple):
            return any(self.exc_matches(exc, h) for h in handler_type_val)
        if isinstance(handler_type_val, (ClassVal, BuiltinClass)):
            return self.is_subclass(exc.cls, handler_type_val)
        raise Unsupported("except clause type %r" % (handler_type_val,))

    def ex_Try(self, node, st):
        def finalize(st1, ctrl):
            if not node.finalbody:
                yield st1, ctrl
                return
            for st2, c2 in self.ex_block(node.finalbody, st1):
                yield st2, (c2 if c2 is not None else ctrl)

        for st1, ctrl in list(self.ex_block(node.body, st)):
            if ctrl is None:
                if node.orelse:
                    for st2, c2 in list(self.ex_block(node.orelse, st1)):
                        yield from finalize(st2, c2)
                else:
                    yield from finalize(st1, None)
            elif ctrl[0] == "raise":
                exc = ctrl[1]
                handled = False
                for h in node.handlers:
                    if h.type is None:
                        hv = None
                    else:
                        outs = list(self.ev(h.type, st1))
                        if len(outs) != 1 or isinstance(outs[0][1], Exc):
                            raise Unsupported("except type expression")
                        hv = outs[0][1]
                    if self.exc_matches(exc, hv):
                        handled = True
                        if h.name:
                            self.bind_name(st1, h.name, exc)
                        prev = st1.ghost.get("__current_exc__")
                        st1.ghost["__current_exc__"] = exc
                        for st2, c2 in list(self.ex_block(h.body, st1)):
                            st2.ghost["__current_exc__"] = prev
                            if h.name:
                                # CPython: `except E as n` ends with an implicit `del n` (however the handler is left)
                                if h.name in self.global_decls(st2.frame.func) or h.name in self._scope_info(st2.frame.func)[2]:
                                    raise Unsupported("exception variable declared global / nonlocal")
                                st2.frame.vars.pop(h.name, None)
                            yield from finalize(st2, c2)
                        break
                if not handled:
                    yield from finalize(st1, ctrl)
            else:
                yield from finalize(st1, ctrl)

    def ex_With(self, node, st):
        yield from self.models.exec_with(self, st, node)

    def ex_FunctionDef(self, node, st):
        # CPython: decorator expressions are evaluated first (top to bottom), then the defaults, then the function object is
        # made, then the decorators are applied bottom-up and the result is bound to the name
        decs = [d for d in node.decorator_list if not self.transparent_decorator(d)]
        for st0, dvals in self.ev_many(decs, st):
            if isinstance(dvals, Exc):
                yield st0, ("raise", dvals.exc)
                continue
            for st1 in (st0,):
                fv = FuncVal(node, st1.frame.module, None, closure=self.closure_of(st1))
                fv.lexcls = self.lexical_class_name(st1)
                fv.raw = True  # decorators are applied here, not at call time
                self._new_closure(fv, st1)  # where it was defined; its defaults, evaluated now

                def app(st2, k, val):
                    if k < 0:
                        self.bind_name(st2, node.name, val)
                        yield st2, None
                        return
                    for st3, r in self.call(dvals[k], [val], {}, st2):
                        if isinstance(r, Exc):
                            yield st3, ("raise", r.exc)
                        else:
                            yield from app(st3, k - 1, r)

                yield from app(st1, len(decs) - 1, fv)

    # decorators whose result behaves, for every call, like the function they are given
    _TRANSPARENT_DECORATORS = {
        "staticmethod", "classmethod", "property", "setter", "getter", "deleter", "cached_property",  # interpreted by the attribute model
        "abstractmethod", "abstractproperty",  # abc: marks only
        "HOOKIMPL", "HOOKSPEC",  # pluggy markers: return the function with a marker attribute
        "lemma", "overload",
    }

    def transparent_decorator(self, d):
        if isinstance(d, ast.Call):
            nm = d.func.attr if isinstance(d.func, ast.Attribute) else getattr(d.func, "id", None)
            return nm in ("lemma",)
        nm = d.attr if isinstance(d, ast.Attribute) else getattr(d, "id", None)
        if nm == "timed":
            self.trust("timed", "armi.utils.codeTiming.timed: the timing wrapper calls the function with the same arguments and returns its result")
            return True
        return nm in self._TRANSPARENT_DECORATORS

    def decorated(self, f, st):
        """A module- or class-level function with decorators the engine does not interpret itself: CPython binds the name
        to decorator(function), so that is what a call must run.  The decorators are applied the first time the function
        is used on a path (bottom-up, in the module's namespace) and the result is kept for the rest of the path."""
        key = ("decorated", id(f.node))
        d = st.ghost.get(key)
        if d is not None:
            return d
        import copy as _copy

        val = _copy.copy(f)
        val.raw = True
        for dn in reversed([d for d in f.node.decorator_list if not self.transparent_decorator(d)]):
            st.frames.append(Frame({}, None, f.module, f.cls))
            try:
                outs = list(self.ev(dn, st))
                if len(outs) != 1 or outs[0][0] is not st or isinstance(outs[0][1], Exc):
                    raise Unsupported("decorator of %s does not evaluate to one value" % f.qualname())
                outs = list(self.call(outs[0][1], [val], {}, st))
                if len(outs) != 1 or outs[0][0] is not st or isinstance(outs[0][1], Exc):
                    raise Unsupported("decorator of %s forks or raises" % f.qualname())
                val = outs[0][1]
            finally:
                st.frames.pop()
        if not isinstance(val, (FuncVal, Partial, BoundMethod)) and not (isinstance(val, Ref) and st.get(val).kind == "obj"):
            raise Unsupported("decorator of %s returns a non-function" % f.qualname())
        st.ghost[key] = val
        self._global_keep.append(f.node)
        return val

    def ex_For(self, node, st):
        yield from self.models.exec_for(self, st, node)

    def ex_While(self, node, st):
        yield from self.models.exec_while(self, st, node)

    def ex_Break(self, node, st):
        yield st, ("break",)

    def ex_Continue(self, node, st):
        yield st, ("continue",)


class FrozenList:
    def __init__(self, items):
        self.items = items


class FrozenDict:
    def __init__(self, items):
        self.items = items


class FrozenObj:
    def __init__(self, cls, attrs):
        self.cls = cls
        self.attrs = attrs


class FrozenNd:
    def __init__(self, shape, data):
        self.shape = shape
        self.data = data


class _NoneMerged:
    def __repr__(self):
        return "None"


_NONE_MERGED = None  # merging None with None yields None (kept as a name for readability)
