"""Models of builtins, containers, attribute access and loops (trusted base A3, A7).

Everything here is an *assumption about Python*, not about armi; each model that is actually
used registers itself through Interp.trust so the evidence lists it.
"""
import ast
import builtins as _b
from fractions import Fraction

import z3

from . import ops
from . import keyed
from .ops import exc, binop, neg, is_number  # noqa: F401 (re-exported for symex)
from .values import *  # noqa
from .values import (
    Ref, ListE, DequeE, SetE, DictE, ObjE, NdE, SymListE, FuncVal, BoundMethod, ClassVal, BuiltinClass,
    ModuleVal, Builtin, ExcVal, Exc, Opaque, SliceVal, SuperVal, Unknown, Unsupported, EngineError,
    is_z3, z3val, coerce_pair, as_arith, is_intlike, is_reallike, is_boollike,
)
from .heap import HeapSeq, heap_is_obj, heap_none, heap_getattr, heap_setattr  # noqa: F401


class SymRange:
    def __init__(self, lo, hi, step=1):
        self.lo, self.hi, self.step = lo, hi, step


class CountIter:
    def __init__(self, start, step=1):
        self.start, self.step = start, step


class EnumIter:
    def __init__(self, inner, start=0):
        self.inner, self.start = inner, start


class NamedTuple(tuple):
    """Instance of a collections.namedtuple class from the repo."""

    def __new__(cls, vals, fields, clsval):
        t = tuple.__new__(cls, vals)
        t.fields = fields
        t.clsval = clsval
        return t


def is_flagval(v):
    return False


def flag_binop(I, st, op, a, b):
    raise Unsupported("Flags arithmetic")


# ---------------------------------------------------------------------------- equality / comparison
def eq_values(I, st, a, b):
    """Structural/pythonic ==  -> python bool or z3 Bool.  Objects with __eq__ are handled in compare()."""
    from .symex import FrozenList

    if (isinstance(a, Opaque) and a.desc == "nan") or (isinstance(b, Opaque) and b.desc == "nan"):
        # NaN is not equal to itself, but containers compare their items by identity first (`nan in [nan]` is True for
        # the same object, False for another NaN object; numpy makes a new scalar object on every element access):
        # `==` / `!=` on NaN itself are answered in compare(); inside containers the outcome depends on object identity
        raise Unsupported("equality of values involving nan (depends on object identity)")
    if a is b:
        if not (is_z3(a)):
            return True
    if type(a).__name__ == "DtypeVal" or type(b).__name__ == "DtypeVal":
        # numpy dtype == dtype / dtype == "O" (a dtype name)
        from .npmodel import as_dtype_kind

        if not (type(a).__name__ == "DtypeVal" or isinstance(a, str)) or not (type(b).__name__ == "DtypeVal" or isinstance(b, str)):
            raise Unsupported("== between a dtype and %r" % ((b if type(a).__name__ == "DtypeVal" else a),))
        return as_dtype_kind(a) == as_dtype_kind(b)
    from . import bytesmodel as _bm
    from .heap import HObj as _HObj, unwrap as _unwrap

    if isinstance(a, _HObj) or isinstance(b, _HObj):
        if (a is None or isinstance(a, _HObj)) and (b is None or isinstance(b, _HObj)):
            return _unwrap(a) == _unwrap(b)
        return False
    if isinstance(a, (_bm.BytesVal, bytes)) or isinstance(b, (_bm.BytesVal, bytes)):
        if not (isinstance(a, (_bm.BytesVal, bytes)) and isinstance(b, (_bm.BytesVal, bytes))):
            return False
        if isinstance(a, bytes) and isinstance(b, bytes):
            return a == b
        pa, pb = _bm.to_bytesval(I, st, a).parts, _bm.to_bytesval(I, st, b).parts
        if len(pa) != len(pb):
            raise Unsupported("== on byte strings with different field structure")
        out = []
        for x, y in zip(pa, pb):
            if x.fmt != y.fmt:
                raise Unsupported("== on byte strings with different field structure")
            out.append(eq_values(I, st, x.length, y.length))
            out.append(eq_values(I, st, x.val, y.val))
        return conj(out)
    if a is None or b is None:
        if a is None and b is None:
            return True
        other = b if a is None else a
        if heap_is_obj(I, other):
            return other == heap_none(I)
        return False
    if isinstance(a, Inf) or isinstance(b, Inf):
        if isinstance(a, Inf) and isinstance(b, Inf):
            return a.sign == b.sign
        if isinstance(a, Opaque) or isinstance(b, Opaque):
            raise Unsupported("== on an uninterpreted value")
        return False  # A1: every other modelled number is finite
    if is_z3(a) or is_z3(b):
        if isinstance(a, (str, tuple, Ref, Opaque)) or isinstance(b, (str, tuple, Ref, Opaque)):
            return False
        if (is_z3(a) and not (z3.is_int(a) or z3.is_real(a) or z3.is_bool(a))) or (
            is_z3(b) and not (z3.is_int(b) or z3.is_real(b) or z3.is_bool(b))
        ):
            if is_z3(a) and is_z3(b) and a.sort() == b.sort():
                return a == b
            return False
        if is_boollike(a) and is_boollike(b):
            return z3val(a) == z3val(b)
        x, y, _ = coerce_pair(a, b)
        return x == y
    if isinstance(a, (bool, int, Fraction)) and isinstance(b, (bool, int, Fraction)):
        return a == b
    if isinstance(a, str) or isinstance(b, str):
        if (isinstance(a, FmtStr) and isinstance(b, str)) or (isinstance(b, FmtStr) and isinstance(a, str)):
            f, s_ = (a, b) if isinstance(a, FmtStr) else (b, a)
            # a complete string against a template: it must begin / end with the template's known beginning / ending
            if (f.parts[0][0] == "lit" and not s_.startswith(f.parts[0][1])) or (f.parts[-1][0] == "lit" and not s_.endswith(f.parts[-1][1])):
                return False
            ints = [p for p in f.parts if p[0] == "int"]
            if len(ints) == 1 and len(f.parts) <= 3:
                # prefix + ONE integer field + suffix: equal iff the middle of the string is the canonical rendering of an
                # integer under the field's width / fill, and the field has that value
                pre = f.parts[0][1] if f.parts[0][0] == "lit" else ""
                suf = f.parts[-1][1] if f.parts[-1][0] == "lit" else ""
                if len(pre) + len(suf) > len(s_):
                    return False
                mid = s_[len(pre):len(s_) - len(suf)]
                _, term, width, fill = ints[0]
                spec_ = ("0" if fill == "0" else "") + (str(width) if width else "") + "d"
                import re as _re
                if _re.fullmatch(r" *-?[0-9]+", mid) is None or format(int(mid), spec_) != mid:
                    return False
                return term == int(mid)
        if isinstance(a, Opaque) or isinstance(b, Opaque):
            raise Unsupported("== between a string and an uninterpreted value (%s)" % (a.desc if isinstance(a, Opaque) else b.desc))
        return isinstance(a, str) and isinstance(b, str) and a == b
    if isinstance(a, tuple) and isinstance(b, tuple):
        return seq_eq(I, st, list(a), list(b))
    if isinstance(a, tuple) or isinstance(b, tuple):
        return False
    if (isinstance(a, Ref) and st.get(a).kind == "obj") or (isinstance(b, Ref) and st.get(b).kind == "obj"):
        # an element / value / key comparison inside a container comparison, `in`, list.index/count/remove ...: CPython
        # (PyObject_RichCompareBool) answers True for the SAME object and otherwise calls the objects' own __eq__
        # (obj_has -> class_lookup refuses the __eq__ that @dataclass generates: Unsupported)
        if not (isinstance(a, Ref) and isinstance(b, Ref) and a.id == b.id):
            if obj_has(I, st, a, "__eq__") is not None or obj_has(I, st, b, "__eq__") is not None:
                outs = list(compare(I, st, "Eq", a, b))
                if len(outs) != 1 or isinstance(outs[0][1], Exc) or outs[0][0] is not st:
                    raise Unsupported("== inside a container comparison through a user-defined __eq__ that forks or raises")
                return outs[0][1]
    if is_view(st, a) or is_view(st, b):
        if isinstance(a, Ref) and isinstance(b, Ref) and a.id == b.id:
            return True
        # keys / items views compare as sets, values views by identity - never as the list the model keeps
        raise Unsupported("== on a dictionary view / an iterator object")
    if isinstance(a, Ref) and isinstance(b, Ref):
        ea, eb = st.get(a), st.get(b)
        if ea.kind != eb.kind:
            if {ea.kind, eb.kind} <= {"list", "deque"}:
                return False
            if any(x.kind == "obj" and "__list__" in x.attrs for x in (ea, eb)):
                raise Unsupported("== on an instance of a list subclass")
            if any(x.kind == "obj" and "__dictdata__" in x.attrs for x in (ea, eb)):
                # an instance of a dict subclass (without __eq__) compares as its mapping
                if any(x.kind == "obj" and I.class_lookup(x.cls, "__eq__")[0] is not None for x in (ea, eb)):
                    raise Unsupported("== on an instance of a dict subclass with __eq__")
                a2 = ea.attrs["__dictdata__"] if ea.kind == "obj" else a
                b2 = eb.attrs["__dictdata__"] if eb.kind == "obj" else b
                if st.get(a2).kind == "dict" and st.get(b2).kind == "dict":
                    return eq_values(I, st, a2, b2)
                return False
            return False
        if ea.kind in ("list", "deque"):
            return seq_eq(I, st, ea.items, eb.items)
        if ea.kind == "dict":
            if dict_symkeyed(ea) or dict_symkeyed(eb):
                raise Unsupported("== on dictionaries with symbolic keys")
            if set(ea.items) != set(eb.items):
                return False
            return conj([eq_values(I, st, ea.items[k], eb.items[k]) for k in ea.items])
        if ea.kind == "set":
            return set(ea.items) == set(eb.items)
        if ea.kind == "obj":
            if a.id != b.id and ("__list__" in ea.attrs or "__list__" in eb.attrs):
                raise Unsupported("== on instances of a list subclass")
            if a.id != b.id and ("__dictdata__" in ea.attrs or "__dictdata__" in eb.attrs):
                if any(I.class_lookup(x.cls, "__eq__")[0] is not None for x in (ea, eb)):
                    raise Unsupported("== on instances of a dict subclass with __eq__")
                if "__dictdata__" in ea.attrs and "__dictdata__" in eb.attrs:
                    return eq_values(I, st, ea.attrs["__dictdata__"], eb.attrs["__dictdata__"])
                return False
            return a.id == b.id
        if ea.kind == "symlist":
            if a.id == b.id:
                return True
            raise Unsupported("== on symbolic-length lists")
        raise Unsupported("== on %s" % ea.kind)
    if isinstance(a, Ref) or isinstance(b, Ref):
        return False
    if isinstance(a, (ClassVal, BuiltinClass, FuncVal, ModuleVal)) or isinstance(b, (ClassVal, BuiltinClass, FuncVal, ModuleVal)):
        return a == b if type(a) is type(b) else False
    if isinstance(a, frozenset) and isinstance(b, frozenset):
        return a == b
    if isinstance(a, FmtStr) and isinstance(b, FmtStr):
        r = fmtstr_eq(a, b)
        if r is not None:
            return r
    if isinstance(a, Opaque) or isinstance(b, Opaque):
        raise Unsupported("== on an uninterpreted value")
    if isinstance(a, EnumMember) and isinstance(b, EnumMember):
        return a.cls == b.cls and a.name == b.name
    if isinstance(a, EnumMember) or isinstance(b, EnumMember):
        return False
    try:
        return a == b
    except Exception:
        raise Unsupported("== on %r, %r" % (a, b))


def is_view(st, v):
    """v is a d.keys() / d.values() / d.items() view (values.DictViewE) or an iterator object (values.IterE): kept as a
    list by the model, but NOT a list in Python"""
    return isinstance(v, Ref) and st.store[v.id].__class__ in (DictViewE, IterE)


def is_iterator(st, v):
    return isinstance(v, Ref) and st.store[v.id].__class__ is IterE


def seq_eq(I, st, xs, ys):
    if len(xs) != len(ys):
        return False
    return conj([eq_values(I, st, x, y) for x, y in zip(xs, ys)])


def fmtstr_eq(a, b):
    """== of two formatted strings of the SAME known structure (same literals, same width / fill per integer field): the
    renderings are equal iff all integer fields are equal.  Exact when the rendering can be parsed back uniquely: every
    literal that follows an integer field starts with a non-digit and no two integer fields are adjacent (a field renders
    as padding + optional '-' + digits, so it ends exactly where the digits end).  None: not this case (caller: Unsupported)."""
    pa, pb = a.parts, b.parts
    # different known beginnings / endings: the renderings differ whatever the fields are
    la, lb = (pa[0][1] if pa[0][0] == "lit" else ""), (pb[0][1] if pb[0][0] == "lit" else "")
    if not (la.startswith(lb) or lb.startswith(la)):
        return False
    ta, tb = (pa[-1][1] if pa[-1][0] == "lit" else ""), (pb[-1][1] if pb[-1][0] == "lit" else "")
    if not (ta.endswith(tb) or tb.endswith(ta)):
        return False
    if len(pa) != len(pb):
        return None
    out = []
    for k in range(len(pa)):
        x, y = pa[k], pb[k]
        if x[0] != y[0]:
            return None
        if x[0] == "lit":
            if x[1] != y[1]:
                return None
            if k > 0 and pa[k - 1][0] == "int" and (x[1] == "" or x[1][0].isdigit()):
                return None
        else:
            if x[2:] != y[2:] or (k > 0 and pa[k - 1][0] == "int"):
                return None
            out.append(x[1] == y[1])
    return conj(out)


def conj(parts):
    zs = []
    for p in parts:
        if is_z3(p):
            zs.append(p)
        elif not p:
            return False
    if not zs:
        return True
    return z3.And(*zs) if len(zs) > 1 else zs[0]


def disj(parts):
    zs = []
    for p in parts:
        if is_z3(p):
            zs.append(p)
        elif p:
            return True
    if not zs:
        return False
    return z3.Or(*zs) if len(zs) > 1 else zs[0]


def znot(p):
    return z3.Not(p) if is_z3(p) else (not p)


def obj_has(I, st, v, name):
    if isinstance(v, Ref) and st.get(v).kind == "obj":
        m, _ = I.class_lookup(st.get(v).cls, name)
        return m
    return None


def _is_not_implemented(r):
    return isinstance(r, Opaque) and r.desc == "NotImplemented"


def _obj_cls(st, v):
    return st.get(v).cls if isinstance(v, Ref) and st.get(v).kind == "obj" else None


def _right_first(I, st, a, b, name):
    """CPython tries the right operand's (reflected) method before the left operand's when type(b) is a proper subclass of
    type(a) and provides the method"""
    ca, cb = _obj_cls(st, a), _obj_cls(st, b)
    if ca is None or cb is None or ca == cb or not I.is_subclass(cb, ca):
        return False
    return I.class_lookup(cb, name)[0] is not None


def _total_ordering(I, st, v):
    c = _obj_cls(st, v)
    if c is None:
        return False
    for k in I.mro(c):
        if isinstance(k, ClassVal):
            for d in k.node.decorator_list:
                if (d.attr if isinstance(d, ast.Attribute) else _b.getattr(d, "id", None)) == "total_ordering":
                    return True
    return False


def _cmp_truth(I, st, r):
    """the value of `a < b` / `a == b` is whatever the method returned (only `if` / `not` convert it); the model hands
    comparison results on as truth values, which is the same thing only for bools"""
    if isinstance(r, bool) or (is_z3(r) and z3.is_bool(r)):
        return r
    raise Unsupported("rich comparison method returned a non-bool value")


def compare(I, st, op, a, b):
    """yield (st, python bool | z3 Bool | Exc)"""
    from . import npmodel

    if op in ("Is", "IsNot"):
        r = identical(I, st, a, b)
        yield st, (r if op == "Is" else znot(r))
        return
    if op in ("In", "NotIn"):
        for st1, r in contains(I, st, b, a):
            yield st1, (r if (op == "In" or isinstance(r, Exc)) else znot(r))
        return
    nd = lambda v: isinstance(v, Ref) and st.get(v).kind == "nd"
    if nd(a) or nd(b):
        yield from npmodel.nd_compare(I, st, op, a, b)
        return
    if npmodel.is_nan(a) or npmodel.is_nan(b):
        # IEEE / CPython: every comparison with NaN is False - also nan == nan - and != is True
        other = b if npmodel.is_nan(a) else a
        if npmodel.is_nan(other) or is_number(other) or isinstance(other, Inf):
            yield st, op == "NotEq"
            return
    if op in ("Eq", "NotEq"):
        if op == "NotEq" and (obj_has(I, st, a, "__ne__") is not None or obj_has(I, st, b, "__ne__") is not None):
            # a user-defined __ne__ is what != calls (only the DEFAULT __ne__ inverts __eq__)
            if _right_first(I, st, a, b, "__ne__") or obj_has(I, st, a, "__ne__") is None:
                a, b = b, a
            m = obj_has(I, st, a, "__ne__")
            for st1, r in I.call(m, [a, b], {}, st):
                if isinstance(r, Exc):
                    yield st1, r
                elif _is_not_implemented(r):
                    raise Unsupported("__ne__ returned NotImplemented")
                else:
                    yield st1, _cmp_truth(I, st1, r)
            return
        m = obj_has(I, st, a, "__eq__")
        if (m is None and obj_has(I, st, b, "__eq__") is not None) or _right_first(I, st, a, b, "__eq__"):
            # the right operand's __eq__ is the one to call when the left has none, and FIRST when the right operand's
            # class is a proper subclass of the left operand's class
            a, b = b, a
            m = obj_has(I, st, a, "__eq__")
        if m is not None:
            for st1, r in I.call(m, [a, b], {}, st):
                if isinstance(r, Exc):
                    yield st1, r
                elif _is_not_implemented(r):
                    # CPython then asks the other operand and finally falls back to identity
                    raise Unsupported("__eq__ returned NotImplemented")
                else:
                    t = _cmp_truth(I, st1, r)
                    yield st1, (t if op == "Eq" else znot(t))
            return
        r = eq_values(I, st, a, b)
        yield st, (r if op == "Eq" else znot(r))
        return
    # ordering: a.__op__(b); if that is missing (or returns NotImplemented) the REFLECTED method of b: a < b -> b.__gt__(a);
    # the reflected method comes first when type(b) is a proper subclass of type(a); functools.total_ordering derives the
    # missing methods from __lt__ and __eq__
    dunders = {"Lt": "__lt__", "LtE": "__le__", "Gt": "__gt__", "GtE": "__ge__"}
    dunder = dunders[op]
    rdunder = dunders[{"Lt": "Gt", "LtE": "GtE", "Gt": "Lt", "GtE": "LtE"}[op]]
    m = obj_has(I, st, a, dunder)
    mr = obj_has(I, st, b, rdunder)
    if (m is None and _total_ordering(I, st, a)) or (mr is None and _total_ordering(I, st, b)):
        if m is not None:
            pass
        elif _total_ordering(I, st, a) and obj_has(I, st, a, "__lt__") is not None and not isinstance(obj_has(I, st, a, "__eq__"), type(None)) and all(
                obj_has(I, st, a, d) is None for d in ("__le__", "__gt__", "__ge__")):
            lt = obj_has(I, st, a, "__lt__")
            for st1, r in I.call(lt, [a, b], {}, st):
                if isinstance(r, Exc):
                    yield st1, r
                    continue
                if _is_not_implemented(r):
                    raise Unsupported("__lt__ returned NotImplemented under total_ordering")
                for st2, isLt in I.branch(st1, _cmp_truth(I, st1, r)):
                    if op == "GtE":  # not (a < b)
                        yield st2, (not isLt)
                    elif op == "LtE":  # a < b or a == b
                        if isLt:
                            yield st2, True
                        else:
                            yield from compare(I, st2, "Eq", a, b)
                    else:  # Gt: not (a < b) and a != b
                        if isLt:
                            yield st2, False
                        else:
                            yield from compare(I, st2, "NotEq", a, b)
            return
        else:
            raise Unsupported("functools.total_ordering: comparison derived from a method other than __lt__")
    first_reflected = mr is not None and _right_first(I, st, a, b, rdunder)
    if m is not None and not first_reflected:
        for st1, r in I.call(m, [a, b], {}, st):
            if not isinstance(r, Exc) and _is_not_implemented(r):
                if mr is None:
                    yield st1, exc("TypeError", "'%s' not supported between %r and %r" % (op, a, b))
                    continue
                for st2, r2 in I.call(mr, [b, a], {}, st1):
                    if not isinstance(r2, Exc) and _is_not_implemented(r2):
                        yield st2, exc("TypeError", "'%s' not supported between %r and %r" % (op, a, b))
                    else:
                        yield st2, (r2 if isinstance(r2, Exc) else _cmp_truth(I, st2, r2))
                continue
            yield st1, (r if isinstance(r, Exc) else _cmp_truth(I, st1, r))
        return
    if mr is not None:
        for st1, r in I.call(mr, [b, a], {}, st):
            if not isinstance(r, Exc) and _is_not_implemented(r):
                if m is not None:
                    raise Unsupported("reflected comparison returned NotImplemented")
                yield st1, exc("TypeError", "'%s' not supported between %r and %r" % (op, a, b))
                continue
            yield st1, (r if isinstance(r, Exc) else _cmp_truth(I, st1, r))
        return
    if isinstance(a, tuple) and isinstance(b, tuple):
        yield st, tuple_order(I, st, op, list(a), list(b))
        return
    if isinstance(a, str) and isinstance(b, str):
        yield st, {"Lt": a < b, "LtE": a <= b, "Gt": a > b, "GtE": a >= b}[op]
        return
    if isinstance(a, Inf) or isinstance(b, Inf):
        if not all(isinstance(x, Inf) or is_number(x) for x in (a, b)):
            yield st, exc("TypeError", "'%s' not supported between %r and %r" % (op, a, b))
            return
        # A1: every modelled number is finite, i.e. strictly between -inf and +inf
        ra = a.sign if isinstance(a, Inf) else 0
        rb = b.sign if isinstance(b, Inf) else 0
        yield st, {"Lt": ra < rb, "LtE": ra <= rb and (ra != 0 or rb != 0), "Gt": ra > rb, "GtE": ra >= rb and (ra != 0 or rb != 0)}[op]
        return
    if a is None or b is None or not (is_number(a) and is_number(b)):
        # TypeError only where CPython certainly raises it (None / number / str / tuple of different kinds, or an object
        # without the dunder); list < list, set < set, bytes, uninterpreted values ... are outside the model
        def plain(v):
            return v is None or is_number(v) or isinstance(v, (str, tuple)) or (isinstance(v, Ref) and st.get(v).kind == "obj")

        if not (plain(a) and plain(b)) or obj_has(I, st, b, {"Lt": "__gt__", "LtE": "__ge__", "Gt": "__lt__", "GtE": "__le__"}[op]) is not None:
            raise Unsupported("ordering comparison %s between %s and %s" % (op, type(a).__name__, type(b).__name__))
        yield st, exc("TypeError", "'%s' not supported between %r and %r" % (op, a, b))
        return
    yield st, ops.num_compare(op, a, b)


def tuple_order(I, st, op, xs, ys):
    """lexicographic comparison of equal-typed tuples of numbers"""
    strict = op in ("Lt", "Gt")
    lt = op in ("Lt", "LtE")
    if not xs or not ys:
        if lt:
            return (len(xs) < len(ys)) if strict else (len(xs) <= len(ys))
        return (len(xs) > len(ys)) if strict else (len(xs) >= len(ys))
    x, y = xs[0], ys[0]
    if isinstance(x, tuple) and isinstance(y, tuple):
        first = tuple_order(I, st, "Lt" if lt else "Gt", list(x), list(y))
    else:
        first = ops.num_compare("Lt" if lt else "Gt", x, y)
    e = eq_values(I, st, x, y)
    rest = tuple_order(I, st, op, xs[1:], ys[1:])
    return disj([first, conj([e, rest])])


def identical(I, st, a, b):
    from .heap import HObj as _HObj, unwrap as _unwrap

    if isinstance(a, _HObj) or isinstance(b, _HObj):
        if (a is None or isinstance(a, _HObj)) and (b is None or isinstance(b, _HObj)):
            return _unwrap(a) == _unwrap(b)
        return False
    if a is None or b is None:
        if a is None and b is None:
            return True
        other = b if a is None else a
        if heap_is_obj(I, other):
            return other == heap_none(I)
        return False
    if isinstance(a, Ref) or isinstance(b, Ref):
        return isinstance(a, Ref) and isinstance(b, Ref) and a.id == b.id
    if is_z3(a) and is_z3(b) and heap_is_obj(I, a) and heap_is_obj(I, b):
        return a == b
    if isinstance(a, bool) or isinstance(b, bool):
        if is_z3(a) or is_z3(b):
            if is_boollike(a) and is_boollike(b):
                return z3val(a) == z3val(b)
            return False
        return a is b
    if isinstance(a, (ClassVal, BuiltinClass)) or isinstance(b, (ClassVal, BuiltinClass)):
        return a == b if type(a) is type(b) else False
    if isinstance(a, EnumMember) or isinstance(b, EnumMember):
        return eq_values(I, st, a, b)
    if isinstance(a, (int, str, Fraction)) and isinstance(b, (int, str, Fraction)):
        return a == b and type(a) is type(b)
    if is_z3(a) or is_z3(b):
        I.trust("is-on-numbers", "`is` between numbers is treated as ==")
        return eq_values(I, st, a, b)
    if isinstance(a, tuple) and isinstance(b, tuple):
        return a is b or (len(a) == 0 and len(b) == 0)
    if isinstance(a, FuncVal) and isinstance(b, FuncVal):
        return a.node is b.node
    return a is b


def contains(I, st, container, item):
    """yield (st, bool-ish)"""
    from .symex import FrozenList, FrozenDict

    if isinstance(container, HeapSeq):
        yield from container.contains(I, st, item)
        return
    from .attrs import ObjDict as _ObjDict

    if isinstance(container, _ObjDict):
        if not isinstance(item, str):
            raise Unsupported("`in` on __dict__ with a non-string key")
        yield st, item in container.attrs(st)
        return
    from .heap import HObj as _HObj

    if isinstance(container, _HObj) and container.cls is not None:
        m, _ = I.class_lookup(container.cls, "__contains__")
        if m is None:
            raise Unsupported("`in` on a heap object without __contains__")
        for st1, r in I.call(m, [container, item], {}, st):
            yield st1, (r if isinstance(r, Exc) else I.truth(r, st1))
        return
    if isinstance(container, (tuple, FrozenList)):
        items = list(container) if isinstance(container, tuple) else container.items
        yield st, disj([eq_values(I, st, x, item) for x in items])
        return
    if isinstance(container, frozenset):
        I.hashable(item)
        yield st, item in container
        return
    if isinstance(container, FrozenDict):
        yield st, I.hashable(item) in container.items
        return
    if isinstance(container, str):
        if isinstance(item, str):
            yield st, item in container
            return
        raise Unsupported("symbolic substring test")
    if isinstance(container, SymRange):
        lo, hi = container.lo, container.hi
        if container.step != 1:
            raise Unsupported("in range with step")
        yield st, conj([ops.num_compare("LtE", lo, item), ops.num_compare("Lt", item, hi)])
        return
    if is_iterator(st, container):
        raise Unsupported("`in` on an iterator object (consumes it up to the first match)")
    if isinstance(container, Ref):
        e = st.get(container)
        if e.kind in ("list", "deque"):
            # membership uses == (and identity); objects without __eq__ compare by identity
            parts = []
            for x in e.items:
                if obj_has(I, st, x, "__eq__") is not None or obj_has(I, st, item, "__eq__") is not None:
                    if isinstance(x, Ref) and isinstance(item, Ref) and x.id == item.id:
                        parts.append(True)
                        continue
                    # list.__contains__: element == item through the objects' __eq__ (no fork, no exception: else unsupported)
                    outs = list(compare(I, st, "Eq", x, item))
                    if len(outs) != 1 or isinstance(outs[0][1], Exc) or outs[0][0] is not st:
                        raise Unsupported("`in` over objects with __eq__ that forks or raises")
                    parts.append(outs[0][1])
                    continue
                parts.append(eq_values(I, st, x, item))
            yield st, disj(parts)
            return
        if e.kind == "set":
            yield st, I.set_elem(st, item, e.items) in e.items
            return
        if e.kind == "dict":
            if symmode(I, st, e, item):
                # symbolic key against the keys (or a key against symbolic keys)
                check_symkey(I, item)
                yield st, disj([eq_values(I, st, k, item) for k in e.items])
                return
            if keyed.needs_resolution(I, st, e.items, item):
                for st1, k1, found in keyed.resolve_key(I, st, container, item):
                    yield st1, (k1 if isinstance(k1, Exc) else found)
                return
            yield st, I.hashable(item) in e.items
            return
        if e.kind == "symlist":
            k = I.fresh("int", "k")
            I.trust("symlist-in", "x in L over a symbolic list is Exists k. 0<=k<len(L) and L[k]==x")
            yield st, z3.Exists([k], z3.And(k >= 0, k < e.length, z3.Select(e.arr, k) == z3val(item)))
            return
        if e.kind == "obj":
            m, _ = I.class_lookup(e.cls, "__contains__")
            if m is not None:
                for st1, r in I.call(m, [container, item], {}, st):
                    yield st1, (r if isinstance(r, Exc) else I.truth(r, st1))
                return
            m, _ = I.class_lookup(e.cls, "__iter__")
            if m is not None:
                items = I.iterate(container, st)
                yield st, disj([eq_values(I, st, x, item) for x in items])
                return
            if "__list__" in e.attrs:
                yield from contains(I, st, e.attrs["__list__"], item)
                return
            if "__dictdata__" in e.attrs:
                yield from contains(I, st, e.attrs["__dictdata__"], item)
                return
        if e.kind == "nd":
            yield st, disj([eq_values(I, st, x, item) for x in e.data])
            return
    raise Unsupported("`in` on %r" % (container,))


# ---------------------------------------------------------------------------- subscripts
def norm_index(n, i):
    if i < 0:
        i += n
    return i


def slice_cases(I, st, n, s):
    """A slice whose bounds may be symbolic, on a sequence of concrete length n.
    -> list of (state, python slice): forks over the feasible clamped values of each symbolic bound (step concrete)."""
    def cases(st, v, is_lo):
        v = as_arith(v)
        if v is None or isinstance(v, int):
            return [(st, v)]
        if isinstance(v, Fraction) and v.denominator == 1:
            return [(st, int(v))]
        if not (is_z3(v) and z3.is_int(v)):
            raise Unsupported("slice bound %r" % (v,))
        out = []
        if s.step is not None and s.step < 0:
            # with a negative step a bound below -n means "before the first element" (it clamps to -1, not to 0):
            # l[-n::-1] == [l[0]] but l[-n-1::-1] == [], l[:-n:-1] stops before l[0] but l[:-n-1:-1] includes it
            conds = [(v <= -n - 1, -n - 1)] + [(v == k, k) for k in range(-n, n)] + [(v >= n, n)]
        else:
            conds = [(v <= -n, -n)] + [(v == k, k) for k in range(-n + 1, n)] + [(v >= n, n)]
        for c, val in conds:
            if I.feasible(st, c):
                s2 = st.fork()
                s2.pc.append(c)
                out.append((s2, val))
        return out

    if s.step is not None and not isinstance(s.step, int):
        raise Unsupported("symbolic slice step")
    res = []
    for st1, lo in cases(st, s.lo, True):
        for st2, hi in cases(st1, s.hi, False):
            res.append((st2, slice(lo, hi, s.step)))
    return res


def slice_concrete(I, n, s):
    def c(v):
        if v is None:
            return None
        if isinstance(v, int):
            return v
        if isinstance(v, Fraction) and v.denominator == 1:
            return int(v)
        raise Unsupported("symbolic slice bound")

    return slice(c(s.lo), c(s.hi), c(s.step))


def getitem(I, st, obj, idx):
    if is_view(st, obj):
        raise Unsupported("subscript of a dictionary view / an iterator object (TypeError in Python)")
    from . import npmodel
    from .symex import FrozenList, FrozenDict, FrozenNd

    if isinstance(obj, HeapSeq):
        yield from obj.getitem(I, st, idx)
        return
    from .attrs import ObjDict as _ObjDict

    if isinstance(obj, _ObjDict):
        if not isinstance(idx, str):
            raise Unsupported("__dict__ subscript with a non-string key")
        if idx in obj.attrs(st):
            yield st, obj.attrs(st)[idx]
        else:
            yield st, exc("KeyError", idx)
        return
    if isinstance(obj, FrozenNd):
        obj = I.thaw(obj, st)
    if isinstance(obj, ClassVal) and obj.__dict__.get("_xmeta", 0) is not None:
        from . import metaclass as _mc

        outs = _mc.class_getitem(I, st, obj, idx)  # Cls[key] -> type(Cls).__getitem__(Cls, key) of an executed metaclass
        if outs is not None:
            yield from outs
            return
    if isinstance(obj, (tuple, str, FrozenList)):
        seq = obj.items if isinstance(obj, FrozenList) else obj
        if isinstance(idx, SliceVal):
            for st1, sl in slice_cases(I, st, len(seq), idx):
                r = seq[sl]
                yield st1, (r if not isinstance(obj, FrozenList) else st1.alloc(ListE(r)))
            return
        yield from index_concrete_seq(I, st, list(seq), idx, obj)
        return
    if isinstance(obj, FrozenDict):
        k = I.hashable(idx)
        if k in obj.items:
            yield st, I.thaw(obj.items[k], st)
        else:
            yield st, exc("KeyError", k)
        return
    if isinstance(obj, Ref):
        e = st.get(obj)
        if e.kind in ("list", "deque"):
            if isinstance(idx, SliceVal):
                for st1, sl in slice_cases(I, st, len(e.items), idx):
                    yield st1, st1.alloc(ListE(st1.get(obj).items[sl]))
                return
            yield from index_concrete_seq(I, st, e.items, idx, obj)
            return
        if e.kind == "dict":
            if symmode(I, st, e, idx):
                yield from dict_symbolic_get(I, st, e, idx)
                return
            if keyed.needs_resolution(I, st, e.items, idx):
                if e.__dict__.get("default_factory") is not None:
                    raise Unsupported("defaultdict with keys that need == resolution")
                for st1, k1, found in keyed.resolve_key(I, st, obj, idx):
                    if isinstance(k1, Exc):
                        yield st1, k1
                    elif found:
                        yield st1, st1.get(obj).items[k1]
                    else:
                        yield st1, exc("KeyError", k1)
                return
            k = I.hashable(idx)
            if k in e.items:
                yield st, e.items[k]
            else:
                m = e.__dict__.get("default_factory")
                if m is not None:
                    for st1, v in I.call(m, [], {}, st):
                        if not isinstance(v, Exc):
                            st1.get(obj).items[k] = v
                        yield st1, v
                    return
                yield st, exc("KeyError", k)
            return
        if e.kind == "symlist":
            if isinstance(idx, SliceVal):
                if idx.lo is None and idx.step is None and idx.hi is not None:
                    # prefix L[:k]  (python clamps k into [0, len]; negative k counts from the end)
                    k = z3val(as_arith(idx.hi))
                    n = e.length
                    kk = z3.If(k < 0, z3.If(k + n < 0, z3.IntVal(0), k + n), z3.If(k > n, n, k))
                    yield st, st.alloc(SymListE(z3.simplify(kk), e.arr))
                    return
                raise Unsupported("slice of symbolic-length list (only prefixes L[:k] are modelled)")
            i = z3val(as_arith(idx))
            if not z3.is_int(i):
                yield st, exc("TypeError", "list indices must be integers")
                return
            n = e.length
            for st1, ok in I.branch(st, z3.And(i >= -n, i < n)):
                if ok:
                    j = z3.If(i < 0, i + n, i)
                    yield st1, z3.Select(st1.get(obj).arr, z3.simplify(j))
                else:
                    yield st1, exc("IndexError", "list index out of range")
            return
        if e.kind == "nd":
            yield from npmodel.nd_getitem(I, st, obj, idx)
            return
        if e.kind == "obj":
            m, _ = I.class_lookup(e.cls, "__getitem__")
            if m is None and "__tuple__" in e.attrs:
                yield from getitem(I, st, e.attrs["__tuple__"], idx)
                return
            if m is None and "__list__" in e.attrs:
                if isinstance(idx, SliceVal):
                    raise Unsupported("slice of an instance of a list subclass")
                yield from getitem(I, st, e.attrs["__list__"], idx)
                return
            if m is None and "__dictdata__" in e.attrs:
                yield from getitem(I, st, e.attrs["__dictdata__"], idx)
                return
            if m is None:
                yield st, exc("TypeError", "object is not subscriptable")
                return
            yield from I.call(m, [obj, idx], {}, st)
            return
    if isinstance(obj, ClassVal) and is_enum_class(I, obj):
        # EnumClass["NAME"]: the member of that name, KeyError otherwise
        from .attrs import enum_member

        if not isinstance(idx, str):
            raise Unsupported("enum class subscript with a non-string")
        m, _ = I.class_lookup(obj, idx)
        mem = enum_member(I, st, obj, idx) if (m is not None and not idx.startswith("_")) else None
        if isinstance(mem, EnumMember):
            yield st, mem
        else:
            yield st, exc("KeyError", idx)
        return
    if isinstance(obj, (ClassVal, BuiltinClass, Opaque)):
        yield st, obj  # typing generics: List[int]
        return
    if isinstance(obj, SymRange):
        yield st, ops_add(obj.lo, idx)
        return
    if obj is None:
        yield st, exc("TypeError", "'NoneType' object is not subscriptable")
        return
    raise Unsupported("subscript of %r" % (obj,))


def ops_add(a, b):
    x, y, sym = coerce_pair(a, b)
    return x + y


def index_concrete_seq(I, st, items, idx, orig):
    idx = as_arith(idx)
    n = len(items)
    if isinstance(idx, int):
        if -n <= idx < n:
            yield st, items[idx]
        else:
            yield st, exc("IndexError", "index out of range")
        return
    if isinstance(idx, Fraction):
        yield st, exc("TypeError", "indices must be integers")
        return
    if is_z3(idx) and z3.is_int(idx):
        # symbolic index into a concrete-length sequence: fork per feasible position
        inrange = z3.And(idx >= -n, idx < n)
        for st1, ok in I.branch(st, inrange):
            if not ok:
                yield st1, exc("IndexError", "index out of range")
                continue
            merged = None
            if n and all(is_number(x) for x in items):
                j = z3.If(idx < 0, idx + n, idx)
                try:
                    vals = [z3val(as_arith(x)) for x in items]
                    if any(z3.is_real(v) for v in vals):
                        vals = [z3.ToReal(v) if z3.is_int(v) else v for v in vals]
                    if len({v.sort() for v in vals}) == 1:
                        r = vals[-1]
                        for k in range(n - 2, -1, -1):
                            r = z3.If(j == k, vals[k], r)
                        merged = r
                except Unsupported:
                    merged = None
            if merged is not None:
                yield st1, merged
                continue
            for k in range(-n, n):
                if I.feasible(st1, idx == k):
                    st2 = st1.fork()
                    st2.pc.append(idx == k)
                    yield st2, items[k]
        return
    raise Unsupported("index %r" % (idx,))


def has_symkey(k):
    """a numeric z3 term, or a tuple containing one, used as dictionary key"""
    if is_z3(k):
        return True
    if isinstance(k, tuple):
        return any(has_symkey(x) for x in k)
    return False


def dict_symkeyed(e):
    return any(has_symkey(k) for k in e.items)


def symmode(I, st, e, idx=None):
    """the dictionary model for symbolic numeric keys applies (no key with a user-defined __eq__ takes part: pyvc/keyed.py)"""
    if not ((idx is not None and has_symkey(idx)) or dict_symkeyed(e)):
        return False
    return not keyed.user_eq_involved(I, st, e.items, idx)


def check_symkey(I, k):
    """keys the dictionary model accepts: concrete hashables, Int/Real terms, tuples of those"""
    if is_z3(k):
        if not (z3.is_int(k) or z3.is_real(k)):
            raise Unsupported("symbolic dictionary/set key")
        return k
    if isinstance(k, tuple):
        for x in k:
            check_symkey(I, x)
        return k
    return I.hashable(k)


def dict_store(I, st, obj, idx, v):
    """d[idx] = v with Python semantics when idx or some key of d is symbolic: an entry whose key EQUALS idx keeps its
    key and gets the value (one path per key that can equal idx, the equality joins the path condition); otherwise
    idx becomes a new key (and is known to differ from every other key on that path).  Keys of one dictionary are
    therefore pairwise different on every path, so len() stays the number of entries."""
    e = st.get(obj)
    check_symkey(I, idx)
    if not has_symkey(idx) and not dict_symkeyed(e):
        e.items[idx] = v
        yield st, None
        return
    if idx in e.items:  # structurally the same key
        e.items[idx] = v
        yield st, None
        return
    keys = list(e.items)
    for k in keys:
        c = eq_values(I, st, k, idx)
        if c is False:
            continue
        if I.feasible(st, c):
            st2 = st.fork()
            if is_z3(c):
                st2.pc.append(c)
            st2.get(obj).items[k] = v
            yield st2, None
    none = conj([znot(eq_values(I, st, k, idx)) for k in keys])
    if none is not False and I.feasible(st, none):
        st3 = st.fork()
        if is_z3(none):
            st3.pc.append(none)
        st3.get(obj).items[idx] = v
        yield st3, None


def dict_symbolic_get(I, st, e, idx):
    check_symkey(I, idx)
    if e.__dict__.get("default_factory") is not None:
        raise Unsupported("defaultdict with a symbolic key")
    keys = list(e.items)
    for k in keys:
        c = eq_values(I, st, k, idx)
        if I.feasible(st, c):
            st2 = st.fork()
            if is_z3(c):
                st2.pc.append(c)
            yield st2, e.items[k]
    none = conj([znot(eq_values(I, st, k, idx)) for k in keys])
    if I.feasible(st, none):
        st3 = st.fork()
        if is_z3(none):
            st3.pc.append(none)
        yield st3, exc("KeyError", "symbolic key")


def setitem(I, st, obj, idx, v):
    if is_view(st, obj):
        raise Unsupported("subscript of a dictionary view / an iterator object (TypeError in Python)")
    from . import npmodel

    if isinstance(obj, HeapSeq):
        yield from obj.setitem(I, st, idx, v)
        return
    from .attrs import ObjDict as _ObjDict

    if isinstance(obj, _ObjDict):
        if not isinstance(idx, str):
            raise Unsupported("__dict__ item assignment with a non-string key")
        obj.attrs(st)[idx] = v
        yield st, None
        return
    if isinstance(obj, Ref):
        e = st.get(obj)
        if e.kind in ("list", "deque"):
            if isinstance(idx, SliceVal):
                sl = slice_concrete(I, len(e.items), idx)
                new_items = I.iterate(v, st)
                try:
                    e.items[sl] = new_items  # python's own list slice assignment (any step, any length)
                except ValueError as err:  # extended slice of another size / step 0
                    yield st, exc("ValueError", str(err))
                    return
                yield st, None
                return
            idx = as_arith(idx)
            if isinstance(idx, int):
                if -len(e.items) <= idx < len(e.items):
                    e.items[idx] = v
                    yield st, None
                else:
                    yield st, exc("IndexError", "list assignment index out of range")
                return
            if is_z3(idx):
                n = len(e.items)
                for st1, ok in I.branch(st, z3.And(idx >= -n, idx < n)):
                    if not ok:
                        yield st1, exc("IndexError", "list assignment index out of range")
                        continue
                    for k in range(-n, n):
                        if I.feasible(st1, idx == k):
                            st2 = st1.fork()
                            st2.pc.append(idx == k)
                            st2.get(obj).items[k] = v
                            yield st2, None
                return
        if e.kind == "dict":
            if symmode(I, st, e, idx):
                yield from dict_store(I, st, obj, idx, v)
                return
            if not is_z3(idx) and keyed.needs_resolution(I, st, e.items, idx):
                # an equal stored key keeps its place (and identity) and gets the new value, as in Python
                for st1, k1, found in keyed.resolve_key(I, st, obj, idx):
                    if isinstance(k1, Exc):
                        yield st1, k1
                    else:
                        st1.get(obj).items[k1] = v
                        yield st1, None
                return
            e.items[I.hashable(idx)] = v
            yield st, None
            return
        if e.kind == "symlist":
            i = z3val(as_arith(idx))
            n = e.length
            for st1, ok in I.branch(st, z3.And(i >= -n, i < n)):
                if ok:
                    j = z3.simplify(z3.If(i < 0, i + n, i))
                    e1 = st1.get(obj)
                    e1.arr = z3.Store(e1.arr, j, z3val(as_arith(v)))
                    yield st1, None
                else:
                    yield st1, exc("IndexError", "list assignment index out of range")
            return
        if e.kind == "nd":
            yield from npmodel.nd_setitem(I, st, obj, idx, v)
            return
        if e.kind == "obj":
            m, _ = I.class_lookup(e.cls, "__setitem__")
            if m is None and "__list__" in e.attrs:
                yield from setitem(I, st, e.attrs["__list__"], idx, v)
                return
            if m is None and "__dictdata__" in e.attrs:
                yield from setitem(I, st, e.attrs["__dictdata__"], idx, v)
                return
            if m is None:
                yield st, exc("TypeError", "object does not support item assignment")
                return
            for st1, r in I.call(m, [obj, idx, v], {}, st):
                yield st1, (r if isinstance(r, Exc) else None)
            return
    if obj is None or isinstance(obj, (bool, int, Fraction)) or (is_z3(obj) and (z3.is_int(obj) or z3.is_real(obj) or z3.is_bool(obj))):
        # None / a number: TypeError, as in Python
        yield st, exc("TypeError", "'%s' object does not support item assignment" % ("NoneType" if obj is None else "number"))
        return
    raise Unsupported("item assignment on %r" % (obj,))


def delitem(I, st, obj, idx):
    if is_view(st, obj):
        raise Unsupported("subscript of a dictionary view / an iterator object (TypeError in Python)")
    from .attrs import ObjDict as _ObjDict

    if isinstance(obj, _ObjDict):
        if isinstance(idx, str) and idx in obj.attrs(st):
            del obj.attrs(st)[idx]
            yield st, None
        elif isinstance(idx, str):
            yield st, exc("KeyError", idx)
        else:
            raise Unsupported("del on __dict__ with a non-string key")
        return
    if isinstance(obj, Ref):
        e = st.get(obj)
        if e.kind == "dict":
            if symmode(I, st, e, idx):
                raise Unsupported("del on a dictionary with symbolic keys")
            if not is_z3(idx) and keyed.needs_resolution(I, st, e.items, idx):
                for st1, k1, found in keyed.resolve_key(I, st, obj, idx):
                    if isinstance(k1, Exc):
                        yield st1, k1
                    elif found:
                        del st1.get(obj).items[k1]
                        yield st1, None
                    else:
                        yield st1, exc("KeyError", k1)
                return
            k = I.hashable(idx)
            if k in e.items:
                del e.items[k]
                yield st, None
            else:
                yield st, exc("KeyError", k)
            return
        if e.kind in ("list", "deque"):
            if isinstance(idx, SliceVal):
                try:
                    del e.items[slice_concrete(I, len(e.items), idx)]
                except ValueError as err:  # step 0
                    yield st, exc("ValueError", str(err))
                    return
                yield st, None
                return
            if isinstance(idx, int):
                if -len(e.items) <= idx < len(e.items):
                    del e.items[idx]
                    yield st, None
                else:
                    yield st, exc("IndexError")
                return
        if e.kind == "obj":
            m, _ = I.class_lookup(e.cls, "__delitem__")
            if m is not None:
                for st1, r in I.call(m, [obj, idx], {}, st):
                    yield st1, (r if isinstance(r, Exc) else None)
                return
            if "__list__" in e.attrs:
                yield from delitem(I, st, e.attrs["__list__"], idx)
                return
            if "__dictdata__" in e.attrs:
                yield from delitem(I, st, e.attrs["__dictdata__"], idx)
                return
    raise Unsupported("del item on %r" % (obj,))


# ---------------------------------------------------------------------------- iteration
def iterator_start(I, st, v):
    """a consumer (list(it), sum(it), `for x in it` ...) starts to take items from the iterator object v (values.IterE):
    what the eagerly computed items were computed from must be unchanged (CPython computes them only now), and an
    iterator that a consumer has already run to its end is refused rather than delivered as empty"""
    from .loops import lazy_note, lazy_check

    e = st.get(v)
    lazy_check(st, st.ghost.get(("lazy_src", v.id)))
    lazy_note(st, v, e.items, own=False)  # consuming it empties it: only what it was computed from is watched
    if e.pending is not None:
        raise Unsupported("an iterator whose items raise when computed is consumed step by step")
    if e.consumed:
        raise Unsupported("an iterator object is consumed a second time (it is exhausted in Python)")
    if e.free is not None:
        env = I.env_of(st, e.free[0])
        if env is None or any(n not in env or env[n] is not val for n, val in e.free[1].items()):
            raise Unsupported("a variable read by a stored generator expression is rebound before the generator is consumed")


def iterate(I, st, v):
    from .symex import FrozenList, FrozenDict, FrozenNd

    if isinstance(v, (tuple, list)):
        return list(v)
    if isinstance(v, str):
        return list(v)
    if isinstance(v, (bytes, bytearray)):
        return list(v)  # iterating concrete bytes yields ints 0..255
    if isinstance(v, FrozenList):
        return [I.thaw(x, st) for x in v.items]
    if isinstance(v, FrozenDict):
        return list(v.items)
    if isinstance(v, frozenset):
        return sorted(v, key=repr)
    if isinstance(v, FrozenNd):
        v = I.thaw(v, st)
    if isinstance(v, range):
        return list(v)
    if isinstance(v, EnumIter):
        inner = iterate(I, st, v.inner)
        return [(v.start + k, x) for k, x in enumerate(inner)]
    if isinstance(v, Ref):
        e = st.get(v)
        if e.__class__ is IterE:
            # a full traversal of an iterator exhausts it; traversing it AGAIN yields nothing in CPython - refused
            # (iterator_start), so that a model which walks its argument twice can never silently see the empty second pass
            iterator_start(I, st, v)
            items = list(e.items)
            del e.items[:]
            e.consumed = True
            return items
        if e.kind in ("list", "deque"):
            from .loops import lazy_note, lazy_check

            # the result of an eagerly evaluated lazy iterator (generator expression, iter(), ...) is consumed HERE: what
            # it was computed from must not have changed since (CPython would compute it only now)
            lazy_check(st, st.ghost.get(("lazy_src", v.id)))
            lazy_note(st, v, e.items)
            return list(e.items)
        if e.kind in ("set", "dict"):
            from .loops import lazy_note

            lazy_note(st, v, list(e.items))  # a lazy iterator over a set / the keys of a dictionary depends on them
            if e.kind == "set" and len(e.items) > 1:
                # KNOWN DEVIATION, declared in the trusted base of every lemma that iterates a set: CPython delivers the
                # elements in hash-table order (for strings different in every process), the model in insertion order.
                # Sound only for conclusions that do not depend on the order.
                I.trust("set-order", "A3: a set of two or more elements is iterated in INSERTION order (CPython: hash order, "
                                     "unspecified); conclusions must not depend on the order of iteration")
            return list(e.items)
        if e.kind == "nd":
            from . import npmodel

            return npmodel.nd_rows(I, st, v)
        if e.kind == "obj" and "__tuple__" in e.attrs and I.class_lookup(e.cls, "__iter__")[0] is None:
            return list(e.attrs["__tuple__"])
        if e.kind == "obj" and "__list__" in e.attrs and I.class_lookup(e.cls, "__iter__")[0] is None:
            from .loops import lazy_note

            lazy_note(st, e.attrs["__list__"], st.get(e.attrs["__list__"]).items)
            return list(st.get(e.attrs["__list__"]).items)
        if e.kind == "obj" and "__dictdata__" in e.attrs and I.class_lookup(e.cls, "__iter__")[0] is None:
            return list(st.get(e.attrs["__dictdata__"]).items)
        if e.kind == "obj":
            m, _ = I.class_lookup(e.cls, "__iter__")
            if m is not None:
                outs = list(I.call(m, [v], {}, st))
                if len(outs) == 1 and not isinstance(outs[0][1], Exc):
                    items = iterate(I, outs[0][0], outs[0][1])
                    if outs[0][0] is not st:
                        # the state __iter__ ran in is dropped: keep what it recorded about lazily iterated lists
                        for gk, gv in outs[0][0].ghost.items():
                            if gk in ("__lazy_iter_rec__", "__last_lazy__") or (isinstance(gk, tuple) and gk and gk[0] == "lazy_src"):
                                st.ghost[gk] = gv
                    return items
                raise Unsupported("__iter__ forks")
        if e.kind == "symlist":
            raise Unsupported("iteration over a symbolic-length list needs a loop invariant")
    if isinstance(v, SymRange):
        raise Unsupported("iteration over a symbolic range needs a loop invariant")
    if isinstance(v, HeapSeq):
        raise Unsupported("iteration over a heap sequence needs a loop invariant")
    if isinstance(v, EnumClassIter):
        return v.members
    if isinstance(v, ClassVal) and is_enum_class(I, v):
        return enum_class_members(I, st, v)
    from .attrs import ObjDict as _ObjDict

    if isinstance(v, _ObjDict):
        return list(v.attrs(st))
    raise Unsupported("iteration over %r" % (v,))


# ---------------------------------------------------------------------------- enums (python enum.Enum in repo)
class EnumMember:
    def __init__(self, cls, name, value):
        self.cls, self.name, self.value = cls, name, value

    def __repr__(self):
        return "<%s.%s>" % (self.cls.name, self.name)

    def __eq__(self, o):
        return isinstance(o, EnumMember) and o.cls == self.cls and o.name == self.name

    def __hash__(self):
        return hash((self.cls.name, self.name))


class EnumClassIter:
    def __init__(self, members):
        self.members = members


def is_enum_class(I, cls):
    if not isinstance(cls, ClassVal):
        return False
    for c in I.mro(cls):
        if isinstance(c, BuiltinClass) and c.name in ("Enum", "IntEnum", "Flag", "IntFlag"):
            return True
    return False


def enum_class_members(I, st, cls):
    """iter(EnumClass) / list(EnumClass): the members in definition order.  Only plain enum.Enum / IntEnum classes whose
    members are simple `NAME = <concrete, pairwise distinct value>` assignments in the class body (aliases and Flag
    classes iterate differently -> Unsupported)."""
    import ast as _ast
    from .attrs import enum_member

    for c in I.mro(cls):
        if isinstance(c, BuiltinClass) and c.name in ("Flag", "IntFlag"):
            raise Unsupported("iteration over a Flag class")
        if isinstance(c, ClassVal) and c != cls and any(isinstance(n, _ast.Assign) for n in c.node.body):
            raise Unsupported("iteration over an enum class with an enum base that has assignments")
    out, seen = [], []
    for n in cls.node.body:
        if isinstance(n, _ast.Assign):
            if len(n.targets) != 1 or not isinstance(n.targets[0], _ast.Name):
                raise Unsupported("enum class body: assignment target")
            name = n.targets[0].id
            if name.startswith("_"):
                if name in ("_ignore_", "_order_") or (name.startswith("__") and name.endswith("__")):
                    raise Unsupported("enum class body: " + name)
                continue
            m = enum_member(I, st, cls, name)
            if not isinstance(m, EnumMember) or isinstance(m.value, Ref) or is_z3(m.value):
                raise Unsupported("enum member %s.%s is not a plain constant" % (cls.name, name))
            if any(type(m.value) is type(x) and m.value == x for x in seen) or any(m.value == x for x in seen):
                raise Unsupported("enum class with aliases")
            seen.append(m.value)
            out.append(m)
        elif isinstance(n, (_ast.AnnAssign, _ast.AugAssign)):
            raise Unsupported("enum class body: annotated / augmented assignment")
    return out


# ---------------------------------------------------------------------------- namedtuple
def namedtuple_fields(I, cls):
    return cls.__dict__.get("_nt_fields")


def make_namedtuple(I, st, cls, fields, args, kwargs):
    vals = list(args)
    for f in fields[len(vals) :]:
        if f not in kwargs:
            raise Unsupported("namedtuple missing field " + f)
        vals.append(kwargs[f])
    return NamedTuple(vals, fields, cls)


# ---------------------------------------------------------------------------- objects: arithmetic dunder
def obj_binop(I, st, op, a, b, inplace=False, reflected=False):
    names = {"Add": "add", "Sub": "sub", "Mult": "mul", "Div": "truediv", "FloorDiv": "floordiv", "Mod": "mod",
             "BitAnd": "and", "BitOr": "or", "BitXor": "xor", "Pow": "pow"}
    nm = names.get(op)
    if nm is None:
        raise Unsupported("operator %s on objects" % op)
    if reflected:
        m = obj_has(I, st, b, "__r%s__" % nm)
        if m is None:
            yield st, exc("TypeError", "unsupported operand")
            return
        yield from I.call(m, [b, a], {}, st)
        return
    # CPython: a.__iop__(b) for an augmented assignment, then a.__op__(b), then b.__rop__(a); each step is skipped when the
    # method is missing or returns NotImplemented; TypeError when nothing is left.  b.__rop__ is tried BEFORE a.__op__ when
    # type(b) is a proper subclass of type(a) that overrides the reflected method.
    cands = []
    if inplace and obj_has(I, st, a, "__i%s__" % nm) is not None:
        cands.append((obj_has(I, st, a, "__i%s__" % nm), [a, b]))
    m = obj_has(I, st, a, "__%s__" % nm)
    m2 = obj_has(I, st, b, "__r%s__" % nm)
    ca, cb = _obj_cls(st, a), _obj_cls(st, b)
    if ca is not None and cb is not None and ca == cb:
        m2 = None  # same type: the reflected method is not tried
    r_first = False
    if m2 is not None and ca is not None and cb is not None and ca != cb and I.is_subclass(cb, ca):
        r_first = I.class_lookup(cb, "__r%s__" % nm)[1] != I.class_lookup(ca, "__r%s__" % nm)[1]
    if r_first:
        cands.append((m2, [b, a]))
    if m is not None:
        cands.append((m, [a, b]))
    if m2 is not None and not r_first:
        cands.append((m2, [b, a]))

    def attempt(st1, i):
        if i == len(cands):
            yield st1, exc("TypeError", "unsupported operand")
            return
        for st2, r in I.call(cands[i][0], cands[i][1], {}, st1):
            if not isinstance(r, Exc) and _is_not_implemented(r):
                yield from attempt(st2, i + 1)
            else:
                yield st2, r

    yield from attempt(st, 0)


def set_binop(I, st, op, ea, eb):
    a, b = ea.items, eb.items
    for x in b:
        I.set_elem(st, x, a)  # elements with a user-defined __eq__: identity must be the right notion of "same element"
    if op == "BitOr":
        r = a + [x for x in b if x not in a]
    elif op == "BitAnd":
        r = [x for x in a if x in b]
    elif op == "Sub":
        r = [x for x in a if x not in b]
    elif op == "BitXor":
        r = [x for x in a if x not in b] + [x for x in b if x not in a]
    else:
        raise Unsupported("set operator " + op)
    # the result of a binary set operator has the type of the LEFT operand (set | frozenset -> set, frozenset | set -> frozenset)
    return st.alloc(FrozenSetE(r) if ea.frozen else SetE(r))


from .attrs import getattr, setattr, delattr, call_builtin_class, make_builtins, make_ext_modules  # noqa: E402,F401
from .loops import exec_for, exec_while, exec_with, call_generator  # noqa: E402,F401
