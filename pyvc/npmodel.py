"""numpy mini-model (trusted base A5): fixed small shapes, elements are engine values.

Only what the verified armi functions use: array construction from nested sequences, elementwise
arithmetic with scalar/equal-shape/row broadcasting, dot, integer / tuple / slice / fancy indexing,
item assignment, sum/any/all, zeros/ones, linalg.norm, sqrt/cos/sin elementwise.
"""
import itertools
from fractions import Fraction

import z3

from . import ops
from .ops import exc, is_number
from .values import (
    Ref, ListE, NdE, Builtin, BuiltinClass, Exc, Opaque, SliceVal, Unsupported, is_z3, z3val, as_arith,
    is_intlike, is_reallike, is_boollike, coerce_pair,
)


def _M():
    from . import models

    return models


class DtypeVal:
    """dtype of a modelled array by kind: 'i' (int64), 'f' (float64), 'b' (bool), 'U' (str), 'S' (bytes), 'O' (object)"""

    def __init__(self, kind):
        self.kind = kind

    def __repr__(self):
        return "<dtype %s>" % self.kind

    def __eq__(self, o):
        return isinstance(o, DtypeVal) and o.kind == self.kind

    def __hash__(self):
        return hash(("dtype", self.kind))


DTYPE_NAMES = {"O": "O", "object": "O", "float64": "f", "f8": "f", "float": "f", "d": "f", "double": "f", "int64": "i", "i8": "i", "int": "i", "bool": "b"}


def is_nan(x):
    return isinstance(x, Opaque) and x.desc == "nan"


def dtype_of(e):
    """element kind numpy would have chosen for these elements (mixed int/float -> float64; anything else -> object)"""
    forced = getattr(e, "dtype", None)
    if forced is not None:
        return forced
    data = e.data
    if not data:
        return "f"
    from .values import is_boollike

    if all(isinstance(x, str) for x in data):
        return "U"
    if all(isinstance(x, bytes) for x in data):
        return "S"
    if all(is_boollike(x) for x in data):
        return "b"
    if any(is_boollike(x) for x in data):
        raise Unsupported("dtype of an array mixing bool and other elements")
    if all(is_intlike(x) for x in data):
        return "i"
    if all(is_number(x) or is_nan(x) for x in data):
        return "f"
    return "O"


def as_dtype_kind(d):
    """dtype argument (np.dtype value, class, or name) -> kind, None when not given"""
    if d is None:
        return None
    if isinstance(d, DtypeVal):
        return d.kind
    if isinstance(d, BuiltinClass) and d.name in ("float", "int", "bool", "object"):
        return {"float": "f", "int": "i", "bool": "b", "object": "O"}[d.name]
    if isinstance(d, str) and d in DTYPE_NAMES:
        return DTYPE_NAMES[d]
    raise Unsupported("dtype %r" % (d,))


class IinfoVal:
    """np.iinfo(t): limits of a machine integer type"""

    def __init__(self, bits, signed):
        self.min = -(2 ** (bits - 1)) if signed else 0
        self.max = 2 ** (bits - 1) - 1 if signed else 2 ** bits - 1


INT_TYPES = {"int": (64, True), "int8": (8, True), "int16": (16, True), "int32": (32, True), "int64": (64, True),
             "uint8": (8, False), "uint16": (16, False), "uint32": (32, False), "uint64": (64, False)}


def size(shape):
    n = 1
    for s in shape:
        n *= s
    return n


def to_nested(I, st, v):
    """engine value -> nested python lists of scalars (and the shape)."""
    from .symex import FrozenNd, FrozenList

    if isinstance(v, FrozenNd):
        v = I.thaw(v, st)
    if isinstance(v, Ref):
        e = st.get(v)
        if e.kind == "nd":
            return unflatten(e.shape, e.data)
        if e.kind in ("list", "deque"):
            return [to_nested(I, st, x) for x in e.items]
        if e.kind == "symlist":
            raise Unsupported("numpy array from a symbolic-length list")
        if e.kind == "dict":
            return v  # a dictionary is one element of an object array
        raise Unsupported("numpy array from %s" % e.kind)
    if isinstance(v, FrozenList):
        return [to_nested(I, st, x) for x in v.items]
    if isinstance(v, tuple):
        return [to_nested(I, st, x) for x in v]
    if isinstance(v, range):
        return list(v)
    if is_number(v) or v is None or isinstance(v, (str, bytes)) or is_nan(v):
        return v
    raise Unsupported("numpy array element %r" % (v,))


class Ragged(Exception):
    """inhomogeneous nested sequence: numpy >= 1.24 raises ValueError for it (np.array without dtype=object)"""


def shape_of(n):
    if isinstance(n, list):
        if not n:
            return (0,)
        s0 = shape_of(n[0])
        for x in n[1:]:
            if shape_of(x) != s0:
                raise Ragged()
        return (len(n),) + s0
    return ()


def flatten(n):
    if isinstance(n, list):
        out = []
        for x in n:
            out.extend(flatten(x))
        return out
    return [n]


def unflatten(shape, data):
    if not shape:
        return data[0]
    if len(shape) == 1:
        return list(data)
    step = size(shape[1:])
    return [unflatten(shape[1:], data[i * step : (i + 1) * step]) for i in range(shape[0])]


def mk(I, st, nested, dtype=None):
    shape = shape_of(nested)
    data = flatten(nested)
    if dtype == "float":
        data = [tofloat(x) for x in data]
    elif (any(is_reallike(x) for x in data) or any(is_nan(x) for x in data)) and all(is_number(x) or is_nan(x) for x in data):
        # numpy upcasts mixed int/float arrays to float (nan is a float)
        data = [tofloat(x) if is_number(x) else x for x in data]
    elif any(is_reallike(x) for x in data):
        data = [tofloat(x) if is_number(x) else x for x in data]
    e = NdE(shape, data)
    if dtype == "O" or dtype_of(e) == "O":
        e.dtype = "O"  # an object array stays one whatever is assigned to it later
        e.data = list(flatten(nested))
    return st.alloc(e)


U8 = "u1"  # forced dtype mark of a uint8 array (np.array(..., dtype=np.uint8)): every element a CONCRETE int in 0..255


def mk_uint8(I, st, nested):
    """np.array(ints, dtype=np.uint8).  Only concrete ints in 0..255 (an out-of-range value wraps or raises depending
    on the numpy version; a symbolic one would need a range obligation): anything else is Unsupported.  A uint8 array
    supports shape / reshape / iteration / indexing / tobytes(); arithmetic (wrap-around), assignment, dtype
    inspection are refused (Unsupported)."""
    shape = shape_of(nested)
    data = flatten(nested)
    for x in data:
        if isinstance(x, bool) or not isinstance(x, int) or not (0 <= x <= 255):
            raise Unsupported("np.array(dtype=uint8) of %r" % (x,))
    e = NdE(shape, data)
    e.dtype = U8
    I.trust("numpy-uint8", "uint8 arrays of concrete bytes: reshape / rows / indexing keep the bytes in row-major order; tobytes() = those bytes")
    return st.alloc(e)


def is_uint8(st, v):
    return isinstance(v, Ref) and st.get(v).kind == "nd" and getattr(st.get(v), "dtype", None) == U8


def _keep_u8(e, ne):
    if getattr(e, "dtype", None) == U8:
        ne.dtype = U8
    return ne


def tofloat(x):
    x = as_arith(x)
    if isinstance(x, int):
        return Fraction(x)
    if is_z3(x) and z3.is_int(x):
        return z3.ToReal(x)
    return x


def asnd(I, st, v):
    """-> (shape, data) for arrays / sequences / scalars"""
    if isinstance(v, Ref) and st.get(v).kind == "nd":
        e = st.get(v)
        return e.shape, e.data
    n = to_nested(I, st, v)
    return shape_of(n), flatten(n)


def scalar_op(I, st, op, a, b):
    outs = list(ops.binop(I, st, op, a, b))
    if len(outs) == 1 and not isinstance(outs[0][1], Exc) and outs[0][0] is st:
        return outs[0][1]
    if op in ("Div", "FloorDiv", "Mod"):
        # numpy does not raise on division by zero; outside the real-number model
        raise Unsupported("array division where the divisor may be zero")
    raise Unsupported("array elementwise op forks")


def broadcast(sa, da, sb, db):
    """-> shape, list of (x, y) pairs.  Supports equal shapes, scalars, and trailing-dimension broadcasting."""
    if sa == sb:
        return sa, list(zip(da, db))
    if sa == ():
        return sb, [(da[0], y) for y in db]
    if sb == ():
        return sa, [(x, db[0]) for x in da]
    if len(sa) > len(sb) and sa[len(sa) - len(sb) :] == sb:
        reps = size(sa) // size(sb)
        return sa, list(zip(da, db * reps))
    if len(sb) > len(sa) and sb[len(sb) - len(sa) :] == sa:
        reps = size(sb) // size(sa)
        return sb, list(zip(da * reps, db))
    if len(sa) == len(sb) and all(x == y or x == 1 or y == 1 for x, y in zip(sa, sb)):
        out = tuple(max(x, y) for x, y in zip(sa, sb))
        pairs = []
        for idx in itertools.product(*[range(n) for n in out]):
            ia = sum((i if n > 1 else 0) * size(sa[k + 1 :]) for k, (i, n) in enumerate(zip(idx, sa)))
            ib = sum((i if n > 1 else 0) * size(sb[k + 1 :]) for k, (i, n) in enumerate(zip(idx, sb)))
            pairs.append((da[ia], db[ib]))
        return out, pairs
    raise Unsupported("broadcast of shapes %s and %s" % (sa, sb))


def nd_binop(I, st, op, a, b):
    I.trust("numpy", "A5: numpy mini-model (fixed shapes, elementwise real arithmetic, dot, indexing)")
    if is_uint8(st, a) or is_uint8(st, b):
        raise Unsupported("arithmetic on a uint8 array (wrap-around is not modelled)")
    sa, da = asnd(I, st, a)
    sb, db = asnd(I, st, b)
    if op == "MatMult":
        yield st, dot(I, st, a, b)
        return
    try:
        shape, pairs = broadcast(sa, da, sb, db)
    except Unsupported:
        yield st, exc("ValueError", "operands could not be broadcast together")
        return
    data = [scalar_op(I, st, op, x, y) for x, y in pairs]
    yield st, st.alloc(NdE(shape, data))


def nd_compare(I, st, op, a, b):
    M = _M()
    if (isinstance(a, M.Inf) or isinstance(b, M.Inf)) and op in ("Lt", "LtE", "Gt", "GtE"):
        # array against float("inf"): elementwise, every (finite, A1) element is strictly between -inf and +inf
        arr = b if isinstance(a, M.Inf) else a
        sh, d = asnd(I, st, arr)
        out = []
        for x in d:
            outs = list(M.compare(I, st, op, a if isinstance(a, M.Inf) else x, b if isinstance(b, M.Inf) else x))
            if len(outs) != 1 or isinstance(outs[0][1], Exc):
                raise Unsupported("array comparison with inf")
            out.append(outs[0][1])
        yield st, st.alloc(NdE(sh, out))
        return
    sa, da = asnd(I, st, a)
    sb, db = asnd(I, st, b)
    try:
        shape, pairs = broadcast(sa, da, sb, db)
    except Unsupported:
        yield st, False if op == "Eq" else True
        return
    out = []
    for x, y in pairs:
        if op == "Eq":
            out.append(M.eq_values(I, st, x, y))
        elif op == "NotEq":
            out.append(M.znot(M.eq_values(I, st, x, y)))
        else:
            out.append(ops.num_compare(op, x, y))
    yield st, st.alloc(NdE(shape, out))


def nd_map(I, st, ref, fn):
    e = st.get(ref)
    return st.alloc(NdE(e.shape, [fn(x) for x in e.data]))


def nd_rows(I, st, ref):
    e = st.get(ref)
    if not e.shape:
        raise Unsupported("iteration over 0-d array")
    if len(e.shape) == 1:
        return list(e.data)
    step = size(e.shape[1:])
    return [alloc_view(st, ref, _keep_u8(e, NdE(e.shape[1:], e.data[i * step : (i + 1) * step])), list(range(i * step, (i + 1) * step)))
            for i in range(e.shape[0])]


def _index_list(I, st, idx, n):
    """Translate one index component into a list of positions or a single int."""
    if isinstance(idx, bool):
        raise Unsupported("boolean index")
    if isinstance(idx, int):
        if not -n <= idx < n:
            raise IndexError
        return idx % n if n else idx
    if isinstance(idx, SliceVal):
        M = _M()
        return list(range(n))[M.slice_concrete(I, n, idx)]
    if isinstance(idx, (tuple,)) or (isinstance(idx, Ref) and st.get(idx).kind in ("list", "nd")):
        items = I.iterate(idx, st)
        out = []
        for x in items:
            if not isinstance(x, int):
                raise Unsupported("fancy index with non-integer")
            if not -n <= x < n:
                raise IndexError
            out.append(x % n)
        return out
    raise Unsupported("array index %r" % (idx,))


def resolve_index(I, st, shape, idx):
    """-> (result shape, list of flat positions).  idx: int | slice | tuple of those | list (fancy on axis 0)."""
    if isinstance(idx, tuple):
        comps = list(idx)
        # numpy: arr[(tuple_of_ints,)] is fancy indexing on axis 0
    else:
        comps = [idx]
    if len(comps) > len(shape):
        raise IndexError
    sel = []
    for k, c in enumerate(comps):
        if is_z3(c):
            raise Unsupported("symbolic array index")
        sel.append(_index_list(I, st, c, shape[k]))
    for k in range(len(comps), len(shape)):
        sel.append(list(range(shape[k])))
    nfancy = sum(1 for s, c in zip(sel, comps) if isinstance(s, list) and not isinstance(c, SliceVal))
    if nfancy > 1:
        raise Unsupported("more than one fancy index")
    out_shape = tuple(len(s) for s in sel if isinstance(s, list))
    axes = [s if isinstance(s, list) else [s] for s in sel]
    pos = []
    for combo in itertools.product(*axes):
        p = 0
        for k, i in enumerate(combo):
            p += i * size(shape[k + 1 :])
        pos.append(p)
    return out_shape, pos


def nd_getitem(I, st, ref, idx):
    e = st.get(ref)
    if is_z3(idx) and len(e.shape) == 1:
        M = _M()
        yield from M.index_concrete_seq(I, st, e.data, idx, ref)
        return
    if isinstance(idx, SliceVal) and len(e.shape) == 1 and any(is_z3(as_arith(b)) for b in (idx.lo, idx.hi) if b is not None):
        # 1-d slice with a symbolic integer bound: fork over its feasible clamped values (as for lists)
        M = _M()
        for st1, sl in M.slice_cases(I, st, e.shape[0], idx):
            d = list(st1.get(ref).data)[sl]
            r = NdE((len(d),), d)
            if "dtype" in e.__dict__:
                r.dtype = e.dtype
            yield st1, alloc_view(st1, ref, r, list(range(e.shape[0]))[sl])
        return
    try:
        shape, pos = resolve_index(I, st, e.shape, idx)
    except IndexError:
        yield st, exc("IndexError", "index out of bounds")
        return
    if shape == ():
        yield st, e.data[pos[0]]
    else:
        r = _keep_u8(e, NdE(shape, [e.data[p] for p in pos]))
        yield st, (alloc_view(st, ref, r, pos) if _basic_index(idx) else st.alloc(r))


def _basic_index(idx):
    """ints and slices only: numpy returns a VIEW of the array (fancy / mask indexing returns a copy)"""
    comps = idx if isinstance(idx, tuple) else (idx,)
    return all((isinstance(c, int) and not isinstance(c, bool)) or isinstance(c, SliceVal) for c in comps)


def alloc_view(st, base_ref, view, pos):
    """numpy shares the memory of an array and of its basic slices / rows / transposes / reshapes.  The model stores
    each with its own element list and keeps them in step: the view records (root array, its positions in the root),
    the root records its views, and every write (sync_views) is carried to the root and from there to all its views."""
    base = st.get(base_ref)
    vo = getattr(base, "viewof", None)
    if vo is not None:  # a view of a view: link it to the root
        base_ref, pos = vo[0], [vo[1][p] for p in pos]
        base = st.get(base_ref)
    view.viewof = (base_ref, tuple(pos))
    vref = st.alloc(view)
    base.views = tuple(getattr(base, "views", ())) + ((vref, tuple(pos)),)
    return vref


def sync_views(st, ref):
    """after a write into the array `ref`: carry it to the root it is a view of, and to every view of that root"""
    e = st.get(ref)
    vo = getattr(e, "viewof", None)
    if vo is not None:
        root = st.get(vo[0])
        for k, p in enumerate(vo[1]):
            root.data[p] = e.data[k]
        e = root
    for vref, pos in getattr(e, "views", ()):
        st.get(vref).data[:] = [e.data[p] for p in pos]


def nd_setitem(I, st, ref, idx, v):
    if is_uint8(st, ref):
        raise Unsupported("assignment into a uint8 array")
    e = st.get(ref)
    if getattr(e, "shared", False):
        raise Unsupported("item assignment to an array that shares memory with a buffer")
    if isinstance(idx, Ref) and st.get(idx).kind == "nd" and st.get(idx).data and all(
        isinstance(x, bool) or (is_z3(x) and z3.is_bool(x)) for x in st.get(idx).data
    ):
        yield from nd_set_mask(I, st, ref, idx, v)
        return
    if getattr(e, "dtype", None) == "O" and isinstance(idx, int) and not isinstance(idx, bool) and len(e.shape) == 1 and (
        v is None or (isinstance(v, Ref) and st.get(v).kind in ("nd", "dict"))
    ):
        # one element of a 1-d object array: the object itself is stored
        if not -e.shape[0] <= idx < e.shape[0]:
            yield st, exc("IndexError", "index out of bounds")
            return
        e.data[idx % e.shape[0]] = v
        sync_views(st, ref)
        yield st, None
        return
    try:
        shape, pos = resolve_index(I, st, e.shape, idx)
    except IndexError:
        yield st, exc("IndexError", "index out of bounds")
        return
    sv, dv = asnd(I, st, v)
    if sv == ():
        vals = [dv[0]] * len(pos)
    elif size(sv) == len(pos):
        vals = dv
    elif len(pos) % max(size(sv), 1) == 0 and size(sv):
        vals = dv * (len(pos) // size(sv))
    else:
        yield st, exc("ValueError", "shape mismatch in array assignment")
        return
    isfloat = any(is_reallike(x) for x in e.data)
    for p, x in zip(pos, vals):
        e.data[p] = tofloat(x) if isfloat else x
    sync_views(st, ref)
    yield st, None


def dot(I, st, a, b):
    sa, da = asnd(I, st, a)
    sb, db = asnd(I, st, b)
    add = lambda x, y: scalar_op(I, st, "Add", x, y)
    mul = lambda x, y: scalar_op(I, st, "Mult", x, y)

    def ssum(xs):
        if not xs:
            return 0
        r = xs[0]
        for x in xs[1:]:
            r = add(r, x)
        return r

    if sa == () or sb == ():
        shape, pairs = broadcast(sa, da, sb, db)
        return st.alloc(NdE(shape, [mul(x, y) for x, y in pairs]))
    if len(sa) == 1 and len(sb) == 1:
        if sa != sb:
            raise Unsupported("dot shape mismatch")
        return ssum([mul(x, y) for x, y in zip(da, db)])
    if len(sa) == 2 and len(sb) == 1:
        if sa[1] != sb[0]:
            raise Unsupported("dot shape mismatch %s %s" % (sa, sb))
        return st.alloc(NdE((sa[0],), [ssum([mul(da[i * sa[1] + k], db[k]) for k in range(sa[1])]) for i in range(sa[0])]))
    if len(sa) == 1 and len(sb) == 2:
        if sa[0] != sb[0]:
            raise Unsupported("dot shape mismatch")
        return st.alloc(NdE((sb[1],), [ssum([mul(da[k], db[k * sb[1] + j]) for k in range(sa[0])]) for j in range(sb[1])]))
    if len(sa) == 2 and len(sb) == 2:
        if sa[1] != sb[0]:
            raise Unsupported("dot shape mismatch")
        out = []
        for i in range(sa[0]):
            for j in range(sb[1]):
                out.append(ssum([mul(da[i * sa[1] + k], db[k * sb[1] + j]) for k in range(sa[1])]))
        return st.alloc(NdE((sa[0], sb[1]), out))
    raise Unsupported("dot of shapes %s %s" % (sa, sb))


def nd_getattr(I, st, ref, name):
    M = _M()
    e = st.get(ref)

    def simple(fn):
        def f(I, st, a, k):
            yield st, fn(I, st, *a, **k)

        return Builtin("ndarray." + name, f)

    if name == "shape":
        yield st, tuple(e.shape)
    elif name == "ndim":
        yield st, len(e.shape)
    elif name == "size":
        yield st, size(e.shape)
    elif name == "T":
        if len(e.shape) > 2:
            raise Unsupported("ndarray.T of an array with more than 2 axes")
        if len(e.shape) != 2:
            yield st, ref
        else:
            r, c = e.shape
            tpos = [i * c + j for j in range(c) for i in range(r)]
            yield st, alloc_view(st, ref, NdE((c, r), [e.data[p] for p in tpos]), tpos)
    elif name == "transpose":
        # a.transpose() without arguments == a.T (axes reversed); only for <= 2 axes, as .T above
        def _tr(I, st, *axes):
            ee = st.get(ref)
            if axes or len(ee.shape) > 2:
                raise Unsupported("ndarray.transpose with axes / more than 2 axes")
            if len(ee.shape) != 2:
                return ref
            r, c = ee.shape
            tpos = [i * c + j for j in range(c) for i in range(r)]
            return alloc_view(st, ref, NdE((c, r), [ee.data[p] for p in tpos]), tpos)
        yield st, simple(_tr)
    elif name == "dot":
        yield st, simple(lambda I, st, b: dot(I, st, ref, b))
    elif name == "any":
        yield st, simple(lambda I, st: M.disj([I.truth(x, st) for x in st.get(ref).data]))
    elif name == "all":
        yield st, simple(lambda I, st: M.conj([I.truth(x, st) for x in st.get(ref).data]))
    elif name == "sum":
        def _sum(I, st, axis=None):
            ee = st.get(ref)
            if axis is not None:
                raise Unsupported("sum with axis")
            r = 0
            for x in ee.data:
                r = scalar_op(I, st, "Add", r, x)
            return r
        yield st, simple(_sum)
    elif name == "tolist":
        def _tl(I, st):
            def conv(n):
                if isinstance(n, list):
                    return st.alloc(ListE([conv(x) for x in n]))
                return n
            ee = st.get(ref)
            return conv(unflatten(ee.shape, ee.data))
        yield st, simple(_tl)
    elif name == "copy":
        yield st, simple(lambda I, st: st.alloc(st.get(ref).detached()))
    elif name == "flatten" or name == "ravel":
        def _flat(I, st, order="C"):
            # The model keeps the elements in LOGICAL row-major order and has no notion of memory layout: order="C" (the
            # default) is exact for every array; "F" / "A" / "K" depend on the layout (or walk column-major) -> not modelled.
            if order != "C":
                raise Unsupported("ndarray.%s(order=%r): only the logical row-major order 'C' is modelled" % (name, order))
            ee = st.get(ref)
            ne = NdE((size(ee.shape),), list(ee.data))
            if getattr(ee, "dtype", None) is not None:
                ne.dtype = ee.dtype
            if name == "ravel":  # a view of the (row-major) array; flatten always copies
                return alloc_view(st, ref, ne, list(range(len(ne.data))))
            return st.alloc(ne)
        yield st, simple(_flat)
    elif name == "astype":
        def _as(I, st, t):
            ee = st.get(ref)
            if (isinstance(t, BuiltinClass) and t.name == "float") or (isinstance(t, DtypeVal) and t.kind == "f"):
                if any(x is None for x in ee.data):
                    return exc("TypeError", "float() argument must be a string or a real number, not 'NoneType'")
                if not all(is_number(x) or is_nan(x) for x in ee.data):
                    raise Unsupported("astype(float) of non-numeric elements")
                ne = NdE(ee.shape, [tofloat(x) for x in ee.data])
                ne.dtype = "f"
                return st.alloc(ne)
            if (isinstance(t, BuiltinClass) and t.name == "int") or (isinstance(t, DtypeVal) and t.kind == "i"):
                if any(x is None for x in ee.data):
                    return exc("TypeError", "int() argument must be a string, a bytes-like object or a real number, not 'NoneType'")
                if all(is_intlike(x) for x in ee.data):
                    ne = NdE(ee.shape, ee.data)
                    ne.dtype = "i"
                    return st.alloc(ne)
                raise Unsupported("astype(int) of non-integer elements")
            if t == "S" and (dtype_of(ee) == "U" or not ee.data):
                # unicode -> byte strings: ascii encoding, UnicodeEncodeError otherwise
                out = []
                for x in ee.data:
                    try:
                        out.append(x.encode("ascii"))
                    except UnicodeEncodeError as err:
                        return exc("UnicodeEncodeError", str(err))
                ne = NdE(ee.shape, out)
                ne.dtype = "S"
                return st.alloc(ne)
            raise Unsupported("astype")
        yield st, simple(_as)
    elif name == "__bool__":
        def _bool(I, st, a, k):
            ee = st.get(ref)
            if size(ee.shape) == 1:
                yield st, I.truth(ee.data[0], st)
            elif size(ee.shape) == 0:
                raise Unsupported("truth value of an empty array")
            else:
                yield st, exc("ValueError", "The truth value of an array with more than one element is ambiguous")
        yield st, Builtin("ndarray.__bool__", _bool)
    elif name == "dtype" and getattr(e, "dtype", None) == U8:
        raise Unsupported("dtype of a uint8 array")
    elif name == "tobytes":
        def _tobytes(I, st, order="C"):
            ee = st.get(ref)
            if getattr(ee, "dtype", None) != U8 or order != "C":
                raise Unsupported("ndarray.tobytes() of an array that is not uint8")
            return bytes(ee.data)  # row-major; mk_uint8 guarantees concrete ints in 0..255
        yield st, simple(_tobytes)
    elif name == "reshape":
        def _reshape_m(I, st, *shape):
            ee = st.get(ref)
            if len(shape) == 1 and not isinstance(shape[0], int):
                shape = tuple(I.iterate(shape[0], st))
            if not all(isinstance(x, int) and not isinstance(x, bool) and x >= 0 for x in shape):
                raise Unsupported("ndarray.reshape with a symbolic or inferred (-1) dimension")
            if size(shape) != len(ee.data):
                return exc("ValueError", "cannot reshape array of size %d into shape %r" % (len(ee.data), tuple(shape)))
            ne = NdE(tuple(shape), ee.data)
            if "dtype" in ee.__dict__:
                ne.dtype = ee.dtype
            return alloc_view(st, ref, ne, list(range(len(ne.data))))
        yield st, simple(_reshape_m)
    elif name == "dtype":
        yield st, DtypeVal(dtype_of(e))
    elif name == "flat":
        from .values import IterE

        yield st, st.alloc(IterE(list(e.data)))  # a fresh one-shot iterator over the elements in row-major order
    else:
        raise Unsupported("ndarray attribute " + name)


def make_module(I):
    M = _M()
    N = {}

    def reg(name, fn):
        def f(I, st, a, k):
            I.trust("numpy", "A5: numpy mini-model (fixed shapes, elementwise real arithmetic, dot, indexing)")
            try:
                r = fn(I, st, *a, **k)
            except Ragged:
                r = exc("ValueError", "setting an array element with a sequence. The requested array has an inhomogeneous shape")
            yield st, r

        N[name] = Builtin("numpy." + name, f)

    def array(I, st, v, dtype=None):
        dt = None
        if isinstance(dtype, BuiltinClass) and dtype.name == "float":
            dt = "float"
        elif isinstance(dtype, DtypeVal) or isinstance(dtype, str) or (isinstance(dtype, BuiltinClass) and dtype.name == "object"):
            k = as_dtype_kind(dtype)  # a dtype given by name ("d", "float64", ...): same kinds, unknown names are Unsupported
            if k == "f":
                dt = "float"
            elif k == "O":
                dt = "O"
            else:
                raise Unsupported("np.array dtype")
        elif isinstance(dtype, BuiltinClass) and dtype.name == "uint8":
            return mk_uint8(I, st, to_nested(I, st, v))
        elif dtype is not None and not (isinstance(dtype, BuiltinClass) and dtype.name == "int"):
            raise Unsupported("np.array dtype")
        if dt == "O":
            # dtype=object: when the nested sequence is not rectangular because top-level entries are None / scalars
            # next to sequences, numpy makes a 1-d object array of the top-level entries themselves
            try:
                shape_of(to_nested(I, st, v))
            except Ragged:
                items = I.iterate(v, st)
                def is_seq(x):
                    return isinstance(x, tuple) or (isinstance(x, Ref) and st.get(x).kind in ("list", "nd"))
                seqs = [x for x in items if is_seq(x)]
                if len(seqs) == len(items):
                    raise Unsupported("object array from sequences that are ragged below the top level")
                if not all(x is None or is_number(x) or is_seq(x) for x in items):
                    raise Unsupported("object array element")
                e = NdE((len(items),), items)
                e.dtype = "O"
                return st.alloc(e)
        return mk(I, st, to_nested(I, st, v), dt)

    reg("array", array)
    reg("asarray", array)

    def zeros(I, st, shape, dtype=None):
        if isinstance(shape, int):
            shape = (shape,)
        shape = tuple(I.iterate(shape, st))
        if not all(isinstance(s, int) for s in shape):
            raise Unsupported("np.zeros with symbolic shape")
        if any(s < 0 for s in shape):
            return exc("ValueError", "negative dimensions are not allowed")
        z = 0 if (isinstance(dtype, BuiltinClass) and dtype.name == "int") else Fraction(0)
        return st.alloc(NdE(shape, [z] * size(shape)))

    reg("zeros", zeros)

    def zeros_like(I, st, a, dtype=None):
        """np.zeros_like(array): zeros of the same shape and element kind (float / int arrays only)"""
        if dtype is not None or not (isinstance(a, Ref) and st.get(a).kind == "nd"):
            raise Unsupported("np.zeros_like of a non-array / with dtype")
        e = st.get(a)
        kind = dtype_of(e)
        if kind not in ("f", "i"):
            raise Unsupported("np.zeros_like of a %s array" % kind)
        return st.alloc(NdE(e.shape, [0 if kind == "i" else Fraction(0)] * size(e.shape)))

    reg("zeros_like", zeros_like)

    def ones(I, st, shape, dtype=None):
        if isinstance(shape, int):
            shape = (shape,)
        shape = tuple(I.iterate(shape, st))
        if not all(isinstance(s, int) for s in shape):
            raise Unsupported("np.ones with symbolic shape")
        if any(s < 0 for s in shape):
            return exc("ValueError", "negative dimensions are not allowed")
        return st.alloc(NdE(shape, [Fraction(1)] * size(shape)))

    reg("ones", ones)

    def arange(I, st, *a, dtype=None):
        """np.arange(stop) / np.arange(start, stop) with concrete ints (step 1): ints, or floats with dtype=float"""
        if len(a) not in (1, 2) or not all(isinstance(x, int) and not isinstance(x, bool) for x in a):
            raise Unsupported("np.arange with non-integer / symbolic arguments or a step")
        isfloat = isinstance(dtype, BuiltinClass) and dtype.name == "float"
        if dtype is not None and not isfloat and not (isinstance(dtype, BuiltinClass) and dtype.name == "int"):
            raise Unsupported("np.arange dtype")
        vals = list(range(*a))
        return st.alloc(NdE((len(vals),), [Fraction(v) if isfloat else v for v in vals]))

    reg("arange", arange)
    def empty(I, st, shape, dtype=None):
        # np.empty: uninitialised float array = arbitrary (fresh, unconstrained) real in every cell
        if dtype is not None and not (isinstance(dtype, BuiltinClass) and dtype.name == "float"):
            raise Unsupported("np.empty dtype")
        if isinstance(shape, int):
            shape = (shape,)
        shape = tuple(I.iterate(shape, st))
        if not all(isinstance(s, int) for s in shape):
            raise Unsupported("np.empty with symbolic shape")
        if any(s < 0 for s in shape):
            return exc("ValueError", "negative dimensions are not allowed")
        return st.alloc(NdE(shape, [I.fresh("real", "uninit") for _ in range(size(shape))]))

    reg("empty", empty)
    reg("dot", lambda I, st, a, b: dot(I, st, a, b))

    def elementwise(fn):
        def f(I, st, a, k):
            v = a[0]
            if isinstance(v, Ref) and st.get(v).kind == "nd":
                e = st.get(v)
                cur = st
                out = []
                for x in e.data:
                    outs = list(fn(I, cur, x))
                    if len(outs) != 1 or isinstance(outs[0][1], Exc):
                        raise Unsupported("elementwise numpy function forks")
                    cur, r = outs[0]
                    out.append(r)
                yield cur, cur.alloc(NdE(e.shape, out))
            else:
                yield from fn(I, st, v)

        return f

    N["sqrt"] = Builtin("numpy.sqrt", elementwise(lambda I, st, x: ops.sqrt(I, st, x)))
    math = I.ext_modules.get("math") if hasattr(I, "ext_modules") else None

    def _abs(I, st, x):
        x = as_arith(x)
        yield st, (ops.z_abs(x) if is_z3(x) else abs(x))

    N["abs"] = Builtin("numpy.abs", elementwise(_abs))

    def _rint(I, st, x):
        """np.rint: round half to even, result stays a float (A1: a real with an integer value)"""
        x = as_arith(x)
        if isinstance(x, bool) or not is_number(x):
            raise Unsupported("np.rint of %r" % (x,))
        if is_z3(x):
            if z3.is_int(x):
                yield st, z3.ToReal(x)
            elif z3.is_app_of(x, z3.Z3_OP_TO_REAL):
                yield st, x
            else:
                I.trust("round", "A1: round(x) is round-half-to-even over the reals")
                yield st, z3.ToReal(ops.z_round_half_even(x))
        else:
            yield st, Fraction(round(Fraction(x)))

    N["rint"] = Builtin("numpy.rint", elementwise(_rint))
    N["absolute"] = N["abs"]
    N["ndarray"] = BuiltinClass("ndarray")
    reg("dtype", lambda I, st, d: DtypeVal(as_dtype_kind(d)))
    for _nm in ("int8", "int16", "int32", "uint8", "uint16", "uint32", "uint64"):
        N[_nm] = BuiltinClass(_nm)
    N["uint"] = N["uint64"]
    N["unsignedinteger"] = BuiltinClass("unsignedinteger")
    N["signedinteger"] = BuiltinClass("signedinteger")
    N["str_"] = BuiltinClass("str_")

    def _iinfo(I, st, t):
        if isinstance(t, DtypeVal):
            if t.kind != "i":
                return exc("ValueError", "Invalid integer data type %r." % t.kind)
            return IinfoVal(64, True)
        if isinstance(t, BuiltinClass) and t.name in INT_TYPES:
            return IinfoVal(*INT_TYPES[t.name])
        raise Unsupported("np.iinfo(%r)" % (t,))

    reg("iinfo", _iinfo)

    def _issubdtype(I, st, d, t):
        """np.issubdtype for the dtypes of modelled arrays (int64, float64, bool, str, bytes, object) against the abstract
        classes np.floating / np.integer / np.signedinteger / np.unsignedinteger / np.number / np.str_"""
        kind = as_dtype_kind(d)
        if not isinstance(t, BuiltinClass):
            raise Unsupported("np.issubdtype(.., %r)" % (t,))
        table = {"floating": ("f",), "integer": ("i",), "signedinteger": ("i",), "unsignedinteger": (), "number": ("i", "f"),
                 "str_": ("U",)}
        if t.name not in table:
            raise Unsupported("np.issubdtype(.., %s)" % t.name)
        return kind in table[t.name]

    reg("issubdtype", _issubdtype)
    N["float64"] = BuiltinClass("float", float)
    N["float32"] = BuiltinClass("float", float)  # A1: single precision is a real number too (rounding not modelled)
    N["int64"] = BuiltinClass("int", int)
    N["integer"] = BuiltinClass("integer")
    N["floating"] = BuiltinClass("floating")
    N["number"] = BuiltinClass("number")
    N["nan"] = Opaque("nan")
    N["inf"] = Opaque("inf")
    pi = z3.Real("pi")
    N["pi"] = pi

    def _sum(I, st, v, axis=None):
        if axis is not None:
            raise Unsupported("np.sum axis")
        s, d = asnd(I, st, v)
        r = 0
        for x in d:
            r = scalar_op(I, st, "Add", r, x)
        return r

    reg("sum", _sum)

    def _mean(I, st, v, axis=None):
        # A1: arithmetic mean over the reals of all elements (no axis); the mean of an empty array is nan: outside the model
        if axis is not None:
            raise Unsupported("np.mean axis")
        s, d = asnd(I, st, v)
        if not d:
            raise Unsupported("np.mean of an empty array (nan)")
        r = 0
        for x in d:
            r = scalar_op(I, st, "Add", r, x)
        return scalar_op(I, st, "Div", tofloat(r), len(d))

    reg("mean", _mean)

    def _all(I, st, v):
        s, d = asnd(I, st, v)
        return M.conj([I.truth(x, st) for x in d])

    def _any(I, st, v):
        s, d = asnd(I, st, v)
        return M.disj([I.truth(x, st) for x in d])

    reg("all", _all)
    reg("any", _any)

    def _array_equal(I, st, a, b):
        sa, da = asnd(I, st, a)
        sb, db = asnd(I, st, b)
        if sa != sb:
            return False
        return M.conj([M.eq_values(I, st, x, y) for x, y in zip(da, db)])

    reg("array_equal", _array_equal)
    reg("shape", lambda I, st, v: tuple(asnd(I, st, v)[0]))

    def _isscalar(I, st, v):
        return is_number(v) or isinstance(v, str)

    reg("isscalar", _isscalar)

    def _where(I, st, cond, *xy):
        """np.where(cond) with ONE argument over a 1-d sequence of concrete truth values: (indices of the true ones,)"""
        if xy:
            raise Unsupported("np.where with three arguments")
        s, d = asnd(I, st, cond)
        if len(s) != 1:
            raise Unsupported("np.where on a %d-d condition" % len(s))
        if not all(isinstance(x, bool) for x in d):
            raise Unsupported("np.where on a symbolic condition")
        e = NdE((sum(1 for x in d if x),), [i for i, x in enumerate(d) if x])
        e.dtype = "i"
        return (st.alloc(e),)

    reg("where", _where)

    def _repeat(I, st, v, n):
        """np.repeat(scalar, n) -> 1-d array of n copies"""
        if not (is_number(v) or is_nan(v)) or not isinstance(n, int) or isinstance(n, bool) or n < 0:
            raise Unsupported("np.repeat of a non-scalar or with a symbolic count")
        return mk(I, st, [v] * n)

    reg("repeat", _repeat)

    def _reshape(I, st, v, shape):
        sh, d = asnd(I, st, v)
        shape = tuple(I.iterate(shape, st)) if not isinstance(shape, int) else (shape,)
        if not all(isinstance(x, int) and not isinstance(x, bool) and x >= 0 for x in shape):
            raise Unsupported("np.reshape with a symbolic or inferred (-1) dimension")
        if size(shape) != len(d):
            return exc("ValueError", "cannot reshape array of size %d into shape %r" % (len(d), shape))
        e = NdE(shape, d)
        if isinstance(v, Ref) and st.get(v).kind == "nd":
            if "dtype" in st.get(v).__dict__:
                e.dtype = st.get(v).dtype
            return alloc_view(st, v, e, list(range(len(d))))
        return st.alloc(e)

    reg("reshape", _reshape)

    def _concatenate(I, st, seq, axis=0):
        """np.concatenate((a1, a2, ...)) of 1-d arrays / sequences along axis 0: the entries in order"""
        if axis != 0:
            raise Unsupported("np.concatenate along an axis other than 0")
        parts = I.iterate(seq, st)
        if not parts:
            return exc("ValueError", "need at least one array to concatenate")
        data = []
        for part in parts:
            sh, d = asnd(I, st, part)
            if len(sh) == 0:
                return exc("ValueError", "zero-dimensional arrays cannot be concatenated")
            if len(sh) != 1:
                raise Unsupported("np.concatenate of arrays with more than one dimension")
            data.extend(d)
        if not all(is_number(x) or is_nan(x) for x in data):
            raise Unsupported("np.concatenate of non-numeric arrays")
        return mk(I, st, list(data))

    reg("concatenate", _concatenate)
    def _isnan(I, st, v):
        """A1: a real is never NaN; the literal np.nan (kept as an uninterpreted element of float arrays) is"""
        if isinstance(v, Ref) and st.get(v).kind == "nd":
            e = st.get(v)
            if not all(is_number(x) or is_nan(x) for x in e.data):
                raise Unsupported("np.isnan of a non-numeric array")
            r = NdE(e.shape, [is_nan(x) for x in e.data])
            r.dtype = "b"
            return st.alloc(r)
        if is_nan(v):
            return True
        if is_number(v):
            return False
        raise Unsupported("np.isnan of %r" % (v,))

    reg("isnan", _isnan)
    reg("isfinite", lambda I, st, v: True)

    def _interp(I, st, x, xp, fp, left=None, right=None, period=None):
        """np.interp(x, xp, fp) for a SCALAR x (concrete or symbolic real) over a CONCRETE non-decreasing table xp and a
        table fp of numbers of the same length: over the reals (A1) the clamped piecewise-linear interpolant numpy
        computes - fp[0] below xp[0], fp[-1] at / above xp[-1], and fp[j] + (fp[j+1]-fp[j])/(xp[j+1]-xp[j]) * (x - xp[j])
        on xp[j] <= x < xp[j+1] (numpy's binary search picks the LAST j with xp[j] <= x, so a repeated abscissa is a
        jump, never a division by zero).  One merged If-term, no path fork."""
        if left is not None or right is not None or period is not None:
            raise Unsupported("np.interp with left / right / period")
        if isinstance(x, Ref) or isinstance(x, tuple):
            raise Unsupported("np.interp of an array of abscissae")
        if not is_number(x):
            raise Unsupported("np.interp of %r" % (x,))
        xs, ys = list(asnd(I, st, xp)[1]), list(asnd(I, st, fp)[1])
        if len(asnd(I, st, xp)[0]) != 1 or len(asnd(I, st, fp)[0]) != 1:
            raise Unsupported("np.interp over tables that are not 1-d")
        if not xs:
            return exc("ValueError", "array of sample points is empty")
        if len(xs) != len(ys):
            return exc("ValueError", "fp and xp are not of the same length.")
        if any(is_z3(v) or isinstance(v, bool) or not isinstance(v, (int, Fraction)) for v in xs):
            raise Unsupported("np.interp over a symbolic / non-numeric table of abscissae")
        if not all(is_number(v) and not is_boollike(v) for v in ys):
            raise Unsupported("np.interp over non-numeric ordinates")
        if any(xs[j] > xs[j + 1] for j in range(len(xs) - 1)):
            raise Unsupported("np.interp over a table of abscissae that is not non-decreasing (numpy: result undefined)")
        xs = [Fraction(v) for v in xs]
        ys = [tofloat(v) for v in ys]
        x = as_arith(x)
        n = len(xs)

        def seg(j, xv):
            slope = scalar_op(I, st, "Div", scalar_op(I, st, "Sub", ys[j + 1], ys[j]), xs[j + 1] - xs[j])
            return scalar_op(I, st, "Add", scalar_op(I, st, "Mult", slope, scalar_op(I, st, "Sub", xv, xs[j])), ys[j])

        if not is_z3(x):
            xv = Fraction(x)
            if xv < xs[0]:
                return ys[0]
            if xv >= xs[-1]:
                return ys[-1]
            j = max(i for i in range(n) if xs[i] <= xv)
            return seg(j, xv)
        zx = z3.ToReal(x) if z3.is_int(x) else x
        # nested from the top: x >= xp[n-1] -> fp[n-1]; else the last j with xp[j] <= x; else (x < xp[0]) fp[0]
        r = z3val(ys[0])
        for j in range(n - 1):
            if xs[j] == xs[j + 1]:
                continue  # empty interval [xp[j], xp[j+1])
            r = z3.If(zx >= z3val(xs[j]), z3val(seg(j, zx)), r)
        r = z3.If(zx >= z3val(xs[-1]), z3val(ys[-1]), r)
        return r

    reg("interp", _interp)
    return N


def make_linalg(I):
    L = {}

    def norm(I, st, a, k):
        s, d = asnd(I, st, a[0])
        tot = 0
        for x in d:
            tot = scalar_op(I, st, "Add", tot, scalar_op(I, st, "Mult", x, x))
        yield from ops.sqrt(I, st, tot)

    L["norm"] = Builtin("numpy.linalg.norm", norm)
    return L


def ndarray_new(I, st, args, kwargs):
    """np.ndarray(shape, dtype=float, buffer=None): with a buffer of the SAME element kind the first prod(shape) elements
    of the buffer in row-major order (TypeError when the buffer is too small); without buffer only the object dtype is
    modelled (numpy fills it with None).  numpy returns a view of the buffer: the result is marked `shared` and item
    assignment to it is refused (Unsupported), a reinterpretation of the bytes under another dtype is refused too."""
    names = ["shape", "dtype", "buffer"]
    a = dict(zip(names, args))
    for k, v in kwargs.items():
        if k not in names or k in a:
            raise Unsupported("np.ndarray argument " + k)
        a[k] = v
    shape = a.get("shape")
    if isinstance(shape, Ref) and st.get(shape).kind == "nd":
        shape = tuple(st.get(shape).data)
    elif isinstance(shape, Ref) or isinstance(shape, tuple):
        shape = tuple(I.iterate(shape, st))
    else:
        shape = (shape,)
    if not all(isinstance(x, int) and not isinstance(x, bool) and x >= 0 for x in shape):
        raise Unsupported("np.ndarray with a symbolic or negative shape")
    kind = as_dtype_kind(a.get("dtype")) or "f"
    buf = a.get("buffer")
    if buf is None:
        if kind != "O":
            raise Unsupported("np.ndarray without buffer (uninitialised memory)")
        e = NdE(shape, [None] * size(shape))
        e.dtype = "O"
        yield st, st.alloc(e)
        return
    if not (isinstance(buf, Ref) and st.get(buf).kind == "nd"):
        raise Unsupported("np.ndarray buffer that is not an array")
    be = st.get(buf)
    if dtype_of(be) != kind or kind not in ("i", "f", "b"):
        raise Unsupported("np.ndarray reinterpreting a buffer of another dtype")
    I.trust("numpy-ndarray-buffer", "np.ndarray(shape, dtype, buffer) of the buffer's own dtype = its first prod(shape) elements; the result may not be assigned to (it is a view)")
    n = size(shape)
    if len(be.data) < n:
        yield st, exc("TypeError", "buffer is too small for requested array")
        return
    e = NdE(shape, be.data[:n])
    e.shared = True
    yield st, st.alloc(e)


def make_char(I):
    """numpy.char: decode of an array of byte strings (concrete) -> array of str"""
    C = {}

    def decode(I, st, a, k):
        if k or len(a) != 1:
            raise Unsupported("np.char.decode with an encoding argument")
        sh, d = asnd(I, st, a[0])
        if not all(isinstance(x, bytes) for x in d):
            raise Unsupported("np.char.decode of non-bytes elements")
        out = []
        for x in d:
            try:
                out.append(x.decode())
            except UnicodeDecodeError as err:
                yield st, exc("UnicodeDecodeError", str(err))
                return
        e = NdE(sh, out)
        e.dtype = "U"
        yield st, st.alloc(e)

    C["decode"] = Builtin("numpy.char.decode", decode)
    return C


def nd_set_mask(I, st, ref, mask, v):
    """a[mask] = scalar with a boolean mask of a's shape: the elements where the mask holds get the value; a mask
    element that is symbolic splits the path (both outcomes, each with its condition)"""
    e = st.get(ref)
    me = st.get(mask)
    if me.shape != e.shape:
        raise Unsupported("boolean mask of another shape")
    if isinstance(v, Ref) or isinstance(v, tuple):
        raise Unsupported("boolean mask assignment of a sequence")
    isfloat = getattr(e, "dtype", None) != "O" and any(is_reallike(x) for x in e.data)
    if v is None and getattr(e, "dtype", None) != "O":
        yield st, exc("TypeError", "float() argument must be a string or a real number, not 'NoneType'")
        return
    val = tofloat(v) if (isfloat and is_number(v)) else v
    conds = list(me.data)

    def rec(st1, k):
        if k == len(conds):
            yield st1, None
            return
        c = conds[k]
        if isinstance(c, bool):
            if c:
                st1.get(ref).data[k] = val
                sync_views(st1, ref)
            yield from rec(st1, k + 1)
            return
        for st2, ok in I.branch(st1, c):
            if ok:
                st2.get(ref).data[k] = val
                sync_views(st2, ref)
            yield from rec(st2, k + 1)

    yield from rec(st, 0)
