"""numpy mini-model (trusted base A5): fixed small shapes, elements are engine values.

Only what the verified armi functions use: array construction from nested sequences, elementwise
arithmetic with scalar/equal-shape/row broadcasting, dot, integer / tuple / slice / fancy indexing,
item assignment, sum/any/all, zeros/ones, linalg.norm, sqrt/cos/sin elementwise.
"""
import itertools
from fractions import Fraction

import z3

from . import ops
from .ops import exc, is_number
from .values import (
    Ref, ListE, NdE, Builtin, BuiltinClass, Exc, Opaque, SliceVal, Unsupported, is_z3, z3val, as_arith,
    is_intlike, is_reallike, coerce_pair,
)


def _M():
    from . import models

    return models


def size(shape):
    n = 1
    for s in shape:
        n *= s
    return n


def to_nested(I, st, v):
    """engine value -> nested python lists of scalars (and the shape)."""
    from .symex import FrozenNd, FrozenList

    if isinstance(v, FrozenNd):
        v = I.thaw(v, st)
    if isinstance(v, Ref):
        e = st.get(v)
        if e.kind == "nd":
            return unflatten(e.shape, e.data)
        if e.kind in ("list", "deque"):
            return [to_nested(I, st, x) for x in e.items]
        if e.kind == "symlist":
            raise Unsupported("numpy array from a symbolic-length list")
        raise Unsupported("numpy array from %s" % e.kind)
    if isinstance(v, FrozenList):
        return [to_nested(I, st, x) for x in v.items]
    if isinstance(v, tuple):
        return [to_nested(I, st, x) for x in v]
    if isinstance(v, range):
        return list(v)
    if is_number(v) or v is None or isinstance(v, str):
        return v
    raise Unsupported("numpy array element %r" % (v,))


def shape_of(n):
    if isinstance(n, list):
        if not n:
            return (0,)
        s0 = shape_of(n[0])
        for x in n[1:]:
            if shape_of(x) != s0:
                raise Unsupported("ragged array")
        return (len(n),) + s0
    return ()


def flatten(n):
    if isinstance(n, list):
        out = []
        for x in n:
            out.extend(flatten(x))
        return out
    return [n]


def unflatten(shape, data):
    if not shape:
        return data[0]
    if len(shape) == 1:
        return list(data)
    step = size(shape[1:])
    return [unflatten(shape[1:], data[i * step : (i + 1) * step]) for i in range(shape[0])]


def mk(I, st, nested, dtype=None):
    shape = shape_of(nested)
    data = flatten(nested)
    if dtype == "float":
        data = [tofloat(x) for x in data]
    elif any(is_reallike(x) for x in data):
        # numpy upcasts mixed int/float arrays to float
        data = [tofloat(x) if is_number(x) else x for x in data]
    return st.alloc(NdE(shape, data))


def tofloat(x):
    x = as_arith(x)
    if isinstance(x, int):
        return Fraction(x)
    if is_z3(x) and z3.is_int(x):
        return z3.ToReal(x)
    return x


def asnd(I, st, v):
    """-> (shape, data) for arrays / sequences / scalars"""
    if isinstance(v, Ref) and st.get(v).kind == "nd":
        e = st.get(v)
        return e.shape, e.data
    n = to_nested(I, st, v)
    return shape_of(n), flatten(n)


def scalar_op(I, st, op, a, b):
    outs = list(ops.binop(I, st, op, a, b))
    if len(outs) == 1 and not isinstance(outs[0][1], Exc) and outs[0][0] is st:
        return outs[0][1]
    if op in ("Div", "FloorDiv", "Mod"):
        # numpy does not raise on division by zero; outside the real-number model
        raise Unsupported("array division where the divisor may be zero")
    raise Unsupported("array elementwise op forks")


def broadcast(sa, da, sb, db):
    """-> shape, list of (x, y) pairs.  Supports equal shapes, scalars, and trailing-dimension broadcasting."""
    if sa == sb:
        return sa, list(zip(da, db))
    if sa == ():
        return sb, [(da[0], y) for y in db]
    if sb == ():
        return sa, [(x, db[0]) for x in da]
    if len(sa) > len(sb) and sa[len(sa) - len(sb) :] == sb:
        reps = size(sa) // size(sb)
        return sa, list(zip(da, db * reps))
    if len(sb) > len(sa) and sb[len(sb) - len(sa) :] == sa:
        reps = size(sb) // size(sa)
        return sb, list(zip(da * reps, db))
    if len(sa) == len(sb) and all(x == y or x == 1 or y == 1 for x, y in zip(sa, sb)):
        out = tuple(max(x, y) for x, y in zip(sa, sb))
        pairs = []
        for idx in itertools.product(*[range(n) for n in out]):
            ia = sum((i if n > 1 else 0) * size(sa[k + 1 :]) for k, (i, n) in enumerate(zip(idx, sa)))
            ib = sum((i if n > 1 else 0) * size(sb[k + 1 :]) for k, (i, n) in enumerate(zip(idx, sb)))
            pairs.append((da[ia], db[ib]))
        return out, pairs
    raise Unsupported("broadcast of shapes %s and %s" % (sa, sb))


def nd_binop(I, st, op, a, b):
    I.trust("numpy", "A5: numpy mini-model (fixed shapes, elementwise real arithmetic, dot, indexing)")
    sa, da = asnd(I, st, a)
    sb, db = asnd(I, st, b)
    if op == "MatMult":
        yield st, dot(I, st, a, b)
        return
    try:
        shape, pairs = broadcast(sa, da, sb, db)
    except Unsupported:
        yield st, exc("ValueError", "operands could not be broadcast together")
        return
    data = [scalar_op(I, st, op, x, y) for x, y in pairs]
    yield st, st.alloc(NdE(shape, data))


def nd_compare(I, st, op, a, b):
    M = _M()
    sa, da = asnd(I, st, a)
    sb, db = asnd(I, st, b)
    try:
        shape, pairs = broadcast(sa, da, sb, db)
    except Unsupported:
        yield st, False if op == "Eq" else True
        return
    out = []
    for x, y in pairs:
        if op == "Eq":
            out.append(M.eq_values(I, st, x, y))
        elif op == "NotEq":
            out.append(M.znot(M.eq_values(I, st, x, y)))
        else:
            out.append(ops.num_compare(op, x, y))
    yield st, st.alloc(NdE(shape, out))


def nd_map(I, st, ref, fn):
    e = st.get(ref)
    return st.alloc(NdE(e.shape, [fn(x) for x in e.data]))


def nd_rows(I, st, ref):
    e = st.get(ref)
    if not e.shape:
        raise Unsupported("iteration over 0-d array")
    if len(e.shape) == 1:
        return list(e.data)
    step = size(e.shape[1:])
    return [st.alloc(NdE(e.shape[1:], e.data[i * step : (i + 1) * step])) for i in range(e.shape[0])]


def _index_list(I, st, idx, n):
    """Translate one index component into a list of positions or a single int."""
    if isinstance(idx, bool):
        raise Unsupported("boolean index")
    if isinstance(idx, int):
        if not -n <= idx < n:
            raise IndexError
        return idx % n if n else idx
    if isinstance(idx, SliceVal):
        M = _M()
        return list(range(n))[M.slice_concrete(I, n, idx)]
    if isinstance(idx, (tuple,)) or (isinstance(idx, Ref) and st.get(idx).kind in ("list", "nd")):
        items = I.iterate(idx, st)
        out = []
        for x in items:
            if not isinstance(x, int):
                raise Unsupported("fancy index with non-integer")
            if not -n <= x < n:
                raise IndexError
            out.append(x % n)
        return out
    raise Unsupported("array index %r" % (idx,))


def resolve_index(I, st, shape, idx):
    """-> (result shape, list of flat positions).  idx: int | slice | tuple of those | list (fancy on axis 0)."""
    if isinstance(idx, tuple):
        comps = list(idx)
        # numpy: arr[(tuple_of_ints,)] is fancy indexing on axis 0
    else:
        comps = [idx]
    if len(comps) > len(shape):
        raise IndexError
    sel = []
    for k, c in enumerate(comps):
        if is_z3(c):
            raise Unsupported("symbolic array index")
        sel.append(_index_list(I, st, c, shape[k]))
    for k in range(len(comps), len(shape)):
        sel.append(list(range(shape[k])))
    nfancy = sum(1 for s, c in zip(sel, comps) if isinstance(s, list) and not isinstance(c, SliceVal))
    if nfancy > 1:
        raise Unsupported("more than one fancy index")
    out_shape = tuple(len(s) for s in sel if isinstance(s, list))
    axes = [s if isinstance(s, list) else [s] for s in sel]
    pos = []
    for combo in itertools.product(*axes):
        p = 0
        for k, i in enumerate(combo):
            p += i * size(shape[k + 1 :])
        pos.append(p)
    return out_shape, pos


def nd_getitem(I, st, ref, idx):
    e = st.get(ref)
    if is_z3(idx) and len(e.shape) == 1:
        M = _M()
        yield from M.index_concrete_seq(I, st, e.data, idx, ref)
        return
    try:
        shape, pos = resolve_index(I, st, e.shape, idx)
    except IndexError:
        yield st, exc("IndexError", "index out of bounds")
        return
    if shape == ():
        yield st, e.data[pos[0]]
    else:
        yield st, st.alloc(NdE(shape, [e.data[p] for p in pos]))


def nd_setitem(I, st, ref, idx, v):
    e = st.get(ref)
    try:
        shape, pos = resolve_index(I, st, e.shape, idx)
    except IndexError:
        yield st, exc("IndexError", "index out of bounds")
        return
    sv, dv = asnd(I, st, v)
    if sv == ():
        vals = [dv[0]] * len(pos)
    elif size(sv) == len(pos):
        vals = dv
    elif len(pos) % max(size(sv), 1) == 0 and size(sv):
        vals = dv * (len(pos) // size(sv))
    else:
        yield st, exc("ValueError", "shape mismatch in array assignment")
        return
    isfloat = any(is_reallike(x) for x in e.data)
    for p, x in zip(pos, vals):
        e.data[p] = tofloat(x) if isfloat else x
    yield st, None


def dot(I, st, a, b):
    sa, da = asnd(I, st, a)
    sb, db = asnd(I, st, b)
    add = lambda x, y: scalar_op(I, st, "Add", x, y)
    mul = lambda x, y: scalar_op(I, st, "Mult", x, y)

    def ssum(xs):
        if not xs:
            return 0
        r = xs[0]
        for x in xs[1:]:
            r = add(r, x)
        return r

    if sa == () or sb == ():
        shape, pairs = broadcast(sa, da, sb, db)
        return st.alloc(NdE(shape, [mul(x, y) for x, y in pairs]))
    if len(sa) == 1 and len(sb) == 1:
        if sa != sb:
            raise Unsupported("dot shape mismatch")
        return ssum([mul(x, y) for x, y in zip(da, db)])
    if len(sa) == 2 and len(sb) == 1:
        if sa[1] != sb[0]:
            raise Unsupported("dot shape mismatch %s %s" % (sa, sb))
        return st.alloc(NdE((sa[0],), [ssum([mul(da[i * sa[1] + k], db[k]) for k in range(sa[1])]) for i in range(sa[0])]))
    if len(sa) == 1 and len(sb) == 2:
        if sa[0] != sb[0]:
            raise Unsupported("dot shape mismatch")
        return st.alloc(NdE((sb[1],), [ssum([mul(da[k], db[k * sb[1] + j]) for k in range(sa[0])]) for j in range(sb[1])]))
    if len(sa) == 2 and len(sb) == 2:
        if sa[1] != sb[0]:
            raise Unsupported("dot shape mismatch")
        out = []
        for i in range(sa[0]):
            for j in range(sb[1]):
                out.append(ssum([mul(da[i * sa[1] + k], db[k * sb[1] + j]) for k in range(sa[1])]))
        return st.alloc(NdE((sa[0], sb[1]), out))
    raise Unsupported("dot of shapes %s %s" % (sa, sb))


def nd_getattr(I, st, ref, name):
    M = _M()
    e = st.get(ref)

    def simple(fn):
        def f(I, st, a, k):
            yield st, fn(I, st, *a, **k)

        return Builtin("ndarray." + name, f)

    if name == "shape":
        yield st, tuple(e.shape)
    elif name == "ndim":
        yield st, len(e.shape)
    elif name == "size":
        yield st, size(e.shape)
    elif name == "T":
        if len(e.shape) != 2:
            yield st, ref
        else:
            r, c = e.shape
            yield st, st.alloc(NdE((c, r), [e.data[i * c + j] for j in range(c) for i in range(r)]))
    elif name == "dot":
        yield st, simple(lambda I, st, b: dot(I, st, ref, b))
    elif name == "any":
        yield st, simple(lambda I, st: M.disj([I.truth(x, st) for x in st.get(ref).data]))
    elif name == "all":
        yield st, simple(lambda I, st: M.conj([I.truth(x, st) for x in st.get(ref).data]))
    elif name == "sum":
        def _sum(I, st, axis=None):
            ee = st.get(ref)
            if axis is not None:
                raise Unsupported("sum with axis")
            r = 0
            for x in ee.data:
                r = scalar_op(I, st, "Add", r, x)
            return r
        yield st, simple(_sum)
    elif name == "tolist":
        def _tl(I, st):
            def conv(n):
                if isinstance(n, list):
                    return st.alloc(ListE([conv(x) for x in n]))
                return n
            ee = st.get(ref)
            return conv(unflatten(ee.shape, ee.data))
        yield st, simple(_tl)
    elif name == "copy":
        yield st, simple(lambda I, st: st.alloc(st.get(ref).copy()))
    elif name == "flatten" or name == "ravel":
        yield st, simple(lambda I, st: st.alloc(NdE((size(st.get(ref).shape),), st.get(ref).data)))
    elif name == "astype":
        def _as(I, st, t):
            ee = st.get(ref)
            if isinstance(t, BuiltinClass) and t.name == "float":
                return st.alloc(NdE(ee.shape, [tofloat(x) for x in ee.data]))
            raise Unsupported("astype")
        yield st, simple(_as)
    elif name == "__bool__":
        def _bool(I, st, a, k):
            ee = st.get(ref)
            if size(ee.shape) == 1:
                yield st, I.truth(ee.data[0], st)
            elif size(ee.shape) == 0:
                raise Unsupported("truth value of an empty array")
            else:
                yield st, exc("ValueError", "The truth value of an array with more than one element is ambiguous")
        yield st, Builtin("ndarray.__bool__", _bool)
    elif name == "dtype":
        yield st, Opaque("dtype")
    else:
        raise Unsupported("ndarray attribute " + name)


def make_module(I):
    M = _M()
    N = {}

    def reg(name, fn):
        def f(I, st, a, k):
            I.trust("numpy", "A5: numpy mini-model (fixed shapes, elementwise real arithmetic, dot, indexing)")
            yield st, fn(I, st, *a, **k)

        N[name] = Builtin("numpy." + name, f)

    def array(I, st, v, dtype=None):
        dt = None
        if isinstance(dtype, BuiltinClass) and dtype.name == "float":
            dt = "float"
        elif dtype is not None and not (isinstance(dtype, BuiltinClass) and dtype.name == "int"):
            raise Unsupported("np.array dtype")
        return mk(I, st, to_nested(I, st, v), dt)

    reg("array", array)
    reg("asarray", array)

    def zeros(I, st, shape, dtype=None):
        if isinstance(shape, int):
            shape = (shape,)
        shape = tuple(I.iterate(shape, st))
        if not all(isinstance(s, int) for s in shape):
            raise Unsupported("np.zeros with symbolic shape")
        if any(s < 0 for s in shape):
            return exc("ValueError", "negative dimensions are not allowed")
        z = 0 if (isinstance(dtype, BuiltinClass) and dtype.name == "int") else Fraction(0)
        return st.alloc(NdE(shape, [z] * size(shape)))

    reg("zeros", zeros)

    def ones(I, st, shape, dtype=None):
        if isinstance(shape, int):
            shape = (shape,)
        shape = tuple(I.iterate(shape, st))
        if not all(isinstance(s, int) for s in shape):
            raise Unsupported("np.ones with symbolic shape")
        if any(s < 0 for s in shape):
            return exc("ValueError", "negative dimensions are not allowed")
        return st.alloc(NdE(shape, [Fraction(1)] * size(shape)))

    reg("ones", ones)

    def empty(I, st, shape, dtype=None):
        # np.empty: uninitialised float array = arbitrary (fresh, unconstrained) real in every cell
        if dtype is not None and not (isinstance(dtype, BuiltinClass) and dtype.name == "float"):
            raise Unsupported("np.empty dtype")
        if isinstance(shape, int):
            shape = (shape,)
        shape = tuple(I.iterate(shape, st))
        if not all(isinstance(s, int) for s in shape):
            raise Unsupported("np.empty with symbolic shape")
        if any(s < 0 for s in shape):
            return exc("ValueError", "negative dimensions are not allowed")
        return st.alloc(NdE(shape, [I.fresh("real", "uninit") for _ in range(size(shape))]))

    reg("empty", empty)
    reg("dot", lambda I, st, a, b: dot(I, st, a, b))

    def elementwise(fn):
        def f(I, st, a, k):
            v = a[0]
            if isinstance(v, Ref) and st.get(v).kind == "nd":
                e = st.get(v)
                cur = st
                out = []
                for x in e.data:
                    outs = list(fn(I, cur, x))
                    if len(outs) != 1 or isinstance(outs[0][1], Exc):
                        raise Unsupported("elementwise numpy function forks")
                    cur, r = outs[0]
                    out.append(r)
                yield cur, cur.alloc(NdE(e.shape, out))
            else:
                yield from fn(I, st, v)

        return f

    N["sqrt"] = Builtin("numpy.sqrt", elementwise(lambda I, st, x: ops.sqrt(I, st, x)))
    math = I.ext_modules.get("math") if hasattr(I, "ext_modules") else None

    def _abs(I, st, x):
        x = as_arith(x)
        yield st, (ops.z_abs(x) if is_z3(x) else abs(x))

    N["abs"] = Builtin("numpy.abs", elementwise(_abs))
    N["absolute"] = N["abs"]
    N["ndarray"] = BuiltinClass("ndarray")
    N["float64"] = BuiltinClass("float", float)
    N["float32"] = BuiltinClass("float", float)  # A1: single precision is a real number too (rounding not modelled)
    N["int64"] = BuiltinClass("int", int)
    N["integer"] = BuiltinClass("integer")
    N["floating"] = BuiltinClass("floating")
    N["number"] = BuiltinClass("number")
    N["nan"] = Opaque("nan")
    N["inf"] = Opaque("inf")
    pi = z3.Real("pi")
    N["pi"] = pi

    def _sum(I, st, v, axis=None):
        if axis is not None:
            raise Unsupported("np.sum axis")
        s, d = asnd(I, st, v)
        r = 0
        for x in d:
            r = scalar_op(I, st, "Add", r, x)
        return r

    reg("sum", _sum)

    def _all(I, st, v):
        s, d = asnd(I, st, v)
        return M.conj([I.truth(x, st) for x in d])

    def _any(I, st, v):
        s, d = asnd(I, st, v)
        return M.disj([I.truth(x, st) for x in d])

    reg("all", _all)
    reg("any", _any)

    def _array_equal(I, st, a, b):
        sa, da = asnd(I, st, a)
        sb, db = asnd(I, st, b)
        if sa != sb:
            return False
        return M.conj([M.eq_values(I, st, x, y) for x, y in zip(da, db)])

    reg("array_equal", _array_equal)
    reg("shape", lambda I, st, v: tuple(asnd(I, st, v)[0]))

    def _isscalar(I, st, v):
        return is_number(v) or isinstance(v, str)

    reg("isscalar", _isscalar)
    reg("isnan", lambda I, st, v: False)  # A1: reals are never NaN
    reg("isfinite", lambda I, st, v: True)
    return N


def make_linalg(I):
    L = {}

    def norm(I, st, a, k):
        s, d = asnd(I, st, a[0])
        tot = 0
        for x in d:
            tot = scalar_op(I, st, "Add", tot, scalar_op(I, st, "Mult", x, x))
        yield from ops.sqrt(I, st, tot)

    L["norm"] = Builtin("numpy.linalg.norm", norm)
    return L
